//! Smoke test of the deterministic simulator (not a property check).
use qverif::sim::*;
use qverif::Rng;
use std::collections::HashMap;

fn main() {
    qverif::quiet_panics();
    let src = "! [10]";
    for seed in 0..6u64 {
        let mut r = Rng::for_case(99, seed);
        let n = 1 + r.usize(4);
        let q = *r.pick(&[Some(1usize), Some(2), Some(7), None]);
        let pol = Policy::random(&mut r, n);
        let (out, sim) = eval_random(src, &HashMap::new(), n, q, &mut r, &pol, 3000);
        let s = sim.render_schedule();
        println!("n={n} q={q:?} pol={pol:?} out={} time={} idle={} nt={:?}\n   sched tail: {}", out.render(), sim.time_ms, sim.idle(), sim.next_timeout(), &s[s.len().saturating_sub(300)..]);
    }
}
