//! The fragment differential (Core/Text/Fragment.lean, theorems `C17.format_fixpoint_fragment` & co).
//!
//! The fragment: one statement, nested anonymous tuples whose fields are unnamed one-term chains,
//! leaves are bare identifiers, no trivia. Both models of the fragment are tied to the implementation
//! here, so that the theorem (a statement about the two models) says something about `quiv format`:
//!
//!  * parser model `frag-parse` vs `quiver_compiler::parse` on random LAYOUTS of a random term (free
//!    white space, line breaks and comments inside the brackets, optional trailing comma) and on the
//!    text the model's layout engine prints at a random page width;
//!  * formatter model `frag-fmt` vs `quiver_compiler::format_program` (byte for byte);
//!  * the theorem's instance at run time: `frag-parse (frag-print w t)` = `t` with nothing left over.
use super::strings::hx;
use quiver_compiler::ast::{AccessSource, FieldValue, Literal, Program, Statement, Term, TupleName};
use quiver_compiler::{format_program, parse};
use qverif::{Ev, Model, Opts, Rng, catch};
use serde_json::json;

#[derive(Clone, Debug, PartialEq, Eq)]
pub enum T {
    Leaf(String),
    /// identifier with accessors: fields (Ok) and indices (Err, canonical decimal)
    Acc(String, Vec<Result<String, String>>),
    /// integer literal, canonical decimal text
    Int(String),
    /// binary literal, lower-case hex of the bytes
    Bin(String),
    /// single-line string without holes: its value
    Str(String),
    /// a chain of several terms (juxtaposition / `~>`)
    Chain(Vec<T>),
    /// tuple name (None = anonymous), fields (label, value)
    Tup(Option<String>, Vec<(Option<String>, T)>),
}

impl T {
    pub fn sx(&self) -> String {
        match self {
            T::Leaf(n) => format!("(l {})", hx(n)),
            T::Acc(n, p) => format!(
                "(a {}{})",
                hx(n),
                p.iter().map(|a| match a { Ok(f) => format!(" (f {})", hx(f)), Err(i) => format!(" (x {i})") }).collect::<String>()
            ),
            T::Int(d) => format!("(i {d})"),
            T::Str(v) => format!("(s {})", hx(v)),
            T::Chain(ts) => format!("(c{})", ts.iter().map(|t| format!(" {}", t.sx())).collect::<String>()),
            T::Bin(h) => format!("(b {})", if h.is_empty() { "-" } else { h }),
            T::Tup(name, fs) => {
                let mut s = format!("(t {}", name.as_ref().map_or("_".to_string(), |n| hx(n)));
                for (l, f) in fs {
                    match l {
                        Some(l) => s.push_str(&format!(" (n {} {})", hx(l), f.sx())),
                        None => s.push_str(&format!(" (u {})", f.sx())),
                    }
                }
                s.push(')');
                s
            }
        }
    }

    /// `A[a, x: [b, c]]`
    pub fn flat(&self) -> String {
        match self {
            T::Leaf(n) => n.clone(),
            T::Acc(n, p) => format!("{n}{}", p.iter().map(|a| match a { Ok(f) => format!(".{f}"), Err(i) => format!(".{i}") }).collect::<String>()),
            T::Int(d) => d.clone(),
            T::Bin(h) => format!("0x{h}"),
            T::Str(v) => format!("\"{}\"", escape_single(v)),
            T::Chain(ts) => ts.iter().map(|t| t.flat()).collect::<Vec<_>>().join(" "),
            T::Tup(Some(n), fs) if fs.is_empty() => n.clone(),
            T::Tup(name, fs) => format!(
                "{}[{}]",
                name.as_deref().unwrap_or(""),
                fs.iter()
                    .map(|(l, f)| match l {
                        Some(l) => format!("{l}: {}", f.flat()),
                        None => f.flat(),
                    })
                    .collect::<Vec<_>>()
                    .join(", ")
            ),
        }
    }

    /// a random layout: anything `wsc` accepts inside the brackets, optional trailing comma,
    /// `A[]` for the bare name `A`, any white space after a label's colon
    pub fn layout(&self, r: &mut Rng) -> String {
        match self {
            T::Leaf(n) => n.clone(),
            // an index with leading zeros is the same index
            T::Acc(n, p) => format!(
                "{n}{}",
                p.iter()
                    .map(|a| match a {
                        Ok(f) => format!(".{f}"),
                        Err(i) => format!(".{}{i}", if r.chance(1, 4) { "00" } else { "" }),
                    })
                    .collect::<String>()
            ),
            // leading zeros and `-0` read as the same integer, upper-case hex as the same bytes
            T::Int(d) => match r.below(6) {
                0 if d == "0" => "-0".into(),
                0 | 1 => match d.strip_prefix('-') {
                    Some(m) => format!("-{}{m}", "0".repeat(1 + r.usize(3))),
                    None => format!("{}{d}", "0".repeat(1 + r.usize(3))),
                },
                _ => d.clone(),
            },
            T::Bin(h) => format!("0x{}", if r.chance(1, 3) { h.to_uppercase() } else { h.clone() }),
            T::Str(v) => format!("\"{}\"", escape_single(v)),
            // between the terms of a chain: horizontal white space, or `~>` with any white space around
            T::Chain(ts) => {
                let mut s = String::new();
                for (i, t) in ts.iter().enumerate() {
                    if i > 0 {
                        s.push_str(*r.pick(&[" ", "  ", "\t", " ~> ", "\n~> ", "\n  ~>\n  ", " ~>  "]));
                    }
                    s.push_str(&t.layout(r));
                }
                s
            }
            T::Tup(Some(n), fs) if fs.is_empty() && r.chance(2, 3) => n.clone(),
            T::Tup(name, fs) => {
                let mut s = format!("{}[", name.as_deref().unwrap_or(""));
                s.push_str(&gap(r));
                for (i, (l, f)) in fs.iter().enumerate() {
                    if i > 0 {
                        s.push_str(&gap(r));
                        s.push(',');
                        s.push_str(&gap(r));
                    }
                    if let Some(l) = l {
                        s.push_str(l);
                        s.push(':');
                        s.push_str(*r.pick(&[" ", "  ", "\n", " \n  ", "\t"]));
                    }
                    s.push_str(&f.layout(r));
                }
                if !fs.is_empty() && r.chance(1, 3) {
                    s.push_str(&gap(r));
                    s.push(',');
                }
                s.push_str(&gap(r));
                s.push(']');
                s
            }
        }
    }
}

fn gap(r: &mut Rng) -> String {
    match r.below(10) {
        0..=3 => String::new(),
        4 | 5 => " ".into(),
        6 => "\n".into(),
        7 => format!("\n{}", " ".repeat(r.usize(7))),
        8 => " \t \r\n ".into(),
        _ => format!(" // c{}\n ", r.below(10)),
    }
}

fn name(r: &mut Rng) -> String {
    let first = b"abcdefghijklmnopqrstuvwxyz";
    let body = b"abcxyzABCXYZ0189_";
    let mut s = String::new();
    s.push(*r.pick(first) as char);
    let len = match r.below(8) {
        0..=3 => r.usize(3),
        4..=6 => r.usize(12),
        _ => 12 + r.usize(40),
    };
    for _ in 0..len {
        s.push(*r.pick(body) as char);
    }
    match r.below(12) {
        0 => s.push('?'),
        1 => s.push('!'),
        2 => s.push_str("?!"),
        _ => {}
    }
    s
}

fn tuple_name(r: &mut Rng) -> String {
    let first = b"ABCDEFGHIJKLMNOPQRSTUVWXYZ";
    let body = b"abcxyzABCXYZ0189_";
    let mut s = String::new();
    s.push(*r.pick(first) as char);
    let len = if r.chance(1, 8) { 10 + r.usize(30) } else { r.usize(6) };
    for _ in 0..len {
        s.push(*r.pick(body) as char);
    }
    s
}

/// `escape_single_line_text` (written out here so that the source does not depend on the formatter)
fn escape_single(v: &str) -> String {
    let mut out = String::new();
    for c in v.chars() {
        match c {
            '\\' => out.push_str("\\\\"),
            '"' => out.push_str("\\\""),
            '{' => out.push_str("\\{"),
            '\n' => out.push_str("\\n"),
            '\r' => out.push_str("\\r"),
            '\t' => out.push_str("\\t"),
            c => out.push(c),
        }
    }
    out
}

fn str_value(r: &mut Rng) -> String {
    let pool: &[&str] = &[
        "a", "b", " ", "  ", "\\", "\"", "{", "}", "\n", "\r", "\t", "\u{a0}", "\u{2003}", "\0", "é", "漢", "//", ",", "]", "[", "0x", "~>",
        "\u{b}", "\u{c}", "\u{85}", "x y", "'", "=", ":", "|",
    ];
    let n = match r.below(6) {
        0 => 0,
        1..=3 => 1 + r.usize(4),
        _ => 5 + r.usize(40),
    };
    (0..n).map(|_| *r.pick(pool)).collect()
}

fn int_text(r: &mut Rng) -> String {
    let digits = match r.below(6) {
        0 => "0".to_string(),
        1 => format!("{}", r.below(10)),
        2 | 3 => format!("{}", r.below(100000)),
        4 => "18446744073709551616".into(),
        _ => {
            let mut s = format!("{}", 1 + r.below(9));
            for _ in 0..r.usize(45) {
                s.push((b'0' + r.below(10) as u8) as char);
            }
            s
        }
    };
    if digits != "0" && r.chance(1, 3) { format!("-{digits}") } else { digits }
}

fn bin_text(r: &mut Rng) -> String {
    let n = match r.below(5) {
        0 => 0,
        1..=3 => 1 + r.usize(4),
        _ => 5 + r.usize(30),
    };
    r.bytes(n).iter().map(|b| format!("{b:02x}")).collect()
}

thread_local! { pub static CHAINS: std::cell::Cell<bool> = const { std::cell::Cell::new(false) }; }

/// a field value or step: a term, or (one in four) a chain of 2-4 terms. Three quarters of the chains
/// satisfy the restriction of step 3a (no bare identifier before the last term, last term not a tuple
/// with fields); the others exercise the models outside the theorems (pipelines, tall steps, chains
/// ending in a container).
pub fn gen_value(r: &mut Rng, depth: usize) -> T {
    if !CHAINS.with(|c| c.get()) || !r.chance(1, 4) {
        return gen_term(r, depth);
    }
    let n = 2 + r.usize(3);
    let restricted = r.chance(3, 4);
    let mut ts = vec![];
    for i in 0..n {
        let last = i + 1 == n;
        let mut t = gen_term(r, depth.min(2));
        if restricted {
            for _ in 0..20 {
                let bad = if last { matches!(&t, T::Tup(_, fs) if !fs.is_empty()) } else { matches!(t, T::Leaf(_)) };
                if !bad {
                    break;
                }
                t = gen_term(r, depth.min(2));
            }
            if !last && matches!(t, T::Leaf(_)) {
                t = T::Int("1".into());
            }
            if last && matches!(&t, T::Tup(_, fs) if !fs.is_empty()) {
                t = T::Leaf("f".into());
            }
        }
        ts.push(t);
    }
    T::Chain(ts)
}

pub fn gen_term(r: &mut Rng, depth: usize) -> T {
    if depth == 0 || r.chance(2, 5) {
        return match r.below(8) {
            0 | 1 => T::Tup(Some(tuple_name(r)), vec![]),
            2 => T::Int(int_text(r)),
            3 if r.chance(1, 2) => {
                let n = 1 + r.usize(3);
                T::Acc(
                    name(r),
                    (0..n)
                        .map(|_| match r.below(5) {
                            0 | 1 => Ok(name(r)),
                            2 => Err("18446744073709551615".to_string()),
                            _ => Err(format!("{}", r.below(1000))),
                        })
                        .collect(),
                )
            }
            3 => T::Str(str_value(r)),
            4 => T::Bin(bin_text(r)),
            _ => T::Leaf(name(r)),
        };
    }
    let n = match r.below(10) {
        0 => 0,
        1..=3 => 1,
        4..=7 => 2 + r.usize(3),
        _ => 5 + r.usize(8),
    };
    let tname = if r.chance(1, 2) { Some(tuple_name(r)) } else { None };
    let labelled = r.below(3); // 0: none, 1: some, 2: all
    T::Tup(
        tname,
        (0..n)
            .map(|_| {
                let l = if labelled == 2 || (labelled == 1 && r.chance(1, 2)) { Some(name(r)) } else { None };
                (l, gen_value(r, depth - 1))
            })
            .collect(),
    )
}

fn term_of(t: &Term) -> Option<T> {
    match t {
        Term::String(quiver_compiler::ast::StringStyle::Single, segs, _) => match segs.as_slice() {
            [] => Some(T::Str(String::new())),
            [quiver_compiler::ast::StrSegment::Text(bytes)] => String::from_utf8(bytes.clone()).ok().map(T::Str),
            _ => None,
        },
        Term::Literal(Literal::Integer(v)) => Some(T::Int(v.to_string())),
        Term::Literal(Literal::Binary(bytes)) => Some(T::Bin(bytes.iter().map(|b| format!("{b:02x}")).collect())),
        Term::Access(a) => match (&a.source, a.accessors.is_empty()) {
            (Some(AccessSource::Identifier(n)), true) => Some(T::Leaf(n.clone())),
            (Some(AccessSource::Identifier(n)), false) => Some(T::Acc(
                n.clone(),
                a.accessors
                    .iter()
                    .map(|p| match p {
                        quiver_compiler::ast::AccessPath::Field(f) => Ok(f.clone()),
                        quiver_compiler::ast::AccessPath::Index(i) => Err(i.to_string()),
                    })
                    .collect(),
            )),
            _ => None,
        },
        Term::Tuple(tu) => {
            let name = match &tu.name {
                TupleName::Anonymous => None,
                TupleName::Named(n) => Some(n.clone()),
                _ => return None,
            };
            let mut fs = vec![];
            for f in &tu.fields {
                let FieldValue::Chain(c) = &f.value else { return None };
                fs.push((f.name.clone(), chain_of(c)?));
            }
            Some(T::Tup(name, fs))
        }
        _ => None,
    }
}

fn chain_of(c: &quiver_compiler::ast::Chain) -> Option<T> {
    if c.match_pattern.is_some() || c.terms.is_empty() {
        return None;
    }
    if c.terms.len() == 1 {
        return term_of(&c.terms[0]);
    }
    Some(T::Chain(c.terms.iter().map(term_of).collect::<Option<Vec<_>>>()?))
}

/// the steps of the program, if it is one sequence of one-term chains of the fragment
pub fn of_ast(p: &Program) -> Option<Vec<T>> {
    let [Statement::Expression(seq)] = p.statements.as_slice() else { return None };
    let mut out = vec![];
    for chain in &seq.chains {
        out.push(chain_of(chain)?);
    }
    Some(out)
}

fn real_parse(src: &str) -> Result<Option<Vec<T>>, String> {
    match catch(|| parse(src)) {
        Ok(Ok(p)) => Ok(of_ast(&p)),
        Ok(Err(e)) => Err(format!("rejected: {e:?}").chars().take(200).collect()),
        Err(p) => Err(format!("panic: {p}")),
    }
}

fn prog_sx(ts: &[T]) -> String {
    format!("(p{})", ts.iter().map(|t| format!(" {}", t.sx())).collect::<String>())
}

fn prog_flat(ts: &[T]) -> String {
    ts.iter().map(|t| t.flat()).collect::<Vec<_>>().join(", ")
}

/// a step separator as `seq_sep` accepts it: a comma or a newline, surrounded by horizontal white
/// space / comments, followed by any white space, comments and further separators
fn step_sep(r: &mut Rng) -> String {
    match r.below(10) {
        0..=2 => ", ".into(),
        3 => ",".into(),
        4 | 5 => "\n".into(),
        6 => "\n\n  ".into(),
        7 => " , \n".into(),
        8 => " // c\n".into(),
        _ => " ,\r\n ,, // d\n\t".into(),
    }
}

fn prog_layout(ts: &[T], r: &mut Rng) -> String {
    let mut s = String::new();
    if r.chance(1, 4) {
        s.push_str(*r.pick(&[" ", "\n", "// head\n", "\n\n  "]));
    }
    for (i, t) in ts.iter().enumerate() {
        if i > 0 {
            s.push_str(&step_sep(r));
        }
        s.push_str(&t.layout(r));
    }
    if r.chance(1, 3) {
        s.push_str(*r.pick(&["\n", " ", ",", " // tail", "\n\n", " ,\n"]));
    }
    s
}

fn report(ev: &mut Ev, what: &str, ts: &[T], src: &str, request: &str, imp: &str, model: &str) {
    let cut = |s: &str| -> String {
        if s.chars().count() > 240 { format!("{}…", s.chars().take(240).collect::<String>()) } else { s.to_string() }
    };
    ev.violation(
        &format!("frag {what}"),
        &format!(
            "fragment program {}: {what} on {:?}: implementation `{}`, model ({}) `{}`",
            cut(&prog_flat(ts)), cut(src), cut(imp), cut(request), cut(model)
        ),
        json!({"kind": "frag", "broken": what, "program": prog_sx(ts), "source": src, "request": request, "impl": imp, "model": model}),
        true,
    );
}

pub fn part_frag(ev: &mut Ev, model: &mut Model, opts: &Opts) {
    let cases: u64 = if opts.tier == qverif::Tier::Quick { 3000 } else { 40000 };
    CHAINS.with(|c| c.set(!opts.has_flag("--frag-no-chains")));
    for i in 0..cases {
        let mut r = Rng::for_case(opts.seed ^ 0xf4a6, i);
        let steps = match r.below(6) {
            0..=2 => 1,
            3 | 4 => 2 + r.usize(3),
            _ => 4 + r.usize(12),
        };
        let ts: Vec<T> = (0..steps)
            .map(|_| {
                let depth = if steps > 3 { r.usize(3) } else { 1 + r.usize(4) };
                gen_value(&mut r, depth)
            })
            .collect();
        let want = format!("ok (pp {}) -", prog_sx(&ts));
        // 1. both parsers on a random layout
        let src = if i % 3 == 0 { prog_flat(&ts) } else { prog_layout(&ts, &mut r) };
        let req = format!("frag-parse {}", hx(&src));
        let m = model.ask(&req);
        match real_parse(&src) {
            Ok(Some(got)) if got == ts => {}
            other => report(ev, "parser differs from the expected program", &ts, &src, &req, &format!("{other:?}"), &want),
        }
        if m != want {
            report(ev, "parser model differs from the expected program", &ts, &src, &req, "-", &m);
        }
        // 2. both formatters (the AST of the flat text carries no trivia)
        let flat = prog_flat(&ts);
        let out = match catch(|| parse(&flat)) {
            Ok(Ok(p)) => catch(|| format_program(&p, &flat)).unwrap_or_else(|e| format!("panic: {e}")),
            other => format!("{other:?}"),
        };
        let req = format!("frag-fmt {}", prog_sx(&ts));
        let mo = model.ask(&req);
        let mo_text = mo.strip_prefix("s:").map(|h| String::from_utf8_lossy(&qverif::unhex(h)).to_string());
        if mo_text.as_deref() != Some(out.as_str()) {
            report(ev, "formatter differs from the model", &ts, &flat, &req, &out, mo_text.as_deref().unwrap_or(&mo));
        }
        // 3. the theorem's instance, at a random page width; the real parser reads the same layout
        let w = match r.below(4) {
            0 => r.usize(12),
            1 => 100,
            _ => r.usize(140),
        };
        let req = format!("frag-print {w} {}", prog_sx(&ts));
        let printed = model.ask(&req);
        if let Some(text) = printed.strip_prefix("s:").map(|h| String::from_utf8_lossy(&qverif::unhex(h)).to_string()) {
            let req2 = format!("frag-parse {}", hx(&text));
            let back = model.ask(&req2);
            if back != want {
                report(ev, "format_fixpoint_fragment fails at run time", &ts, &text, &req2, "-", &back);
            }
            match real_parse(&text) {
                Ok(Some(got)) if got == ts => {}
                other => report(ev, "parser differs on a printed layout", &ts, &text, &req2, &format!("{other:?}"), &want),
            }
            ev.case(&("frag", &text), text.contains('\n'));
        } else {
            report(ev, "frag-print answers no text", &ts, &flat, &req, "-", &printed);
        }
        ev.hit("frag_cases");
    }
}
