//! The C17 oracle evaluated directly on the implementation: for a parseable source, the formatter's
//! output parses, formatting it again is the identity, the program is the same after
//! `normalize_blocks(lift = true)`, and the comment sequence is preserved.
use quiver_compiler::ast::Program;
use quiver_compiler::simplify::{Options, normalize_blocks};
use quiver_compiler::{format_program, parse};
use qverif::catch;

/// `canonical` of format.rs' own tests: every no-op block stripped or lifted.
pub fn canonical(p: Program) -> Program {
    let mut p = normalize_blocks(p, &Options { keep: &|_| false, lift: true, group_consequences: false });
    // (visiting the strings also resets the delimiter style of string *patterns*, see astutil)
    super::astutil::strings_mut(&mut p, &mut |_, _| {});
    p
}

#[derive(Clone, Debug, PartialEq, Eq)]
pub enum Verdict {
    /// the source is not accepted by the parser: outside the property's quantifier
    NotParseable,
    Ok { formatted: String },
    Fail { kind: &'static str, detail: String, formatted: Option<String> },
}

impl Verdict {
    pub fn kind(&self) -> &'static str {
        match self {
            Verdict::NotParseable => "not-parseable",
            Verdict::Ok { .. } => "ok",
            Verdict::Fail { kind, .. } => kind,
        }
    }
}

/// Is the `//` at byte `p` of `src` the start of a comment token? Decided with the parser itself:
/// replacing the text after the `//` up to the end of the line by other text leaves the AST
/// unchanged exactly for comments (inside a string literal it changes the text or breaks the
/// literal). Deleting the comment instead would not do: `# //⏎{…}` and `#⏎{…}` parse differently.
fn is_comment_start(src: &str, p: usize, ast: &Program) -> bool {
    let end = src[p..].find(['\n', '\r']).map(|e| p + e).unwrap_or(src.len());
    let mut cand = String::with_capacity(src.len() + 1);
    cand.push_str(&src[..p + 2]);
    for _ in src[p + 2..end].chars() {
        cand.push('q');
    }
    cand.push('q');
    cand.push_str(&src[end..]);
    match catch(|| parse(&cand)) {
        Ok(Ok(a)) => a == *ast,
        _ => false,
    }
}

/// The comment tokens of `src` in order (text from `//` to the end of the line, right-trimmed).
pub fn comments(src: &str, ast: &Program) -> Vec<String> {
    let mut out = vec![];
    let bytes = src.as_bytes();
    let mut i = 0;
    while i + 1 < bytes.len() {
        if bytes[i] == b'/' && bytes[i + 1] == b'/' && is_comment_start(src, i, ast) {
            let end = src[i..].find(['\n', '\r']).map(|e| i + e).unwrap_or(src.len());
            out.push(src[i..end].trim_end().to_string());
            i = end;
        } else {
            i += 1;
        }
    }
    out
}

/// Evaluate the four statements of C17 on `src`.
pub fn check_source(src: &str) -> Verdict {
    let ast = match catch(|| parse(src)) {
        Ok(Ok(a)) => a,
        Ok(Err(_)) => return Verdict::NotParseable,
        // a parser panic is C18's business; here the source is simply not "accepted"
        Err(_) => return Verdict::NotParseable,
    };
    let out1 = match catch(|| format_program(&ast, src)) {
        Ok(s) => s,
        Err(p) => {
            return Verdict::Fail { kind: "format-panics", detail: p.lines().next().unwrap_or("").to_string(), formatted: None };
        }
    };
    let ast2 = match catch(|| parse(&out1)) {
        Ok(Ok(a)) => a,
        Ok(Err(e)) => {
            return Verdict::Fail { kind: "output-unparseable", detail: format!("{e}"), formatted: Some(out1) };
        }
        Err(p) => {
            return Verdict::Fail { kind: "output-unparseable", detail: format!("parser panic: {p}"), formatted: Some(out1) };
        }
    };
    let out2 = match catch(|| format_program(&ast2, &out1)) {
        Ok(s) => s,
        Err(p) => {
            return Verdict::Fail { kind: "format-panics", detail: format!("second format: {p}"), formatted: Some(out1) };
        }
    };
    if canonical(ast.clone()) != canonical(ast2.clone()) {
        return Verdict::Fail { kind: "program-changed", detail: String::new(), formatted: Some(out1) };
    }
    if out2 != out1 {
        let d = first_diff(&out1, &out2);
        return Verdict::Fail { kind: "not-idempotent", detail: d, formatted: Some(out1) };
    }
    let c1 = comments(src, &ast);
    let c2 = comments(&out1, &ast2);
    if c1 != c2 {
        return Verdict::Fail {
            kind: "comments-changed",
            detail: format!("input comments {:?} output comments {:?}", c1, c2),
            formatted: Some(out1),
        };
    }
    Verdict::Ok { formatted: out1 }
}

fn first_diff(a: &str, b: &str) -> String {
    let la: Vec<&str> = a.lines().collect();
    let lb: Vec<&str> = b.lines().collect();
    for i in 0..la.len().max(lb.len()) {
        let x = la.get(i).copied().unwrap_or("<eof>");
        let y = lb.get(i).copied().unwrap_or("<eof>");
        if x != y {
            return format!("line {}: first `{}` second `{}`", i + 1, x, y);
        }
    }
    "differ in final newline".into()
}

/// Greedy delta-debugging over lines, then over character chunks, keeping `pred` true.
pub fn shrink_source(src: &str, pred: &dyn Fn(&str) -> bool, mut budget: usize) -> String {
    let mut cur = src.to_string();
    // lines
    loop {
        let lines: Vec<&str> = cur.split_inclusive('\n').collect();
        let mut improved = false;
        let mut chunk = (lines.len() / 2).max(1);
        'outer: while chunk >= 1 {
            let mut i = 0;
            while i < lines.len() {
                if budget == 0 {
                    break 'outer;
                }
                let cand: String = lines.iter().enumerate().filter(|(k, _)| *k < i || *k >= i + chunk).map(|(_, l)| *l).collect();
                if cand.len() < cur.len() {
                    budget -= 1;
                    if pred(&cand) {
                        cur = cand;
                        improved = true;
                        break 'outer;
                    }
                }
                i += chunk;
            }
            if chunk == 1 {
                break;
            }
            chunk /= 2;
        }
        if !improved || budget == 0 {
            break;
        }
    }
    // characters
    loop {
        let cs: Vec<char> = cur.chars().collect();
        let mut improved = false;
        let mut chunk = (cs.len() / 2).max(1);
        'outer2: while chunk >= 1 {
            let mut i = 0;
            while i < cs.len() {
                if budget == 0 {
                    break 'outer2;
                }
                let cand: String = cs.iter().enumerate().filter(|(k, _)| *k < i || *k >= i + chunk).map(|(_, c)| *c).collect();
                if cand.len() < cur.len() {
                    budget -= 1;
                    if pred(&cand) {
                        cur = cand;
                        improved = true;
                        break 'outer2;
                    }
                }
                i += chunk;
            }
            if chunk == 1 {
                break;
            }
            chunk /= 2;
        }
        if !improved || budget == 0 {
            break;
        }
    }
    cur
}

// ---------------------------------------------------------------------------------------------
// Classification of a failure: *what about the source* makes the oracle fail. A cause is accepted
// only when it explains the failure (removing the suspected trigger makes this failure disappear,
// or the two programs become equal once the suspected construct is abstracted away).
// ---------------------------------------------------------------------------------------------

/// Per byte offset: is the naive quote-toggling scanner (the one `format.rs::scan_trivia` uses)
/// inside a string literal there?
fn in_string_map(src: &str) -> Vec<bool> {
    let mut v = vec![false; src.len() + 1];
    let mut in_string = false;
    let mut escaped = false;
    let mut in_comment = false;
    let mut prev_slash = false;
    for (i, c) in src.char_indices() {
        v[i] = in_string;
        if in_comment {
            if c == '\n' {
                in_comment = false;
            }
            continue;
        }
        if in_string {
            if escaped {
                escaped = false;
            } else if c == '\\' {
                escaped = true;
            } else if c == '"' {
                in_string = false;
            }
            prev_slash = false;
        } else if c == '"' {
            in_string = true;
            prev_slash = false;
        } else if c == '/' {
            if prev_slash {
                // `//` outside a string: the scanner skips to the end of the line
                in_comment = true;
                prev_slash = false;
            } else {
                prev_slash = true;
            }
        } else {
            prev_slash = false;
        }
    }
    v[src.len()] = in_string;
    v
}

/// Per byte offset: is this position code *inside an interpolation hole* of a string literal?
/// Delimiter- and hole-aware (unlike the formatter's scanner): `"`/`"""` literals with backslash
/// escapes, `{`…`}` holes with brace depth, nested literals inside holes, `//` comments in code.
/// `None` when the text does not scan to a clean end (e.g. a `{` inside a *pattern* string, where it
/// is literal) — then nothing is claimed about holes.
fn in_hole_map(src: &str) -> Option<Vec<bool>> {
    #[derive(Clone, Copy, PartialEq)]
    enum F {
        Single,
        Multi,
        Hole(usize),
    }
    let cs: Vec<(usize, char)> = src.char_indices().collect();
    let mut v = vec![false; src.len() + 1];
    let mut stack: Vec<F> = vec![];
    let mut k = 0;
    let at = |k: usize, s: &str| -> bool { src[cs[k].0..].starts_with(s) };
    while k < cs.len() {
        let (i, c) = cs[k];
        let in_code = !matches!(stack.last(), Some(F::Single) | Some(F::Multi));
        v[i] = in_code && !stack.is_empty();
        match stack.last().copied() {
            Some(F::Single) | Some(F::Multi) => {
                let multi = stack.last() == Some(&F::Multi);
                if c == '\\' {
                    k += 2;
                    continue;
                } else if c == '{' {
                    stack.push(F::Hole(1));
                } else if c == '"' {
                    if !multi {
                        stack.pop();
                    } else if at(k, "\"\"\"") {
                        stack.pop();
                        k += 3;
                        continue;
                    }
                }
            }
            _ => {
                // code (top level or inside a hole)
                if c == '/' && at(k, "//") {
                    while k < cs.len() && cs[k].1 != '\n' {
                        v[cs[k].0] = !stack.is_empty();
                        k += 1;
                    }
                    continue;
                } else if c == '"' {
                    if at(k, "\"\"\"") {
                        stack.push(F::Multi);
                        k += 3;
                        continue;
                    }
                    stack.push(F::Single);
                } else if let Some(F::Hole(d)) = stack.last().copied() {
                    if c == '{' {
                        *stack.last_mut().unwrap() = F::Hole(d + 1);
                    } else if c == '}' {
                        if d == 1 {
                            stack.pop();
                        } else {
                            *stack.last_mut().unwrap() = F::Hole(d - 1);
                        }
                    }
                }
            }
        }
        k += 1;
    }
    if stack.is_empty() { Some(v) } else { None }
}

pub struct CommentTok {
    pub pos: usize,
    pub end: usize,
    pub text: String,
    /// inside a string literal in the eyes of the formatter's quote-toggling scanner
    pub in_string: bool,
    /// really inside an interpolation hole
    pub in_hole: bool,
}

pub fn comment_tokens(src: &str, ast: &Program) -> Vec<CommentTok> {
    let ism = in_string_map(src);
    let ihm = in_hole_map(src);
    let mut out = vec![];
    let bytes = src.as_bytes();
    let mut i = 0;
    while i + 1 < bytes.len() {
        if bytes[i] == b'/' && bytes[i + 1] == b'/' && is_comment_start(src, i, ast) {
            let end = src[i..].find(['\n', '\r']).map(|e| i + e).unwrap_or(src.len());
            out.push(CommentTok {
                pos: i,
                end,
                text: src[i..end].trim_end().to_string(),
                in_string: ism[i],
                in_hole: ihm.as_ref().is_some_and(|m| m[i]),
            });
            i = end;
        } else {
            i += 1;
        }
    }
    out
}

/// Drop whitespace-only lines that are not inside a string literal.
pub fn remove_blank_lines(src: &str) -> String {
    let ism = in_string_map(src);
    let mut out = String::new();
    let mut off = 0;
    for line in src.split_inclusive('\n') {
        let blank = line.chars().all(|c| c.is_whitespace());
        if !(blank && !ism[off]) {
            out.push_str(line);
        }
        off += line.len();
    }
    out
}

/// Delete every comment; a line that held only a comment disappears with it.
pub fn remove_comments(src: &str, ast: &Program) -> String {
    remove_comments_where(src, ast, &|_, _| true)
}

/// The comments that stand directly before a closing bracket (only white space and other comments
/// in between): the last thing inside their container.
fn before_closing_bracket(src: &str, toks: &[CommentTok], t: &CommentTok) -> bool {
    let mut i = t.end;
    let b = src.as_bytes();
    loop {
        while i < b.len() && (b[i] as char).is_ascii_whitespace() {
            i += 1;
        }
        match toks.iter().find(|u| u.pos == i) {
            Some(u) => i = u.end,
            None => break,
        }
    }
    i < b.len() && matches!(b[i], b'}' | b']' | b')')
}

pub fn remove_comments_where(src: &str, ast: &Program, keep_out: &dyn Fn(&[CommentTok], &CommentTok) -> bool) -> String {
    let all = comment_tokens(src, ast);
    let toks: Vec<&CommentTok> = all.iter().filter(|t| keep_out(&all, t)).collect();
    let mut out = String::new();
    let mut last = 0;
    for t in toks {
        let before = src[last..t.pos].trim_end_matches([' ', '\t']);
        out.push_str(before);
        last = t.end;
        // own-line comment: also swallow its line break
        let line_start_is_blank = out.is_empty() || out.ends_with('\n');
        if line_start_is_blank {
            if src[last..].starts_with("\r\n") {
                last += 2;
            } else if src[last..].starts_with('\n') {
                last += 1;
            }
        }
    }
    out.push_str(&src[last..]);
    out
}

pub fn normalize_cr(src: &str) -> String {
    src.replace("\r\n", "\n").replace('\r', "\n")
}

fn comment_cause(src: &str, ast: &Program, out1: &str, ast2: &Program) -> String {
    let toks = comment_tokens(src, ast);
    let c2: Vec<String> = comments(out1, ast2);
    let mut pool: Vec<String> = toks.iter().map(|t| t.text.clone()).collect();
    let mut merged = false;
    let mut altered = false;
    // every output comment must be an input comment, or several input comments joined by spaces
    fn take(pool: &mut Vec<String>, s: &str) -> bool {
        if let Some(i) = pool.iter().position(|x| x == s) {
            pool.remove(i);
            true
        } else {
            false
        }
    }
    fn split_take(pool: &mut Vec<String>, s: &str) -> bool {
        if s.is_empty() {
            return true;
        }
        // try every pool element that is a prefix of s followed by a space or the end
        let cands: Vec<String> = pool.iter().filter(|x| s == x.as_str() || s.starts_with(&format!("{} ", x))).cloned().collect();
        for c in cands {
            let mut p2 = pool.clone();
            take(&mut p2, &c);
            let rest = if s.len() == c.len() { "" } else { &s[c.len() + 1..] };
            if split_take(&mut p2, rest) {
                *pool = p2;
                return true;
            }
        }
        false
    }
    for e in &c2 {
        if take(&mut pool, e) {
            continue;
        }
        if split_take(&mut pool, e) {
            merged = true;
        } else {
            altered = true;
        }
    }
    if altered {
        return "altered".into();
    }
    if !pool.is_empty() {
        // lost comments: known only when every occurrence of each lost text sits inside a string hole
        // (as many in-string occurrences of the text as copies of it were lost)
        let all_in_holes = pool.iter().all(|lost| {
            let copies = pool.iter().filter(|x| *x == lost).count();
            toks.iter().filter(|t| &t.text == lost && t.in_hole).count() >= copies
        });
        if all_in_holes {
            return "lost-in-string-hole".into();
        }
        // not in a hole, but the formatter's scanner believes it is inside a string: its state is out
        // of step with the real literal structure
        let scanner_confused = pool.iter().all(|lost| toks.iter().any(|t| &t.text == lost && t.in_string && !t.in_hole));
        return if scanner_confused { "lost-scanner-out-of-step".into() } else { "lost".into() };
    }
    if merged { "merged".into() } else { "reordered".into() }
}

fn blank_multi_strings(mut p: Program) -> Program {
    super::astutil::strings_mut(&mut p, &mut |style, segs| {
        if style == quiver_compiler::ast::StringStyle::Multi {
            for s in segs.iter_mut() {
                if let quiver_compiler::ast::StrSegment::Text(b) = s {
                    b.clear();
                }
            }
            // adjacent/empty text segments may be split differently
            segs.retain(|s| !matches!(s, quiver_compiler::ast::StrSegment::Text(b) if b.is_empty()));
        }
    });
    p
}

/// The cause part of a failure's signature.
pub fn classify(src: &str, v: &Verdict) -> String {
    let Verdict::Fail { kind, formatted, .. } = v else { return "none".into() };
    let kind: &'static str = kind;
    let Ok(Ok(ast)) = catch(|| parse(src)) else { return "unexplained".into() };
    let ast2 = formatted.as_ref().and_then(|o| catch(|| parse(o)).ok().and_then(|r| r.ok()));
    if kind == "format-panics" {
        if let Verdict::Fail { detail, .. } = v {
            if detail.contains("container terms are rendered by term_doc") {
                return "spawn-of-container".into();
            }
        }
    }
    if kind == "comments-changed" {
        if let (Some(o), Some(a2)) = (formatted, &ast2) {
            return comment_cause(src, &ast, o, a2);
        }
        return "unexplained".into();
    }
    if kind == "program-changed" {
        if let Some(a2) = &ast2 {
            let (c1, c2) = (canonical(ast.clone()), canonical(a2.clone()));
            if blank_multi_strings(c1.clone()) == blank_multi_strings(c2.clone()) {
                return "multiline-string-value".into();
            }
            if super::astutil::strip_all_blocks(c1.clone()) == super::astutil::strip_all_blocks(c2.clone()) {
                return "braces-around-binding-or-match".into();
            }
            // both at once (a binding whose value is a multi-line string breaks, so it gets braces)
            if super::astutil::strip_all_blocks(blank_multi_strings(c1.clone()))
                == super::astutil::strip_all_blocks(blank_multi_strings(c2.clone()))
            {
                return "braces-around-binding-or-match+multiline-string-value".into();
            }
        }
    }
    if kind == "output-unparseable" {
        let dbg = format!("{ast:?}");
        let pat = "TupleType { name: Some(\"";
        let mut i = 0;
        while let Some(p) = dbg[i..].find(pat) {
            let q = i + p + pat.len();
            if dbg[q..].chars().next().is_some_and(|c| c.is_ascii_lowercase()) {
                return "alias-named-tuple-type".into();
            }
            i = q;
        }
    }
    if kind == "program-changed" || kind == "output-unparseable" {
        let (mut bodiless_spawn, mut partial_type_match) = (false, false);
        super::astutil::visit(
            &ast,
            &mut |t| {
                if let quiver_compiler::ast::Term::Spawn(inner, _) = t {
                    if matches!(inner.as_ref(), quiver_compiler::ast::Term::Function(f) if f.body.is_none()) {
                        bodiless_spawn = true;
                    }
                }
            },
            &mut |m| {
                if let quiver_compiler::ast::Match::Type(quiver_compiler::ast::Type::Tuple(tt)) = m {
                    if tt.is_partial {
                        partial_type_match = true;
                    }
                }
            },
        );
        // accepted as the cause only when the output shows the symptom
        if bodiless_spawn && formatted.as_ref().is_some_and(|o| o.contains('@')) {
            return "spawn-of-bodiless-function".into();
        }
        if partial_type_match && kind == "program-changed" {
            return "partial-type-match-printed-as-pattern".into();
        }
    }
    let still = |s: &str| check_source(s).kind() == kind;
    // `//` that the formatter's quote-toggling scanner takes for a comment although it is string
    // content (a string literal inside an interpolation hole flips the scanner's state). Repair:
    // blot out the slashes of every such phantom comment — repeatedly, since removing one changes
    // the scanner's state for the rest of the text.
    {
        let mut cur = src.to_string();
        let mut changed = false;
        for _ in 0..8 {
            let Ok(Ok(a)) = catch(|| parse(&cur)) else { break };
            let ism = in_string_map(&cur);
            let truth: Vec<(usize, usize)> = comment_tokens(&cur, &a).iter().map(|t| (t.pos, t.end)).collect();
            let b = cur.as_bytes();
            let mut i = 0;
            let mut phantom = vec![];
            while i + 1 < b.len() {
                if let Some(&(_, e)) = truth.iter().find(|(p, _)| *p == i) {
                    i = e;
                    continue;
                }
                if b[i] == b'/' && b[i + 1] == b'/' && !ism[i] {
                    phantom.push(i);
                    i = cur[i..].find('\n').map(|e| i + e).unwrap_or(cur.len());
                    continue;
                }
                i += 1;
            }
            if phantom.is_empty() {
                break;
            }
            let mut rep = cur.as_bytes().to_vec();
            // only the first one: the others may stop being phantoms once it is gone
            let p = phantom[0];
            let e = cur[p..].find('\n').map(|e| p + e).unwrap_or(cur.len());
            for k in p..e {
                if rep[k] == b'/' {
                    rep[k] = b'_';
                }
            }
            let Ok(rep) = String::from_utf8(rep) else { break };
            cur = rep;
            changed = true;
        }
        if changed && !still(&cur) {
            return "string-content-taken-for-comment".into();
        }
    }
    if kind == "output-unparseable" {
        let dbg = format!("{ast:?}");
        if dbg.contains("Hole(") && dbg.contains("Resource(") {
            return "resource-type-in-string-hole".into();
        }
    }
    // a comment that is the last thing inside its brackets, while the enclosing step goes on after
    // them (`{ e⏎//c⏎} R[2]`): the formatter hands it to the next node *outside* the brackets
    if kind == "not-idempotent" {
        let nl = remove_comments_where(src, &ast, &|all, t| before_closing_bracket(src, all, t));
        if nl != src && !still(&nl) {
            return "comment-before-closing-bracket".into();
        }
    }
    // trivia: which of {blank lines, comments} must go for this failure to disappear
    let nb = remove_blank_lines(src);
    let nc = remove_comments(src, &ast);
    let e_b = nb != src && !still(&nb);
    let e_c = nc != src && !still(&nc);
    // a redundant block inside a hole of a `"""` string: its chain's span is relative to the string,
    // so whether it is kept depends on the trivia of whatever file node sits at that offset (F23)
    let ml_hole_block = kind == "not-idempotent" && {
        let dbg = format!("{ast:?}");
        dbg.contains("String(Multi") && dbg.contains("Hole(") && dbg.contains("Block(")
    };
    let tag = |c: &str| if ml_hole_block { format!("{c}+block-in-multiline-hole") } else { c.to_string() };
    match (e_b, e_c) {
        // either removal alone cures it: the failure needs a blank line *and* a comment
        (true, true) => return tag("blank-line+comment"),
        (true, false) => return tag("blank-line"),
        (false, true) => return tag("comment"),
        (false, false) => {
            let nbc = remove_blank_lines(&nc);
            if nbc != src && !still(&nbc) {
                return "blank-line+comment".into();
            }
        }
    }
    let cr = normalize_cr(src);
    if cr != src && !still(&cr) {
        return "carriage-return".into();
    }
    // Shape-based causes, only when nothing above explains the failure (they name a construct
    // that is present, not a repair that was tried, so they come last and never hide a cause that
    // a repair confirms).
    if kind == "program-changed" || kind == "output-unparseable" {
        let dbg = format!("{ast:?}");
        if ["int", "bin", "ref"].iter().any(|n| dbg.contains(&format!("Identifier {{ name: \"{n}\", arguments: [] }}"))) {
            return "type-parameter-named-like-primitive".into();
        }
    }
    if kind == "program-changed" || kind == "output-unparseable" {
        // a binding whose pattern is a bare type reference, and an output line that starts like an alias
        let dbg = format!("{ast:?}");
        if dbg.contains("match_pattern: Some(Type(") && formatted.as_ref().is_some_and(|o| o.lines().any(|l| l.starts_with('\'')))
        {
            return "type-pattern-binding-reads-as-alias".into();
        }
    }
    if kind != "comments-changed" && kind != "format-panics" {
        let (several, multi) = super::astutil::hole_shapes(&ast);
        if multi {
            return "multiline-literal-inside-hole".into();
        }
        if several {
            return "hole-with-several-steps".into();
        }
    }
    "unexplained".into()
}
