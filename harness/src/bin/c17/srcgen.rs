//! Source texts for the pipeline oracle (C17) and the robustness search (C18): the corpora of the
//! repository, and sources derived from them (trivia inserted at token boundaries, nesting that
//! crosses the formatter's 40/50/100 column thresholds, CRLF line ends).
use qverif::Rng;

/// (label, source) of every corpus text: test-suite sources, std modules, examples, spec blocks.
pub fn corpus_all() -> Vec<(String, String)> {
    let mut out = vec![];
    for (i, (f, s)) in qverif::corpus::test_sources().into_iter().enumerate() {
        out.push((format!("test:{f}#{i}"), s));
    }
    for (n, s) in qverif::corpus::std_modules() {
        out.push((format!("std:{n}"), s));
    }
    for (n, s) in qverif::corpus::examples() {
        out.push((format!("example:{n}"), s));
    }
    for (i, s) in qverif::corpus::spec_blocks().into_iter().enumerate() {
        out.push((format!("spec#{i}"), s));
    }
    out
}

/// Byte positions of `src` that look like token boundaries (next to whitespace or punctuation).
pub fn boundaries(src: &str) -> Vec<usize> {
    let mut v = vec![0];
    let is_b = |c: char| c.is_whitespace() || ",[]{}()|=>~#@!&:.".contains(c);
    let mut prev: Option<char> = None;
    for (i, c) in src.char_indices() {
        if let Some(p) = prev {
            if is_b(p) || is_b(c) {
                v.push(i);
            }
        }
        prev = Some(c);
    }
    v.push(src.len());
    v.dedup();
    v
}

const COMMENT_BODIES: &[&str] = &[
    "c", " note", " a // b", "", " \"quoted\"", " { brace", " é日本", "// doc", " trailing space  ", " => | ,", " ~> x",
];

fn trivia(r: &mut Rng, n: &mut u32) -> String {
    *n += 1;
    let body = format!("//{}{}", r.pick(COMMENT_BODIES), n);
    match r.below(9) {
        0 => format!(" {body}\n"),
        1 => format!("{body}\n"),
        2 => format!("\n{body}\n"),
        3 => "\n\n".to_string(),
        4 => "\n\n\n".to_string(),
        5 => format!("\n\n{body}\n\n"),
        6 => format!(" {body}\n{body}x\n"),
        7 => format!("\n  \t\n{body}\n"),
        _ => "\n".to_string(),
    }
}

/// Insert `k` pieces of trivia (comments, blank lines) at token-boundary positions of `src`.
pub fn insert_trivia(r: &mut Rng, src: &str, k: usize) -> String {
    let bs = boundaries(src);
    let mut picks: Vec<usize> = (0..k).map(|_| bs[r.usize(bs.len())]).collect();
    picks.sort();
    picks.dedup();
    let mut out = String::new();
    let mut last = 0;
    let mut n = 0u32;
    for p in picks {
        out.push_str(&src[last..p]);
        out.push_str(&trivia(r, &mut n));
        last = p;
    }
    out.push_str(&src[last..]);
    out
}

/// Trivia at *every* boundary in a window of the source (dense).
pub fn insert_trivia_dense(r: &mut Rng, src: &str) -> String {
    let bs = boundaries(src);
    let start = r.usize(bs.len());
    let len = 2 + r.usize(10);
    let mut out = String::new();
    let mut last = 0;
    let mut n = 0u32;
    for &p in bs.iter().skip(start).take(len) {
        out.push_str(&src[last..p]);
        out.push_str(&trivia(r, &mut n));
        last = p;
    }
    out.push_str(&src[last..]);
    out
}

fn indent(src: &str, by: usize) -> String {
    let pad = " ".repeat(by);
    src.lines().map(|l| if l.trim().is_empty() { String::new() } else { format!("{pad}{l}") }).collect::<Vec<_>>().join("\n")
}

/// Wrap `src` so that its constructs sit at a deeper column / inside other constructs.
pub fn wrap(r: &mut Rng, src: &str, other: &str) -> String {
    let s = src.trim_end();
    let o = other.trim_end();
    match r.below(12) {
        0 => format!("f = #{{\n{}\n}}", indent(s, 2)),
        1 => {
            let k = 1 + r.usize(24);
            let mut t = s.to_string();
            for _ in 0..k {
                t = format!("#{{\n{}\n}}", indent(&t, 2));
            }
            t
        }
        2 => {
            let k = 1 + r.usize(24);
            let mut t = s.to_string();
            for _ in 0..k {
                t = format!("[\n{}\n]", indent(&t, 2));
            }
            format!("x = {t}")
        }
        3 => format!("x = [{s}, {o}, {s}]"),
        4 => format!("{{ | a => {s} | b => {o} }}"),
        5 => format!("x {{\n  | =1 => {s}\n  | =2 => {{ {o} }}\n  | {s}\n}}"),
        6 => format!("{s} ~> f ~> g ~> hhhhhhhhhhhhhhhh ~> iiiiiiiiiiiiiiiiiiiii ~> {o}"),
        7 => format!("a_rather_long_binding_name_to_cross_the_soft_width = {s}"),
        8 => format!("r = Name[first_field: {s}, second_field: {o}, third: [{s}]]"),
        9 => format!("{s}\n\n{o}"),
        10 => format!("#'int {{ | {s} => {o} | {o} => {{ {s}, {o} }} }}"),
        _ => format!("p = @{{ {s} }}, q = ! [{o}, p], \"text {{ {s} }} more {{ x }}\""),
    }
}

pub fn to_crlf(src: &str) -> String {
    src.replace("\r\n", "\n").replace('\n', "\r\n")
}
