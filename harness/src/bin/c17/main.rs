//! C17 — formatting is a fixpoint and preserves the program and its comments.
//!
//! (a) layout engine: random `pretty::Doc` trees through the real `print`/`flatten`/`flat_width`/
//!     `forces_break` and through the Lean model `qm_c17`, compared character for character; on
//!     "separable" docs the statements of the theorems are also evaluated on the real output.
//! (b) string literals: parse ∘ format on generated literals against the model's decode/escape.
//! (c) pipeline oracle on the implementation for corpus and generated sources.
mod astutil;
mod docgen;
mod frag;
#[path = "../c18/inputs.rs"]
#[allow(dead_code)]
mod inputs;
mod pipeline;
mod srcgen;
mod strings;

use docgen::D;
use pipeline::Verdict;
use quiver_compiler::pretty;
use qverif::{Ev, Model, Opts, Rng, catch, hex};
use serde_json::json;
use std::collections::HashSet;

fn impl_print(d: &D, w: usize) -> String {
    match catch(|| pretty::print(&d.to_doc(), w)) {
        Ok(s) => format!("s:{}", hex(s.as_bytes())),
        Err(p) => format!("panic:{}", p.lines().next().unwrap_or("")),
    }
}
fn impl_flatten(d: &D) -> String {
    match catch(|| pretty::flatten(&d.to_doc())) {
        Ok(s) => format!("s:{}", hex(s.as_bytes())),
        Err(p) => format!("panic:{}", p.lines().next().unwrap_or("")),
    }
}
fn impl_flat_width(d: &D, max: usize) -> String {
    match catch(|| pretty::flat_width(&d.to_doc(), max)) {
        Ok(Some(n)) => format!("some {n}"),
        Ok(None) => "none".into(),
        Err(p) => format!("panic:{}", p.lines().next().unwrap_or("")),
    }
}
fn impl_forces_break(d: &D) -> String {
    match catch(|| pretty::forces_break(&d.to_doc())) {
        Ok(b) => format!("{b}"),
        Err(p) => format!("panic:{}", p.lines().next().unwrap_or("")),
    }
}

#[derive(Clone, Debug)]
enum Op {
    Print(usize),
    Flatten,
    FlatWidth(usize),
    ForcesBreak,
}

impl Op {
    fn name(&self) -> &'static str {
        match self {
            Op::Print(_) => "print",
            Op::Flatten => "flatten",
            Op::FlatWidth(_) => "flat_width",
            Op::ForcesBreak => "forces_break",
        }
    }
    fn request(&self, d: &D) -> String {
        match self {
            Op::Print(w) => format!("print {w} {}", d.sx()),
            Op::Flatten => format!("flatten {}", d.sx()),
            Op::FlatWidth(m) => format!("flatwidth {m} {}", d.sx()),
            Op::ForcesBreak => format!("forcesbreak {}", d.sx()),
        }
    }
    fn run(&self, d: &D) -> String {
        match self {
            Op::Print(w) => impl_print(d, *w),
            Op::Flatten => impl_flatten(d),
            Op::FlatWidth(m) => impl_flat_width(d, *m),
            Op::ForcesBreak => impl_forces_break(d),
        }
    }
}

fn unhex_str(s: &str) -> String {
    match s.strip_prefix("s:") {
        Some(h) => String::from_utf8_lossy(&qverif::unhex(h)).to_string(),
        None => s.to_string(),
    }
}

/// Shrink a doc on which model and implementation disagree for `op`.
fn shrink_doc(model: &mut Model, d: &D, op: &Op) -> D {
    let mut cur = d.clone();
    let mut budget = 600;
    'again: loop {
        for cand in cur.shrinks() {
            if budget == 0 {
                break 'again;
            }
            budget -= 1;
            if op.run(&cand) != model.ask(&op.request(&cand)) {
                cur = cand;
                continue 'again;
            }
        }
        break;
    }
    cur
}

/// The statements of `C17.print_main_atoms` / `C17.lineSuffix_*` evaluated on the real output of a
/// separable doc: lowercase letters = main stream in document order, digits = suffix stream.
fn engine_oracle(d: &D, w: usize, nested_suffix: bool) -> Result<(), String> {
    let out = match catch(|| pretty::print(&d.to_doc(), w)) {
        Ok(s) => s,
        Err(p) => return Err(format!("print panics: {p}")),
    };
    let (mut main, mut suf) = (String::new(), String::new());
    docgen::sep_streams(d, false, &mut main, &mut suf);
    let got_main: String = out.chars().filter(|c| c.is_ascii_lowercase()).collect();
    let got_suf: String = out.chars().filter(|c| c.is_ascii_digit()).collect();
    if got_main != main {
        return Err(format!("main-stream atoms changed: expected `{main}` got `{got_main}`"));
    }
    if nested_suffix {
        let mut a: Vec<char> = got_suf.chars().collect();
        let mut b: Vec<char> = suf.chars().collect();
        a.sort();
        b.sort();
        if a != b {
            return Err(format!("line-suffix atoms lost or duplicated: expected (any order) `{suf}` got `{got_suf}`"));
        }
    } else if got_suf != suf {
        return Err(format!("line-suffix atoms lost or reordered: expected `{suf}` got `{got_suf}`"));
    }
    Ok(())
}

fn part_layout(ev: &mut Ev, model: &mut Model, opts: &Opts) {
    let n = opts.tier.pick(12_000u64, 150_000u64);
    for i in 0..n {
        let mut r = Rng::for_case(opts.seed ^ 0xA17, i);
        let style = i % 4;
        let mut nested_suffix = false;
        let d = match style {
            0 | 1 => {
                let mut budget = 10 + r.usize(70);
                let depth = 2 + r.usize(6);
                let k = 1 + r.usize(3);
                D::Concat((0..k).map(|_| docgen::gen_doc(&mut r, depth, &mut budget)).collect())
            }
            2 => {
                let depth = 1 + r.usize(3);
                docgen::gen_fmt_doc(&mut r, depth)
            }
            _ => {
                nested_suffix = r.chance(1, 4);
                let mut budget = 10 + r.usize(60);
                let depth = 2 + r.usize(5);
                let k = 1 + r.usize(3);
                D::Concat((0..k).map(|_| docgen::gen_sep_doc(&mut r, depth, false, false, nested_suffix, &mut budget)).collect())
            }
        };
        ev.hit(match style {
            0 | 1 => "layout:doc-style:uniform",
            2 => "layout:doc-style:formatter-shaped",
            _ => "layout:doc-style:separable",
        });
        let real = d.to_doc();
        let fw = pretty::flat_width(&real, usize::MAX);
        let mut ops = vec![];
        ops.push(Op::Print(r.usize(141)));
        if let Some(fw) = fw {
            ops.push(Op::Print((fw as i64 + r.range(-3, 3)).max(0) as usize));
        } else {
            ops.push(Op::Print(r.usize(60)));
        }
        ops.push(Op::Print(match r.below(12) {
            0 => usize::MAX,
            1 => (1usize << 63) - 1,
            2 => 1usize << 63,
            3 => 0,
            4 => 100,
            5 => 40,
            6 => 50,
            _ => r.usize(30),
        }));
        ops.push(Op::Flatten);
        ops.push(Op::FlatWidth(match (fw, r.below(4)) {
            (Some(fw), 0) => fw,
            (Some(fw), 1) => fw.saturating_sub(1),
            (_, 2) => usize::MAX,
            _ => r.usize(80),
        }));
        ops.push(Op::ForcesBreak);
        let reqs: Vec<String> = ops.iter().map(|o| o.request(&d)).collect();
        let answers = model.ask_all(&reqs);
        let nodes = d.nodes();
        ev.hit(&format!("layout:nodes:{}", match nodes { 0..=5 => "1-5", 6..=20 => "6-20", 21..=60 => "21-60", _ => ">60" }));
        d.count_kinds(&mut |k| ev.hit(&format!("layout:node:{k}")));
        for (op, ans) in ops.iter().zip(answers.iter()) {
            let got = op.run(&d);
            let nontrivial = nodes > 3;
            ev.case(&(op.name(), &reqs[0], format!("{op:?}")), nontrivial);
            ev.hit(&format!("layout:op:{}", op.name()));
            if let Op::Print(w) = op {
                ev.hit(&format!("layout:width:{}", match *w { 0..=20 => "0-20", 21..=60 => "21-60", 61..=140 => "61-140", _ => "huge" }));
                if got.contains("0a") {
                    ev.hit("layout:print:multi-line-output");
                }
            }
            if got.starts_with("panic") {
                let small = shrink_doc(model, &d, op);
                ev.violation(
                    &format!("layout op={} kind=panic", op.name()),
                    &format!("pretty::{} panics on {}: {}", op.name(), small.sx(), op.run(&small)),
                    json!({"kind": "doc", "request": op.request(&small), "impl": op.run(&small), "original_request": op.request(&d)}),
                    true,
                );
                continue;
            }
            if &got != ans {
                let small = shrink_doc(model, &d, op);
                let g = op.run(&small);
                let m = model.ask(&op.request(&small));
                // is a statement of the theorems violated by the implementation on a nearby separable doc?
                ev.violation(
                    &format!("layout op={} kind=differs-from-model", op.name()),
                    &format!(
                        "pretty::{} on {} gives {:?} but the model gives {:?}",
                        op.name(), small.sx(), unhex_str(&g), unhex_str(&m)
                    ),
                    json!({"kind": "doc", "broken": format!("correspondence model<->impl on pretty::{}", op.name()),
                           "request": op.request(&small), "impl": g, "model": m, "original_request": op.request(&d)}),
                    false,
                );
            }
            ev.sample_sparse(ev.evaluations, 20000, || json!({"request": op.request(&d), "impl": got, "model": ans}));
        }
        if style == 3 {
            for op in &ops {
                if let Op::Print(w) = op {
                    ev.hit("layout:engine-oracle:evaluated");
                    if let Err(e) = engine_oracle(&d, *w, nested_suffix) {
                        // shrink keeping the oracle failing
                        let mut cur = d.clone();
                        let mut budget = 600;
                        'again: loop {
                            for cand in cur.shrinks() {
                                if budget == 0 {
                                    break 'again;
                                }
                                budget -= 1;
                                if engine_oracle(&cand, *w, nested_suffix).is_err() {
                                    cur = cand;
                                    continue 'again;
                                }
                            }
                            break;
                        }
                        let kind = if e.starts_with("main") { "main-atoms" } else if e.starts_with("print panics") { "panic" } else { "suffix-atoms" };
                        ev.violation(
                            &format!("layout-oracle kind={kind}"),
                            &format!("pretty::print at width {w} on {}: {}", cur.sx(), engine_oracle(&cur, *w, nested_suffix).err().unwrap_or(e)),
                            json!({"kind": "doc", "request": Op::Print(*w).request(&cur), "impl": impl_print(&cur, *w)}),
                            true,
                        );
                    }
                }
            }
        }
    }
}

fn report_pipeline_failure(ev: &mut Ev, label: &str, src: &str, v: &Verdict, seen: &mut HashSet<String>) {
    let Verdict::Fail { kind, .. } = v else { return };
    let k: &'static str = kind;
    ev.hit(&format!("pipeline:fail:{kind}"));
    // classify the unshrunk failure first: when that signature is a known finding that has already
    // been reported with a shrunk input in this run, count the hit and move on; otherwise shrink
    // (keeping the failure kind) and classify the minimal input
    let cause0 = pipeline::classify(src, v);
    let sig0 = format!("pipeline={kind} cause={cause0}");
    let explore = ev.opts.has_flag("--explore");
    if !explore && seen.contains(&sig0) && ev.is_known(&sig0) {
        ev.violation(&sig0, "", json!({}), true);
        return;
    }
    // the shrink keeps kind *and* cause, so that it cannot slip into a different defect
    let small = pipeline::shrink_source(src, &|s| {
        let v = pipeline::check_source(s);
        v.kind() == k && pipeline::classify(s, &v) == cause0
    }, if explore { 600 } else { 1200 });
    let v2 = pipeline::check_source(&small);
    let cause = pipeline::classify(&small, &v2);
    let sig = format!("pipeline={kind} cause={cause}");
    let (detail, formatted) = match &v2 {
        Verdict::Fail { detail, formatted, .. } => (detail.clone(), formatted.clone()),
        _ => (String::new(), None),
    };
    if explore {
        if seen.insert(format!("{sig} {small}")) {
            println!("EXPLORE {sig} {small:?} :: {detail} || formatted={formatted:?}");
        }
        return;
    }
    if sig == sig0 {
        seen.insert(sig0);
    }
    ev.hit(&format!("pipeline:shrunk:{kind}"));
    ev.violation(
        &sig,
        &format!("formatter oracle `{kind}` (cause: {cause}) fails on {:?} (from {label}): {detail}", small),
        json!({"kind": "source", "source": small, "formatted": formatted, "detail": detail, "from": label, "original_source": src}),
        true,
    );
}

/// /verif/corpus/C17/*.qv — minimised past failures and fixed regression inputs, run first.
fn regression_sources() -> Vec<(String, String)> {
    let mut out = vec![];
    let mut files: Vec<_> = std::fs::read_dir("/verif/corpus/C17")
        .map(|d| d.filter_map(|e| e.ok()).map(|e| e.path()).collect())
        .unwrap_or_default();
    files.sort();
    for f in files {
        if f.extension().and_then(|e| e.to_str()) == Some("qv") {
            if let Ok(t) = std::fs::read_to_string(&f) {
                out.push((format!("corpus/C17/{}", f.file_name().unwrap().to_string_lossy()), t));
            }
        }
    }
    out
}

/// Grammar-generated programs in the pipeline stream (3 of 13 draws in both tiers).
const GRAMMAR_STREAM: bool = true;

fn part_pipeline(ev: &mut Ev, opts: &Opts) {
    let mut corpus = regression_sources();
    let n_regression = corpus.len();
    ev.set_extra("regression_sources", json!(n_regression));
    corpus.extend(srcgen::corpus_all());
    let mut shrunk = HashSet::new();
    let mut good: Vec<(String, String)> = vec![];
    for (index, (label, src)) in corpus.iter().enumerate() {
        let v = pipeline::check_source(src);
        if index < n_regression {
            // regression inputs are checked, but generated sources derive from the repository's own
            // corpora only (minimised failure inputs make poor seeds: they sit on known defects)
            ev.hit(&format!("pipeline:regression:{}", v.kind()));
            ev.case(&("regression", src), true);
            if matches!(v, Verdict::Fail { .. }) {
                report_pipeline_failure(ev, label, src, &v, &mut shrunk);
            }
            continue;
        }
        ev.hit(&format!("pipeline:corpus:{}", v.kind()));
        ev.case(&("corpus", src), !matches!(v, Verdict::NotParseable));
        match &v {
            Verdict::NotParseable => {}
            Verdict::Ok { .. } => good.push((label.clone(), src.clone())),
            Verdict::Fail { .. } => {
                good.push((label.clone(), src.clone()));
                report_pipeline_failure(ev, label, src, &v, &mut shrunk);
            }
        }
    }
    ev.set_extra("corpus_sources", json!(corpus.len()));
    ev.set_extra("corpus_parseable", json!(good.len()));
    let n = opts.tier.pick(15_000u64, 120_000u64);
    for i in 0..n {
        let mut r = Rng::for_case(opts.seed ^ 0xC17, i);
        let (label, base) = &good[r.usize(good.len())];
        // keep generated sources moderately small (cost of the comment oracle is a parse per `//`)
        if base.len() > 6000 && !r.chance(1, 20) {
            continue;
        }
        let grammar_stream = GRAMMAR_STREAM || opts.has_flag("--grammar");
        let (how, src) = match r.below(if grammar_stream { 13 } else { 10 }) {
            10 | 11 => ("grammar", inputs::grammar(&mut r)),
            12 => {
                let g = inputs::grammar(&mut r);
                let k = 1 + r.usize(3);
                ("grammar+trivia", srcgen::insert_trivia(&mut r, &g, k))
            }
            0..=2 => {
                let k = 1 + r.usize(4);
                ("trivia", srcgen::insert_trivia(&mut r, base, k))
            }
            3 | 4 => ("trivia-dense", srcgen::insert_trivia_dense(&mut r, base)),
            5 | 6 => {
                let other = &good[r.usize(good.len())].1;
                let other = if other.len() > 400 { "y" } else { other.as_str() };
                ("wrap", srcgen::wrap(&mut r, if base.len() > 2000 { "z" } else { base }, other))
            }
            7 | 8 => {
                let other = &good[r.usize(good.len())].1;
                let other = if other.len() > 400 { "y" } else { other.as_str() };
                let w = srcgen::wrap(&mut r, if base.len() > 2000 { "z" } else { base }, other);
                let k = 1 + r.usize(5);
                ("wrap+trivia", srcgen::insert_trivia(&mut r, &w, k))
            }
            _ => {
                let k = r.usize(3);
                ("crlf", srcgen::to_crlf(&srcgen::insert_trivia(&mut r, base, k)))
            }
        };
        let v = pipeline::check_source(&src);
        ev.hit(&format!("pipeline:gen:{how}:{}", v.kind()));
        ev.case(&("gen", &src), !matches!(v, Verdict::NotParseable));
        if let Verdict::Ok { formatted } = &v {
            let maxw = formatted.lines().map(|l| l.chars().count()).max().unwrap_or(0);
            ev.hit(&format!("pipeline:out-maxwidth:{}", match maxw { 0..=40 => "<=40", 41..=50 => "41-50", 51..=100 => "51-100", _ => ">100" }));
            if formatted.contains("//") {
                ev.hit("pipeline:gen:output-has-comment");
            }
            ev.sample_sparse(i, 600, || json!({"how": how, "from": label, "source": src, "formatted": formatted}));
        }
        if matches!(v, Verdict::Fail { .. }) {
            report_pipeline_failure(ev, &format!("{how} of {label}"), &src, &v, &mut shrunk);
        }
    }
}

fn main() {
    qverif::quiet_panics();
    let opts = Opts::parse();
    let mut ev = Ev::new("C17", &opts);
    ev.rule = "layout: random Doc trees (uniform over the eleven node kinds, formatter-shaped, and \
               separable), each printed at 3 widths (0-140, around its flat width, and 2^63 edge widths) \
               plus flatten/flat_width/forces_break, non-trivial when the tree has more than 3 nodes, \
               distinct by (operation, tree, width); pipeline: every corpus source and sources derived \
               from them (comments/blank lines at token boundaries, wrapping/nesting, CRLF), non-trivial \
               when the parser accepts the source, distinct by source text"
        .into();
    if let Some(i) = opts.extra.iter().position(|x| x == "--debug-src") {
        let src = std::fs::read_to_string(&opts.extra[i + 1]).unwrap();
        let ast = quiver_compiler::parse(&src);
        println!("ast: {ast:?}");
        if let Ok(a) = ast {
            let out = quiver_compiler::format_program(&a, &src);
            println!("formatted: {out:?}");
            println!("ast2: {:?}", quiver_compiler::parse(&out));
            let v = pipeline::check_source(&src);
            println!("verdict: {v:?}\ncause: {}", pipeline::classify(&src, &v));
        }
        std::process::exit(0);
    }
    if let Some(p) = &opts.replay {
        let j: serde_json::Value = serde_json::from_str(&std::fs::read_to_string(p).unwrap()).unwrap();
        let rp = &j["replay"];
        if rp["kind"] == "source" {
            let src = rp["source"].as_str().unwrap();
            println!("source: {src:?}");
            println!("verdict: {:?}", pipeline::check_source(src));
        } else {
            let req = rp["request"].as_str().unwrap_or("");
            let mut model = Model::spawn(opts.model.as_ref().expect("--model"));
            println!("request: {req}");
            println!("model: {}", model.ask(req));
            println!("impl (recorded): {}", rp["impl"]);
        }
        std::process::exit(0);
    }
    let mut model = Model::spawn(opts.model.as_ref().expect("--model"));
    if !opts.has_flag("--no-layout") {
        part_layout(&mut ev, &mut model, &opts);
    }
    if !opts.has_flag("--no-strings") {
        strings::part_strings(&mut ev, &mut model, &opts);
    }
    if !opts.has_flag("--no-frag") {
        frag::part_frag(&mut ev, &mut model, &opts);
    }
    if !opts.has_flag("--no-pipeline") {
        part_pipeline(&mut ev, &opts);
    }
    ev.set_extra("model_requests", json!(model.requests));
    std::process::exit(ev.finish());
}
