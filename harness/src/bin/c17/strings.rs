//! (b) String literals: the private decode/escape functions of parser.rs / format.rs tied to the
//! model through `parse` and `format_program` on generated literals.
use super::astutil;
use quiver_compiler::ast::{Match, Program, StrSegment, StringStyle, Term};
use quiver_compiler::{format_program, parse};
use qverif::{Ev, Model, Opts, Rng, catch, hex};
use serde_json::json;

pub fn hx(s: &str) -> String {
    if s.is_empty() { "-".into() } else { hex(s.as_bytes()) }
}

pub fn unhx(s: &str) -> String {
    if s == "-" { String::new() } else { String::from_utf8_lossy(&qverif::unhex(s)).to_string() }
}

const PLAIN: &[&str] = &[
    "a", "b", "x", "z", "0", " ", " ", " ", "  ", "é", "日", "😀", "ß", "'", "}", "/", "//", "#", "=", ",", "|", "\u{a0}", "\u{2003}", "\u{b}", "\u{c}",
    "\u{85}", "\u{2028}", "\u{3000}", "\u{feff}", "\u{1680}", "word", "Hello, world", "\u{7f}", "\u{1}",
];
const ESCAPES_OK: &[&str] = &["\\n", "\\r", "\\t", "\\\\", "\\\"", "\\{"];
const ESCAPES_BAD: &[&str] = &["\\x", "\\0", "\\'", "\\}", "\\é", "\\ ", "\\u", "\\N", "\\日"];

/// Raw content of a single-line literal (between the quotes).
pub fn gen_single_raw(r: &mut Rng) -> String {
    let n = r.usize(10);
    let mut s = String::new();
    for _ in 0..n {
        match r.below(30) {
            0..=15 => s.push_str(*r.pick(PLAIN)),
            16..=23 => s.push_str(*r.pick(ESCAPES_OK)),
            24 => s.push_str(*r.pick(ESCAPES_BAD)),
            25 => s.push_str("\\s"),
            26 => s.push('{'),
            27 => s.push_str("{x}"),
            28 => s.push('\t'),
            _ => s.push_str("\\\\\\\""),
        }
    }
    if r.chance(1, 40) {
        s.push('\\');
    }
    s
}

/// Raw content of a multi-line literal (between the `"""` delimiters).
pub fn gen_multi_raw(r: &mut Rng) -> String {
    let nl = |r: &mut Rng| -> &'static str {
        match r.below(12) {
            0 => "\r\n",
            1 => "\r",
            _ => "\n",
        }
    };
    let margin: String = match r.below(8) {
        0 => String::new(),
        1 => "\t".into(),
        2 => " \t".into(),
        _ => " ".repeat(r.usize(7)),
    };
    let mut s = String::new();
    // opening line
    match r.below(12) {
        0 => s.push_str("  "),
        1 => s.push('x'),
        2 => return gen_single_raw(r),
        _ => {}
    }
    s.push_str(nl(r));
    let lines = r.usize(6);
    for _ in 0..lines {
        match r.below(14) {
            0 => {}                        // empty line
            1 => s.push_str("   "),        // whitespace-only line
            2 => s.push_str(&margin[..margin.len() / 2]), // under-indented
            _ => {
                if !r.chance(1, 25) {
                    s.push_str(&margin);
                }
                if r.chance(1, 4) {
                    s.push_str(&" ".repeat(r.usize(4)));
                }
                let k = 1 + r.usize(7);
                for _ in 0..k {
                    match r.below(34) {
                        0..=15 => s.push_str(*r.pick(PLAIN)),
                        16..=21 => s.push_str(*r.pick(ESCAPES_OK)),
                        22 => s.push_str(*r.pick(ESCAPES_BAD)),
                        23 | 24 => s.push_str("\\s"),
                        25 => s.push_str("\\\"\"\""),
                        26 => s.push_str("\"\""),
                        27 => s.push('"'),
                        28 => s.push('{'),
                        29 => s.push_str("{x}"),
                        30 => s.push('\t'),
                        31 => {
                            // line continuation
                            s.push('\\');
                            s.push_str(nl(r));
                            s.push_str(&margin);
                            s.push_str("  cont");
                        }
                        _ => s.push_str("\\\\"),
                    }
                }
                match r.below(8) {
                    0 => s.push_str("  "),
                    1 => s.push('\t'),
                    2 => s.push_str("\\s"),
                    3 => s.push_str(" \\s "),
                    _ => {}
                }
            }
        }
        s.push_str(nl(r));
    }
    // half-edited endings: a continuation backslash at the very end of the content, possibly
    // followed by blank / whitespace-only lines before the closing delimiter line
    if r.chance(1, 6) {
        if s.ends_with('\n') || s.ends_with('\r') {
            while s.ends_with('\n') || s.ends_with('\r') {
                s.pop();
            }
        }
        match r.below(4) {
            0 => s.push_str("  one \\"),
            1 => s.push('\\'),
            2 => s.push_str(&format!("{margin}x\\")),
            _ => s.push_str("\\s\\"),
        }
        s.push_str(nl(r));
        for _ in 0..r.usize(3) {
            match r.below(3) {
                0 => {}
                1 => s.push_str("   "),
                _ => s.push('\t'),
            }
            s.push_str(nl(r));
        }
    }
    match r.below(16) {
        0 => s.push('x'), // non-whitespace margin
        1 => {
            // no closing line at all
            s.pop();
        }
        _ => s.push_str(&margin),
    }
    s
}

/// Values for the escape → format → parse round trip (arbitrary decoded text).
pub fn gen_value(r: &mut Rng) -> String {
    let n = r.usize(9);
    let mut s = String::new();
    for _ in 0..n {
        match r.below(24) {
            0..=9 => s.push_str(*r.pick(PLAIN)),
            10..=13 => s.push('\n'),
            14 => s.push_str("\n\n"),
            15 => s.push_str("  "),
            16 => s.push('\t'),
            17 => s.push('\r'),
            18 => s.push('"'),
            19 => s.push_str("\"\"\""),
            20 => s.push('\\'),
            21 => s.push('{'),
            22 => s.push_str("\\s"),
            _ => s.push_str("\\n"),
        }
    }
    s
}

fn first_term_string(p: &Program) -> Option<(StringStyle, Vec<StrSegment>)> {
    let mut out = None;
    astutil::visit(
        p,
        &mut |t| {
            if out.is_none() {
                if let Term::String(st, segs, ..) = t {
                    out = Some((*st, segs.clone()));
                }
            }
        },
        &mut |_| {},
    );
    out
}

fn first_pattern_string(p: &Program) -> Option<(StringStyle, Vec<u8>)> {
    let mut out = None;
    astutil::visit(p, &mut |_| {}, &mut |m| {
        if out.is_none() {
            if let Match::String(st, b) = m {
                out = Some((*st, b.clone()));
            }
        }
    });
    out
}

/// What the implementation makes of a term-position literal: `text <hex>` for a text-only literal,
/// `hole <hex of first text>` when it has holes, `reject` when the parser refuses the source.
fn impl_term(src: &str) -> (String, Option<Program>) {
    match catch(|| parse(src)) {
        Ok(Ok(p)) => match first_term_string(&p) {
            Some((_, segs)) => {
                if segs.iter().any(|s| matches!(s, StrSegment::Hole(_))) {
                    let first = match segs.first() {
                        Some(StrSegment::Text(b)) => String::from_utf8_lossy(b).to_string(),
                        _ => String::new(),
                    };
                    (format!("hole {}", hx(&first)), Some(p))
                } else {
                    let mut all = vec![];
                    for s in &segs {
                        if let StrSegment::Text(b) = s {
                            all.extend(b.iter().copied());
                        }
                    }
                    (format!("text {}", hx(&String::from_utf8_lossy(&all))), Some(p))
                }
            }
            None => ("no-string".into(), Some(p)),
        },
        Ok(Err(_)) => ("reject".into(), None),
        Err(pn) => (format!("panic {}", pn.lines().next().unwrap_or("")), None),
    }
}

fn impl_pattern(src: &str) -> String {
    match catch(|| parse(src)) {
        Ok(Ok(p)) => match first_pattern_string(&p) {
            Some((_, b)) => format!("text {}", hx(&String::from_utf8_lossy(&b))),
            None => "no-string".into(),
        },
        Ok(Err(_)) => "reject".into(),
        Err(pn) => format!("panic {}", pn.lines().next().unwrap_or("")),
    }
}

fn disagree(ev: &mut Ev, op: &str, request: &str, src: &str, got: &str, want: &str) {
    if got.starts_with("panic") {
        // a panic of the front end on a string literal violates the property itself (C18)
        ev.violation(
            "string-literal kind=panic",
            &format!("the parser panics on the string literal {src:?}: {got}"),
            json!({"kind": "string", "source": src, "impl": got, "model": want, "request": request}),
            true,
        );
        return;
    }
    ev.violation(
        &format!("string op={op} kind=differs-from-model"),
        &format!("string literal {src:?}: implementation `{got}` but the model ({request}) gives `{want}`"),
        json!({"kind": "string", "broken": format!("correspondence model<->impl on {op}"), "request": request, "source": src, "impl": got, "model": want}),
        false,
    );
}

/// The decode half only (C18: accept/reject and decoded bytes against the model).
pub fn part_decode(ev: &mut Ev, model: &mut Model, opts: &Opts) {
    run(ev, model, opts, false)
}

pub fn part_strings(ev: &mut Ev, model: &mut Model, opts: &Opts) {
    run(ev, model, opts, true)
}

fn run(ev: &mut Ev, model: &mut Model, opts: &Opts, roundtrip: bool) {
    let n = opts.tier.pick(6000u64, 60_000u64);
    for i in 0..n {
        let mut r = Rng::for_case(opts.seed ^ 0xB17, i);
        // ---- decode: single-line, term position -------------------------------------------
        {
            let raw = gen_single_raw(&mut r);
            let src = format!("x = \"{raw}\"");
            let (got, _) = impl_term(&src);
            let req = format!("segments {}", hx(&format!("{raw}\"")));
            let want = model.ask(&req);
            ev.case(&("single-term", &src), got.starts_with("text"));
            let w: Vec<&str> = want.split(' ').collect();
            ev.hit(&format!("string:single-term:model:{}", w[0]));
            let expect = match w[0] {
                "closed" if w[2] == "-" => Some(format!("text {}", w[1])),
                "closed" => None, // an unescaped quote ends the literal early: the rest is code
                "hole" => Some(format!("hole {}", w[1])),
                "bad-escape" | "unterminated" => Some("reject".to_string()),
                _ => None,
            };
            if let Some(e) = expect {
                let ok = if e.starts_with("hole") {
                    // the hole itself must parse as a block; when it does the first text must agree
                    got == "reject" || got == e
                } else {
                    got == e
                };
                if !ok {
                    disagree(ev, "string_segments", &req, &src, &got, &e);
                }
            }
            // pattern position
            let srcp = format!("=\"{raw}\"");
            let gotp = impl_pattern(&srcp);
            let reqp = format!("pattern-single {}", hx(&format!("{raw}\"")));
            let wantp = model.ask(&reqp);
            let wp: Vec<&str> = wantp.split(' ').collect();
            ev.case(&("single-pattern", &srcp), gotp.starts_with("text"));
            ev.hit(&format!("string:single-pattern:model:{}", wp[0]));
            let expectp = match wp[0] {
                "ok" if wp[2] == "-" => Some(format!("text {}", wp[1])),
                "ok" => None,
                "unterminated" | "malformed" => Some("reject".to_string()),
                "panic" => Some("panic".to_string()),
                _ => None,
            };
            if let Some(e) = expectp {
                if gotp != e {
                    disagree(ev, "single_line_string+parse_string_content", &reqp, &srcp, &gotp, &e);
                }
            }
        }
        // ---- decode: multi-line ------------------------------------------------------------
        {
            let raw = gen_multi_raw(&mut r);
            // the scan for the closing delimiter must agree first
            let body = format!("{raw}\"\"\"");
            let scan = model.ask(&format!("scan-multi {}", hx(&body)));
            let whole = scan == format!("some {}", raw.len());
            let src = format!("x = \"\"\"{raw}\"\"\"");
            let (got, _) = impl_term(&src);
            ev.case(&("multi-term", &src), got.starts_with("text"));
            if whole {
                let req = format!("ml-segments {}", hx(&raw));
                let want = model.ask(&req);
                let w: Vec<&str> = want.split(' ').collect();
                ev.hit(&format!("string:multi-term:model:{}", w[0]));
                let e = match w[0] {
                    "text" => format!("text {}", w[1]),
                    "hole" => format!("hole {}", w[1]),
                    _ => "reject".to_string(),
                };
                let ok = if e.starts_with("hole") { got == "reject" || got == e } else { got == e };
                if !ok {
                    disagree(ev, "process_multiline_segments", &req, &src, &got, &e);
                }
                let srcp = format!("=\"\"\"{raw}\"\"\"");
                let gotp = impl_pattern(&srcp);
                let reqp = format!("ml-string {}", hx(&raw));
                let wantp = model.ask(&reqp);
                ev.case(&("multi-pattern", &srcp), gotp.starts_with("text"));
                let e = match wantp.split_once(' ') {
                    Some(("some", h)) => format!("text {h}"),
                    _ => "reject".to_string(),
                };
                ev.hit(&format!("string:multi-pattern:model:{}", if e == "reject" { "none" } else { "some" }));
                if gotp != e {
                    disagree(ev, "process_multiline_string", &reqp, &srcp, &gotp, &e);
                }
            } else {
                ev.hit("string:multi:delimiter-closes-early");
            }
        }
        // ---- escape → format → parse round trip ----------------------------------------------
        if roundtrip {
            let v = gen_value(&mut r);
            // single-line: build the literal with the model's escape, let the formatter re-render it
            let esc = unhex_s(&model.ask(&format!("escape-single {}", hx(&v))));
            let src = format!("x = \"{esc}\"");
            let (got, prog) = impl_term(&src);
            ev.case(&("roundtrip-single", &v), true);
            if got != format!("text {}", hx(&v)) {
                // C17.escape_single_roundtrip says the model decodes its own escape to v
                disagree(ev, "escape_single_line_text/string_segments", &format!("escape-single {}", hx(&v)), &src, &got, &format!("text {}", hx(&v)));
            } else if let Some(p) = prog {
                let out = catch(|| format_program(&p, &src)).unwrap_or_else(|e| format!("<panic {e}>"));
                ev.hit("string:roundtrip-single:formatted");
                if out != format!("{src}\n") {
                    disagree(ev, "escape_single_line_text", &format!("escape-single {}", hx(&v)), &src, &out, &format!("{src}\n"));
                    // oracle: does the value survive?
                    let (got2, _) = impl_term(&out);
                    if got2 != format!("text {}", hx(&v)) {
                        ev.violation(
                            "string-roundtrip style=single",
                            &format!("single-line string value {v:?} becomes {got2} after formatting"),
                            json!({"kind": "string", "value": v, "source": src, "formatted": out, "reparsed": got2}),
                            true,
                        );
                    }
                }
            }
            // multi-line: the canonical rendering from the model is the input; format must reproduce
            // the model's output and the value must survive
            let depth = r.usize(3);
            let canon = unhex_s(&model.ask(&format!("fmt-ml {depth} {}", hx(&v))));
            ev.case(&("roundtrip-multi", depth, &v), true);
            // (1) an independent, hand-laid-out literal of the same value: margin of our choosing
            let margin = " ".repeat(r.usize(6));
            let lines = unhex_s(&model.ask(&format!("fmt-ml 0 {}", hx(&v))));
            let _ = lines;
            let mut lit = String::from("\"\"\"\n");
            for l in v.split('\n') {
                let e = unhex_s(&model.ask(&format!("escape-multi {}", hx(l))));
                let p = unhex_s(&model.ask(&format!("protect {}", hx(&e))));
                if !p.is_empty() {
                    lit.push_str(&margin);
                    lit.push_str(&p);
                }
                lit.push('\n');
            }
            lit.push_str(&margin);
            lit.push_str("\"\"\"");
            let mut src = format!("x = {}{lit}{}", "[".repeat(depth), "]".repeat(depth));
            if r.chance(1, 6) {
                src = src.replace('\n', "\r\n");
            }
            let (got, prog) = impl_term(&src);
            let want = format!("text {}", hx(&v));
            // exotic trailing white space is content for the parser (only ' ' and tab are stripped), so
            // the hand-laid-out literal decodes to v unconditionally
            if got != want {
                disagree(ev, "multiline decode of escape_multiline_text+protect_trailing_spaces", &format!("ml-segments <{}>", hx(&lit)), &src, &got, &want);
                continue;
            }
            let Some(p) = prog else { continue };
            let out = catch(|| format_program(&p, &src)).unwrap_or_else(|e| format!("<panic {e}>"));
            if out != canon {
                // (the oracle below still decides whether the value survives)
                disagree(ev, "multiline_string_doc+print+collapse_blanks", &format!("fmt-ml {depth} {}", hx(&v)), &src, &out, &canon);
            } else {
                ev.hit("string:roundtrip-multi:format-agrees-with-model");
            }
            // (2) oracle: the value survives formatting
            let (got2, _) = impl_term(&out);
            let pred = model.ask(&format!("fmt-ml-roundtrip {depth} {}", hx(&v)));
            let pred2 = match pred.split_once(' ') {
                Some(("some", h)) => format!("text {h}"),
                _ => "reject".into(),
            };
            if out == canon && got2 != pred2 {
                disagree(ev, "parse of formatted multi-line literal", &format!("fmt-ml-roundtrip {depth} {}", hx(&v)), &out, &got2, &pred2);
            }
            if got2 != want {
                // C17.escape_multi_roundtrip holds for every value (since fix a7d7642)
                ev.hit("string:roundtrip-multi:value-changed");
                ev.violation(
                    "string-roundtrip style=multi",
                    &format!("multi-line string value {v:?} becomes {:?} after formatting", unhx(got2.strip_prefix("text ").unwrap_or("-"))),
                    json!({"kind": "string", "value": v, "source": src, "formatted": out, "reparsed": got2}),
                    true,
                );
            } else {
                ev.hit("string:roundtrip-multi:value-preserved");
            }
        }
    }
}

fn unhex_s(ans: &str) -> String {
    match ans.strip_prefix("s:") {
        Some(h) => String::from_utf8_lossy(&qverif::unhex(h)).to_string(),
        None => ans.to_string(),
    }
}
