//! AST helpers for classifying what a formatter failure is about.
use quiver_compiler::ast::*;

/// Visit every string literal of the program: `Term::String` (segments) and `Match::String` (bytes,
/// presented as one text segment). The callback may rewrite the text.
pub fn strings_mut(p: &mut Program, f: &mut dyn FnMut(StringStyle, &mut Vec<StrSegment>)) {
    for s in &mut p.statements {
        if let Statement::Expression(seq) = s {
            seq_mut(seq, f);
        }
    }
}

fn seq_mut(seq: &mut Sequence, f: &mut dyn FnMut(StringStyle, &mut Vec<StrSegment>)) {
    for c in &mut seq.chains {
        chain_mut(c, f);
    }
}

fn chain_mut(c: &mut Chain, f: &mut dyn FnMut(StringStyle, &mut Vec<StrSegment>)) {
    if let Some(m) = &mut c.match_pattern {
        match_mut(m, f);
    }
    for t in &mut c.terms {
        term_mut(t, f);
    }
}

fn expr_mut(e: &mut Expression, f: &mut dyn FnMut(StringStyle, &mut Vec<StrSegment>)) {
    for b in &mut e.branches {
        seq_mut(&mut b.condition, f);
        if let Some(c) = &mut b.consequence {
            seq_mut(c, f);
        }
    }
}

fn match_mut(m: &mut Match, f: &mut dyn FnMut(StringStyle, &mut Vec<StrSegment>)) {
    match m {
        Match::String(style, bytes) => {
            // `render_match` deliberately prints a `"""` *pattern* as a single-line literal (same
            // bytes, same bytecode): the delimiter style of a pattern is not part of the program.
            *style = StringStyle::Single;
            let mut segs = vec![StrSegment::Text(std::mem::take(bytes))];
            f(*style, &mut segs);
            let mut out = vec![];
            for s in segs {
                if let StrSegment::Text(b) = s {
                    out.extend(b);
                }
            }
            *bytes = out;
        }
        Match::Tuple(t) => {
            for fld in &mut t.fields {
                match_mut(&mut fld.pattern, f);
            }
        }
        Match::Partial(p) => {
            for fld in &mut p.fields {
                if let Some(pt) = &mut fld.pattern {
                    match_mut(pt, f);
                }
            }
        }
        Match::Or(ms) => {
            for x in ms {
                match_mut(x, f);
            }
        }
        _ => {}
    }
}

fn term_mut(t: &mut Term, f: &mut dyn FnMut(StringStyle, &mut Vec<StrSegment>)) {
    match t {
        Term::String(style, segs, ..) => {
            for s in segs.iter_mut() {
                if let StrSegment::Hole(e) = s {
                    expr_mut(e, f);
                }
            }
            f(*style, segs);
        }
        Term::Tuple(tp) => {
            for fld in &mut tp.fields {
                if let FieldValue::Chain(c) = &mut fld.value {
                    chain_mut(c, f);
                }
            }
        }
        Term::Match(m) => match_mut(m, f),
        Term::Block(e) => expr_mut(e, f),
        Term::Function(func) => {
            if let Some(b) = &mut func.body {
                expr_mut(b, f);
            }
        }
        Term::Spawn(inner, _) => term_mut(inner, f),
        Term::Select(Some(chains), _) => {
            for c in chains {
                chain_mut(c, f);
            }
        }
        _ => {}
    }
}

/// Remove *every* single-branch, consequence-free, single-chain block (whether or not the compiler
/// regards it as a no-op): used to recognise "the two programs differ only in such braces".
pub fn strip_all_blocks(mut p: Program) -> Program {
    for s in &mut p.statements {
        if let Statement::Expression(seq) = s {
            sab_seq(seq);
        }
    }
    p
}

fn sab_seq(seq: &mut Sequence) {
    let chains = std::mem::take(&mut seq.chains);
    for mut c in chains {
        sab_chain(&mut c);
        // a pattern-less chain whose sole term is a block around one chain: that chain
        if c.match_pattern.is_none() && c.terms.len() == 1 {
            if let Term::Block(e) = &c.terms[0] {
                if e.branches.len() == 1 && e.branches[0].consequence.is_none() {
                    let Term::Block(mut e) = c.terms.remove(0) else { unreachable!() };
                    seq.chains.extend(e.branches.remove(0).condition.chains);
                    continue;
                }
            }
        }
        seq.chains.push(c);
    }
}

fn sab_chain(c: &mut Chain) {
    let terms = std::mem::take(&mut c.terms);
    for mut t in terms {
        sab_term(&mut t);
        let splice = matches!(&t, Term::Block(e) if e.branches.len() == 1
            && e.branches[0].consequence.is_none()
            && e.branches[0].condition.chains.len() == 1
            && e.branches[0].condition.chains[0].match_pattern.is_none());
        if splice {
            let Term::Block(mut e) = t else { unreachable!() };
            c.terms.extend(e.branches.remove(0).condition.chains.remove(0).terms);
        } else {
            c.terms.push(t);
        }
    }
}

fn sab_expr(e: &mut Expression) {
    for b in &mut e.branches {
        sab_seq(&mut b.condition);
        if let Some(c) = &mut b.consequence {
            sab_seq(c);
        }
    }
}

fn sab_term(t: &mut Term) {
    match t {
        Term::Tuple(tp) => {
            for fld in &mut tp.fields {
                if let FieldValue::Chain(c) = &mut fld.value {
                    sab_chain(c);
                }
            }
        }
        Term::String(_, segs, ..) => {
            for s in segs.iter_mut() {
                if let StrSegment::Hole(e) = s {
                    sab_expr(e);
                }
            }
        }
        Term::Block(e) => sab_expr(e),
        Term::Function(f) => {
            if let Some(b) = &mut f.body {
                sab_expr(b);
            }
        }
        Term::Spawn(inner, _) => sab_term(inner),
        Term::Select(Some(chains), _) => {
            for c in chains {
                sab_chain(c);
            }
        }
        _ => {}
    }
}

/// Immutable walk over every term and every pattern of the program.
pub fn visit(p: &Program, ft: &mut dyn FnMut(&Term), fm: &mut dyn FnMut(&Match)) {
    for s in &p.statements {
        if let Statement::Expression(seq) = s {
            v_seq(seq, ft, fm);
        }
    }
}

fn v_seq(seq: &Sequence, ft: &mut dyn FnMut(&Term), fm: &mut dyn FnMut(&Match)) {
    for c in &seq.chains {
        v_chain(c, ft, fm);
    }
}

fn v_chain(c: &Chain, ft: &mut dyn FnMut(&Term), fm: &mut dyn FnMut(&Match)) {
    if let Some(m) = &c.match_pattern {
        v_match(m, fm);
    }
    for t in &c.terms {
        v_term(t, ft, fm);
    }
}

fn v_expr(e: &Expression, ft: &mut dyn FnMut(&Term), fm: &mut dyn FnMut(&Match)) {
    for b in &e.branches {
        v_seq(&b.condition, ft, fm);
        if let Some(c) = &b.consequence {
            v_seq(c, ft, fm);
        }
    }
}

fn v_match(m: &Match, fm: &mut dyn FnMut(&Match)) {
    fm(m);
    match m {
        Match::Tuple(t) => t.fields.iter().for_each(|f| v_match(&f.pattern, fm)),
        Match::Partial(p) => p.fields.iter().for_each(|f| {
            if let Some(pt) = &f.pattern {
                v_match(pt, fm)
            }
        }),
        Match::Or(ms) => ms.iter().for_each(|x| v_match(x, fm)),
        _ => {}
    }
}

fn v_term(t: &Term, ft: &mut dyn FnMut(&Term), fm: &mut dyn FnMut(&Match)) {
    ft(t);
    match t {
        Term::String(_, segs, ..) => {
            for s in segs {
                if let StrSegment::Hole(e) = s {
                    v_expr(e, ft, fm);
                }
            }
        }
        Term::Tuple(tp) => {
            for fld in &tp.fields {
                if let FieldValue::Chain(c) = &fld.value {
                    v_chain(c, ft, fm);
                }
            }
        }
        Term::Match(m) => v_match(m, fm),
        Term::Block(e) => v_expr(e, ft, fm),
        Term::Function(func) => {
            if let Some(b) = &func.body {
                v_expr(b, ft, fm);
            }
        }
        Term::Spawn(inner, _) => v_term(inner, ft, fm),
        Term::Select(Some(chains), _) => chains.iter().for_each(|c| v_chain(c, ft, fm)),
        _ => {}
    }
}

/// Shapes of interpolation holes that the formatter cannot lay out on the string's line:
/// (a hole holding a sequence of several steps, a hole holding a `"""` literal).
pub fn hole_shapes(p: &Program) -> (bool, bool) {
    fn seq_has_multi(seq: &Sequence, several: &mut bool, multi: &mut bool) {
        for c in &seq.chains {
            for t in &c.terms {
                term_has(t, several, multi, true);
            }
        }
    }
    fn expr_in_hole(e: &Expression, several: &mut bool, multi: &mut bool) {
        for b in &e.branches {
            if b.condition.chains.len() > 1 || b.consequence.as_ref().is_some_and(|c| c.chains.len() > 1) {
                *several = true;
            }
            seq_has_multi(&b.condition, several, multi);
            if let Some(c) = &b.consequence {
                seq_has_multi(c, several, multi);
            }
        }
    }
    fn term_has(t: &Term, several: &mut bool, multi: &mut bool, in_hole: bool) {
        match t {
            Term::String(style, segs, ..) => {
                if in_hole && *style == StringStyle::Multi {
                    *multi = true;
                }
                for s in segs {
                    if let StrSegment::Hole(e) = s {
                        expr_in_hole(e, several, multi);
                    }
                }
            }
            Term::Tuple(tp) => {
                for f in &tp.fields {
                    if let FieldValue::Chain(c) = &f.value {
                        for t in &c.terms {
                            term_has(t, several, multi, in_hole);
                        }
                    }
                }
            }
            Term::Block(e) => block_has(e, several, multi, in_hole),
            Term::Function(f) => {
                if let Some(b) = &f.body {
                    block_has(b, several, multi, in_hole)
                }
            }
            Term::Spawn(inner, _) => term_has(inner, several, multi, in_hole),
            Term::Select(Some(chains), _) => {
                for c in chains {
                    for t in &c.terms {
                        term_has(t, several, multi, in_hole);
                    }
                }
            }
            _ => {}
        }
    }
    fn block_has(e: &Expression, several: &mut bool, multi: &mut bool, in_hole: bool) {
        for b in &e.branches {
            if in_hole && (b.condition.chains.len() > 1 || b.consequence.as_ref().is_some_and(|c| c.chains.len() > 1)) {
                *several = true;
            }
            for c in b.condition.chains.iter().chain(b.consequence.iter().flat_map(|s| s.chains.iter())) {
                for t in &c.terms {
                    term_has(t, several, multi, in_hole);
                }
            }
        }
    }
    let (mut several, mut multi) = (false, false);
    for s in &p.statements {
        if let Statement::Expression(seq) = s {
            for c in &seq.chains {
                for t in &c.terms {
                    term_has(t, &mut several, &mut multi, false);
                }
            }
        }
    }
    (several, multi)
}
