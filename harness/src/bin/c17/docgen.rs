//! Random `pretty::Doc` trees, their S-expression for the model driver, and a shrinker.
use quiver_compiler::pretty::{self, Doc};
use qverif::{Rng, hex};

/// Structural mirror of `pretty::Doc` (so a tree can be rendered for both sides and shrunk).
#[derive(Clone, Debug, PartialEq, Eq, Hash)]
pub enum D {
    Nil,
    Text(String),
    Line,
    SoftLine,
    HardLine,
    Concat(Vec<D>),
    Nest(usize, Box<D>),
    /// raw `Doc::Group(inner, flag)`
    RawGroup(Box<D>, bool),
    /// `pretty::group(inner)`
    Group(Box<D>),
    IfBreak(Box<D>, Box<D>),
    LineSuffix(Box<D>),
    BreakParent,
}

impl D {
    pub fn to_doc(&self) -> Doc {
        match self {
            D::Nil => pretty::nil(),
            D::Text(s) => pretty::text(s.clone()),
            D::Line => pretty::line(),
            D::SoftLine => pretty::softline(),
            D::HardLine => pretty::hardline(),
            D::Concat(ds) => pretty::concat(ds.iter().map(|d| d.to_doc()).collect()),
            D::Nest(n, d) => pretty::nest(*n, d.to_doc()),
            D::RawGroup(d, b) => Doc::Group(Box::new(d.to_doc()), *b),
            D::Group(d) => pretty::group(d.to_doc()),
            D::IfBreak(b, f) => pretty::if_break(b.to_doc(), f.to_doc()),
            D::LineSuffix(d) => pretty::line_suffix(d.to_doc()),
            D::BreakParent => pretty::break_parent(),
        }
    }
    pub fn sx(&self) -> String {
        let mut s = String::new();
        self.sx_into(&mut s);
        s
    }
    fn sx_into(&self, s: &mut String) {
        match self {
            D::Nil => s.push_str("nil"),
            D::Text(t) if t.is_empty() => s.push_str("(t)"),
            D::Text(t) => {
                s.push_str("(t ");
                s.push_str(&hex(t.as_bytes()));
                s.push(')');
            }
            D::Line => s.push_str("line"),
            D::SoftLine => s.push_str("softline"),
            D::HardLine => s.push_str("hardline"),
            D::Concat(ds) => {
                s.push_str("(c");
                for d in ds {
                    s.push(' ');
                    d.sx_into(s);
                }
                s.push(')');
            }
            D::Nest(n, d) => {
                s.push_str(&format!("(n {n} "));
                d.sx_into(s);
                s.push(')');
            }
            D::RawGroup(d, b) => {
                s.push_str(if *b { "(g 1 " } else { "(g 0 " });
                d.sx_into(s);
                s.push(')');
            }
            D::Group(d) => {
                s.push_str("(gg ");
                d.sx_into(s);
                s.push(')');
            }
            D::IfBreak(b, f) => {
                s.push_str("(ib ");
                b.sx_into(s);
                s.push(' ');
                f.sx_into(s);
                s.push(')');
            }
            D::LineSuffix(d) => {
                s.push_str("(ls ");
                d.sx_into(s);
                s.push(')');
            }
            D::BreakParent => s.push_str("bp"),
        }
    }
    pub fn nodes(&self) -> usize {
        match self {
            D::Concat(ds) => 1 + ds.iter().map(|d| d.nodes()).sum::<usize>(),
            D::Nest(_, d) | D::RawGroup(d, _) | D::Group(d) | D::LineSuffix(d) => 1 + d.nodes(),
            D::IfBreak(b, f) => 1 + b.nodes() + f.nodes(),
            _ => 1,
        }
    }
    pub fn kind(&self) -> &'static str {
        match self {
            D::Nil => "nil",
            D::Text(_) => "text",
            D::Line => "line",
            D::SoftLine => "softline",
            D::HardLine => "hardline",
            D::Concat(_) => "concat",
            D::Nest(..) => "nest",
            D::RawGroup(..) => "rawgroup",
            D::Group(_) => "group",
            D::IfBreak(..) => "ifbreak",
            D::LineSuffix(_) => "linesuffix",
            D::BreakParent => "breakparent",
        }
    }
    pub fn count_kinds(&self, f: &mut dyn FnMut(&'static str)) {
        f(self.kind());
        match self {
            D::Concat(ds) => ds.iter().for_each(|d| d.count_kinds(f)),
            D::Nest(_, d) | D::RawGroup(d, _) | D::Group(d) | D::LineSuffix(d) => d.count_kinds(f),
            D::IfBreak(b, fl) => {
                b.count_kinds(f);
                fl.count_kinds(f)
            }
            _ => {}
        }
    }
    pub fn has(&self, p: &dyn Fn(&D) -> bool) -> bool {
        if p(self) {
            return true;
        }
        match self {
            D::Concat(ds) => ds.iter().any(|d| d.has(p)),
            D::Nest(_, d) | D::RawGroup(d, _) | D::Group(d) | D::LineSuffix(d) => d.has(p),
            D::IfBreak(b, f) => b.has(p) || f.has(p),
            _ => false,
        }
    }
    /// One-step simplifications (for shrinking a disagreeing case).
    pub fn shrinks(&self) -> Vec<D> {
        let mut out = vec![];
        match self {
            D::Nil => {}
            D::Text(t) => {
                out.push(D::Nil);
                if t.chars().count() > 1 {
                    let cs: Vec<char> = t.chars().collect();
                    out.push(D::Text(cs[..cs.len() / 2].iter().collect()));
                    out.push(D::Text(cs[cs.len() / 2..].iter().collect()));
                }
                if !t.is_ascii() || t.chars().any(|c| c != 'a') {
                    out.push(D::Text(t.chars().map(|_| 'a').collect()));
                }
            }
            D::Line | D::SoftLine | D::HardLine | D::BreakParent => out.push(D::Nil),
            D::Concat(ds) => {
                out.push(D::Nil);
                if ds.len() == 1 {
                    out.push(ds[0].clone());
                }
                for i in 0..ds.len() {
                    let mut v = ds.clone();
                    v.remove(i);
                    out.push(D::Concat(v));
                }
                for i in 0..ds.len() {
                    for s in ds[i].shrinks() {
                        let mut v = ds.clone();
                        v[i] = s;
                        out.push(D::Concat(v));
                    }
                }
            }
            D::Nest(n, d) => {
                out.push((**d).clone());
                if *n > 0 {
                    out.push(D::Nest(n / 2, d.clone()));
                }
                for s in d.shrinks() {
                    out.push(D::Nest(*n, Box::new(s)));
                }
            }
            D::RawGroup(d, b) => {
                out.push((**d).clone());
                out.push(D::Group(d.clone()));
                for s in d.shrinks() {
                    out.push(D::RawGroup(Box::new(s), *b));
                }
            }
            D::Group(d) => {
                out.push((**d).clone());
                for s in d.shrinks() {
                    out.push(D::Group(Box::new(s)));
                }
            }
            D::IfBreak(b, f) => {
                out.push((**b).clone());
                out.push((**f).clone());
                for s in b.shrinks() {
                    out.push(D::IfBreak(Box::new(s), f.clone()));
                }
                for s in f.shrinks() {
                    out.push(D::IfBreak(b.clone(), Box::new(s)));
                }
            }
            D::LineSuffix(d) => {
                out.push((**d).clone());
                out.push(D::Nil);
                for s in d.shrinks() {
                    out.push(D::LineSuffix(Box::new(s)));
                }
            }
        }
        out
    }
}

const TEXTS: &[&str] = &[
    "", "a", "b", "x", "foo", "bar", "value", "[", "]", "{", "}", ",", " => ", "| ", "~> ", " ", "  ",
    "x = ", "// c", " // trailing", "\"str\"", "é", "日本", "😀", "ß→", "a ", "tab\t", "nb\u{a0}",
    "\u{2003}", "0x00ff", "__integer_add__", "longer_identifier_name", "Point[x: 1, y: 2]",
];

fn gen_text(r: &mut Rng) -> String {
    match r.below(40) {
        0 => "a\nb".into(),
        1 => "a\r\nb".into(),
        2 => "cr\r".into(),
        3 => "\n".into(),
        4..=6 => {
            // random length of 'w' to hit width boundaries
            let n = r.usize(30);
            "w".repeat(n)
        }
        _ => r.pick(TEXTS).to_string(),
    }
}

/// Uniform over all node kinds, depth-bounded.
pub fn gen_doc(r: &mut Rng, depth: usize, budget: &mut usize) -> D {
    if *budget == 0 {
        return D::Text("z".into());
    }
    *budget -= 1;
    let leaf = depth == 0 || r.chance(1, 4);
    if leaf {
        return match r.below(12) {
            0 => D::Nil,
            1..=5 => D::Text(gen_text(r)),
            6 | 7 => D::Line,
            8 | 9 => D::SoftLine,
            10 => D::HardLine,
            _ => D::BreakParent,
        };
    }
    match r.below(14) {
        0..=4 => {
            let n = 1 + r.usize(7);
            D::Concat((0..n).map(|_| gen_doc(r, depth - 1, budget)).collect())
        }
        5 | 6 => D::Nest(*r.pick(&[0usize, 1, 2, 2, 2, 4, 7]), Box::new(gen_doc(r, depth - 1, budget))),
        7..=9 => D::Group(Box::new(gen_doc(r, depth - 1, budget))),
        10 => D::RawGroup(Box::new(gen_doc(r, depth - 1, budget)), r.chance(1, 2)),
        11 | 12 => D::IfBreak(
            Box::new(gen_doc(r, depth - 1, budget)),
            Box::new(gen_doc(r, depth - 1, budget)),
        ),
        _ => D::LineSuffix(Box::new(gen_doc(r, depth - 1, budget))),
    }
}

fn t(s: &str) -> D {
    D::Text(s.to_string())
}

fn ident(r: &mut Rng) -> D {
    let n = 1 + r.usize(12);
    let c = *r.pick(&['a', 'b', 'k', 'é', '日']);
    D::Text(std::iter::repeat(c).take(n).collect())
}

fn trailing_comment(r: &mut Rng) -> D {
    // `Trivia::trailing_doc`
    let mut parts = vec![];
    for _ in 0..1 + r.usize(2) {
        parts.push(D::LineSuffix(Box::new(D::Text(format!(" // c{}", r.below(100))))));
        parts.push(D::BreakParent);
    }
    D::Concat(parts)
}

fn leading_trivia(r: &mut Rng) -> D {
    // `trivia_doc`
    let mut parts = vec![];
    for _ in 0..1 + r.usize(3) {
        if r.chance(1, 3) {
            parts.push(D::HardLine);
        } else {
            parts.push(D::Text(format!("// lead{}", r.below(100))));
            parts.push(D::HardLine);
        }
    }
    D::Concat(parts)
}

/// Docs shaped like the ones `format.rs` builds (bracketed lists, chains with `~>` if-breaks,
/// blocks with leading bars, sequences, trivia).
pub fn gen_fmt_doc(r: &mut Rng, depth: usize) -> D {
    if depth == 0 {
        return ident(r);
    }
    let with_trivia = |r: &mut Rng, body: D| -> D {
        match r.below(8) {
            0 => D::Concat(vec![leading_trivia(r), body, D::Nil]),
            1 => D::Concat(vec![D::Nil, body, trailing_comment(r)]),
            2 => D::Concat(vec![leading_trivia(r), body, trailing_comment(r)]),
            _ => D::Concat(vec![D::Nil, body, D::Nil]),
        }
    };
    match r.below(7) {
        0 | 1 => {
            // bracketed
            let n = 1 + r.usize(5);
            let mut items = vec![];
            for i in 0..n {
                if i > 0 {
                    items.push(D::Concat(vec![t(","), D::Line]));
                }
                let item = gen_fmt_doc(r, depth - 1);
                items.push(with_trivia(r, item));
            }
            let trailing = if r.chance(2, 3) { D::IfBreak(Box::new(t(",")), Box::new(D::Nil)) } else { D::Nil };
            D::Group(Box::new(D::Concat(vec![
                t(if r.chance(1, 2) { "[" } else { "Name[" }),
                D::Nest(2, Box::new(D::Concat(vec![D::SoftLine, D::Concat(items), trailing]))),
                D::SoftLine,
                t("]"),
            ])))
        }
        2 | 3 => {
            // chain
            let n = 2 + r.usize(5);
            let mut parts = vec![];
            for i in 0..n {
                if i > 0 {
                    if r.chance(2, 3) {
                        parts.push(D::Line);
                        parts.push(D::IfBreak(Box::new(t("~> ")), Box::new(D::Nil)));
                    } else {
                        parts.push(t(" "));
                    }
                }
                parts.push(gen_fmt_doc(r, depth - 1));
            }
            let inner = D::Concat(parts);
            let inner = if r.chance(1, 3) { D::Concat(vec![inner, D::BreakParent]) } else { inner };
            if r.chance(1, 3) {
                D::Group(Box::new(D::Concat(vec![
                    t("name ="),
                    D::Nest(2, Box::new(D::Concat(vec![D::Line, inner]))),
                ])))
            } else {
                D::Concat(vec![D::Nil, D::Group(Box::new(inner))])
            }
        }
        4 => {
            // multi-branch block
            let n = 2 + r.usize(3);
            let mut parts = vec![];
            for i in 0..n {
                parts.push(D::Line);
                parts.push(if r.chance(1, 5) { leading_trivia(r) } else { D::Nil });
                parts.push(if i == 0 { D::IfBreak(Box::new(t("| ")), Box::new(D::Nil)) } else { t("| ") });
                let cond = gen_fmt_doc(r, depth - 1);
                let body = gen_fmt_doc(r, depth - 1);
                parts.push(D::Concat(vec![cond, t(" => "), body]));
            }
            let inner = D::Concat(parts);
            let inner = if r.chance(1, 2) { D::Concat(vec![inner, D::BreakParent]) } else { inner };
            D::Group(Box::new(D::Concat(vec![t("{"), D::Nest(2, Box::new(inner)), D::Line, t("}")])))
        }
        5 => {
            // sequence
            let n = 1 + r.usize(4);
            let first = gen_fmt_doc(r, depth - 1);
            let first = with_trivia(r, first);
            let mut rest = vec![];
            for _ in 1..n {
                if r.chance(1, 4) {
                    rest.push(D::HardLine);
                    rest.push(D::HardLine);
                } else {
                    rest.push(D::Concat(vec![D::IfBreak(Box::new(D::Nil), Box::new(t(","))), D::Line]));
                }
                let item = gen_fmt_doc(r, depth - 1);
                rest.push(with_trivia(r, item));
            }
            D::Group(Box::new(D::Concat(vec![first, D::Nest(*r.pick(&[0usize, 2]), Box::new(D::Concat(rest)))])))
        }
        _ => {
            // multi-line string
            let mut docs = vec![t("\"\"\"")];
            for _ in 0..r.usize(4) {
                docs.push(D::HardLine);
                docs.push(if r.chance(1, 3) { t("") } else { ident(r) });
            }
            docs.push(D::HardLine);
            docs.push(t("\"\"\""));
            D::Concat(docs)
        }
    }
}

/// "Separable" docs for the engine oracle: main-stream atoms are lowercase ASCII letters, atoms under
/// a `LineSuffix` are digits, atoms under an `IfBreak` are uppercase; no atom contains whitespace.
pub fn gen_sep_doc(r: &mut Rng, depth: usize, in_suffix: bool, in_ifbreak: bool, nested_suffix_ok: bool, budget: &mut usize) -> D {
    let atom = |r: &mut Rng| -> D {
        let n = 1 + r.usize(6);
        let alphabet: &[u8] = if in_ifbreak { b"ABCDEFGH" } else if in_suffix { b"0123456789" } else { b"abcdefghijklmnop" };
        D::Text((0..n).map(|_| alphabet[r.usize(alphabet.len())] as char).collect())
    };
    if *budget == 0 {
        return atom(r);
    }
    *budget -= 1;
    if depth == 0 || r.chance(1, 4) {
        return match r.below(12) {
            0 => D::Nil,
            1..=5 => atom(r),
            6 | 7 => D::Line,
            8 | 9 => D::SoftLine,
            10 => D::HardLine,
            _ => D::BreakParent,
        };
    }
    match r.below(14) {
        0..=4 => {
            let n = 1 + r.usize(7);
            D::Concat((0..n).map(|_| gen_sep_doc(r, depth - 1, in_suffix, in_ifbreak, nested_suffix_ok, budget)).collect())
        }
        5 | 6 => D::Nest(*r.pick(&[0usize, 2, 4]), Box::new(gen_sep_doc(r, depth - 1, in_suffix, in_ifbreak, nested_suffix_ok, budget))),
        7..=9 => D::Group(Box::new(gen_sep_doc(r, depth - 1, in_suffix, in_ifbreak, nested_suffix_ok, budget))),
        10 => D::RawGroup(Box::new(gen_sep_doc(r, depth - 1, in_suffix, in_ifbreak, nested_suffix_ok, budget)), r.chance(1, 2)),
        11 | 12 => D::IfBreak(
            Box::new(gen_sep_doc(r, depth - 1, in_suffix, true, nested_suffix_ok, budget)),
            Box::new(gen_sep_doc(r, depth - 1, in_suffix, true, nested_suffix_ok, budget)),
        ),
        _ => {
            if in_ifbreak || (in_suffix && !nested_suffix_ok) {
                atom(r)
            } else {
                D::LineSuffix(Box::new(gen_sep_doc(r, depth - 1, true, in_ifbreak, nested_suffix_ok, budget)))
            }
        }
    }
}

/// Document-order atoms of a separable doc: (main stream, suffix stream), skipping `IfBreak`s.
pub fn sep_streams(d: &D, in_suffix: bool, main: &mut String, suf: &mut String) {
    match d {
        D::Text(t) => {
            if in_suffix {
                suf.push_str(t)
            } else {
                main.push_str(t)
            }
        }
        D::Concat(ds) => ds.iter().for_each(|x| sep_streams(x, in_suffix, main, suf)),
        D::Nest(_, x) | D::RawGroup(x, _) | D::Group(x) => sep_streams(x, in_suffix, main, suf),
        D::LineSuffix(x) => sep_streams(x, true, main, suf),
        D::IfBreak(..) => {}
        _ => {}
    }
}
