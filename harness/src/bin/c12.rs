//! C12 — builtins are total and agree with simple reference models.
//!
//! Every name in the live registry is called in-process through
//! `BuiltinRegistry::get_implementation(name)` on arguments generated from its *declared*
//! parameter `TypeSpec`, biased to boundary magnitudes; the same call goes to the Lean model
//! (`qm_c12`). Oracle on the implementation: no panic, ever; and agreement with the model, whose
//! answers are the reference (theorems `C12.*` relate it to the plain specification).
use num_bigint::BigInt;
use qverif::run::{Builtins, Exec};
use qverif::{Ev, Model, Opts, Rng, catch, hex};
use quiver_core::builtins::{BuiltinResult, TypeSpec};
use quiver_core::value::Value;
use serde_json::json;

/// Structural argument (what both sides see).
#[derive(Clone, Debug, PartialEq, Eq, Hash)]
enum Arg {
    Int(BigInt),
    Bin(Vec<u8>),
    Tup(Vec<Arg>),
}

fn render(a: &Arg) -> String {
    match a {
        Arg::Int(i) => format!("(i {i})"),
        Arg::Bin(b) if b.is_empty() => "(b)".into(),
        Arg::Bin(b) => format!("(b {})", hex(b)),
        Arg::Tup(fs) => {
            let mut s = "(t".to_string();
            for f in fs {
                s.push(' ');
                s.push_str(&render(f));
            }
            s.push(')');
            s
        }
    }
}

fn boundary_ints() -> Vec<BigInt> {
    let mut v: Vec<BigInt> = vec![];
    let two = BigInt::from(2);
    for k in [0u32, 1, 2, 3, 7, 8, 15, 16, 31, 32, 33, 48, 62, 63, 64, 65, 127, 128] {
        let p = two.pow(k);
        for d in [-1i32, 0, 1] {
            v.push(&p + d);
            v.push(-(&p + d));
        }
    }
    for s in [0i64, 1, -1, 2, -2, 3, 4, 5, 8, 9, 10, 16, 24, 255, 256, -255, -256, 1000, 4096] {
        v.push(BigInt::from(s));
    }
    v
}

fn gen_int(r: &mut Rng, pool: &[BigInt]) -> BigInt {
    match r.below(10) {
        0..=4 => pool[r.usize(pool.len())].clone(),
        5..=6 => BigInt::from(r.range(-40, 40)),
        7 => BigInt::from(r.next() as i64),
        8 => BigInt::from(r.next() as i64) * BigInt::from(r.next() as i64) * BigInt::from(r.next() as i64),
        _ => BigInt::from(r.range(-70000, 70000)),
    }
}

fn gen_bin(r: &mut Rng) -> Vec<u8> {
    let n = match r.below(10) {
        0 => 0,
        1 => 1,
        2 => 4,
        3 => 8,
        4 => 16,
        5 => 9,
        6 => r.usize(40),
        7 => 32,
        _ => r.usize(12),
    };
    match r.below(4) {
        0 => vec![0u8; n],
        1 => vec![0xffu8; n],
        _ => r.bytes(n),
    }
}

fn gen_arg(spec: &TypeSpec, r: &mut Rng, pool: &[BigInt]) -> Option<Arg> {
    Some(match spec {
        TypeSpec::Integer => Arg::Int(gen_int(r, pool)),
        TypeSpec::Binary => Arg::Bin(gen_bin(r)),
        TypeSpec::Tuple(_, fields) => {
            let mut v = vec![];
            for (_, f) in fields {
                v.push(gen_arg(f, r, pool)?);
            }
            Arg::Tup(v)
        }
        TypeSpec::Union(vs) => {
            let i = r.usize(vs.len());
            gen_arg(&vs[i], r, pool)?
        }
        _ => return None,
    })
}

fn to_value(a: &Arg, ex: &mut Exec) -> Value {
    match a {
        Arg::Int(i) => Value::Integer(i.clone()),
        Arg::Bin(b) => Value::Binary(ex.allocate_binary(b.clone()).expect("allocate")),
        Arg::Tup(fs) => {
            let vs: Vec<Value> = fs.iter().map(|f| to_value(f, ex)).collect();
            // tuple id is irrelevant to builtins (they look at fields only); NIL id for empty
            Value::tuple(if vs.is_empty() { quiver_core::types::NIL } else { 2 }, vs)
        }
    }
}

fn from_value(v: &Value, ex: &Exec) -> String {
    match v {
        Value::Integer(i) => format!("(i {i})"),
        Value::Binary(b) => match ex.get_binary_data(b) {
            Ok(d) => {
                let bytes = d.to_vec();
                if bytes.is_empty() { "(b)".into() } else { format!("(b {})", hex(&bytes)) }
            }
            Err(_) => "(b ?)".into(),
        },
        Value::Tuple(_, fs) => {
            let mut s = "(t".to_string();
            for f in fs.iter() {
                s.push(' ');
                s.push_str(&from_value(f, ex));
            }
            s.push(')');
            s
        }
        other => format!("(other {})", other.type_name()),
    }
}

fn call_impl(b: &Builtins, name: &str, a: &Arg) -> String {
    let f = b.get_implementation(name).expect("registered");
    let r = catch(|| {
        let mut ex = Exec::new(b.clone(), false, 0);
        let v = to_value(a, &mut ex);
        match f(0, &v, &mut ex) {
            Ok(BuiltinResult::Value(v)) => format!("ok {}", from_value(&v, &ex)),
            Ok(BuiltinResult::Action(_)) => "action".to_string(),
            Err(e) => format!("err {}", qverif::canon::error_class(&e)),
        }
    });
    match r {
        Ok(s) => s,
        Err(p) => format!("panic {}", p.lines().next().unwrap_or("")),
    }
}

fn signature_for(name: &str, a: &Arg, impl_out: &str) -> String {
    // canonical description of *what* fails: builtin + outcome kind + coarse argument class
    let kind = if impl_out.starts_with("panic") { "panic" } else { "wrong-value" };
    let class = arg_class(a);
    format!("builtin={name} kind={kind} class={class}")
}

fn int_class(i: &BigInt) -> &'static str {
    let two = BigInt::from(2);
    let a = if i < &BigInt::from(0) { -i.clone() } else { i.clone() };
    if a < two.pow(31) {
        "small"
    } else if a < two.pow(32) {
        "<2^32"
    } else if a < two.pow(63) {
        "<2^63"
    } else if a < two.pow(64) {
        "<2^64"
    } else {
        ">=2^64"
    }
}

fn arg_class(a: &Arg) -> String {
    match a {
        Arg::Int(i) => int_class(i).to_string(),
        Arg::Bin(b) => format!("bin{}", if b.is_empty() { "0" } else if b.len() <= 8 { "<=8" } else { ">8" }),
        Arg::Tup(fs) => fs.iter().map(arg_class).collect::<Vec<_>>().join(","),
    }
}

fn main() {
    qverif::quiet_panics();
    let opts = Opts::parse();
    let mut ev = Ev::new("C12", &opts);
    ev.rule = "arguments generated from each builtin's declared TypeSpec (boundary-biased integers \
               0,±1,2^k±1 for k up to 128, random 64-bit and multi-limb values; binaries of length \
               0..40 incl. all-zero/all-ones); a case is non-trivial when the implementation \
               returned a value or a clean error for a modelled builtin; distinct by (name, argument)"
        .into();
    // pure families only: integer, binary, vector (the io/reference builtins are effects)
    let b: Builtins = quiver_core::builtins::BuiltinRegistry::with_modules(&[
        quiver_core::builtins::register_binary_builtins,
        quiver_core::builtins::register_integer_builtins,
        quiver_core::builtins::register_vector_builtins,
    ]);
    let mut model = Model::spawn(opts.model.as_ref().expect("--model"));
    let pool = boundary_ints();
    let names = b.get_function_names();
    let per_name = opts.tier.pick(700u64, 20000u64);
    let mut unmodelled = std::collections::BTreeSet::new();
    let mut modelled = std::collections::BTreeSet::new();

    // replay mode: a single (name, arg) from a replay file
    if let Some(p) = &opts.replay {
        let j: serde_json::Value = serde_json::from_str(&std::fs::read_to_string(p).unwrap()).unwrap();
        let req = j["replay"]["request"].as_str().unwrap().to_string();
        let name = req.split_whitespace().nth(1).unwrap().to_string();
        println!("replay request: {req}");
        println!("model: {}", model.ask(&req));
        println!("(re-run `./check C12` to regenerate; implementation side of `{name}` is re-executed by the generator at the recorded seed/case)");
        std::process::exit(0);
    }

    for name in &names {
        let (pspec, _rspec) = b.get_specs(name).unwrap();
        let pspec = pspec.clone();
        if name == "integer_sin" || name == "integer_cos" {
            // floats: only totality is checked
            for i in 0..200u64 {
                let mut r = Rng::for_case(opts.seed ^ 0x51, i);
                let a = Arg::Int(gen_int(&mut r, &pool));
                let out = call_impl(&b, name, &a);
                ev.case(&(name, &a), false);
                if out.starts_with("panic") {
                    ev.violation(&signature_for(name, &a, &out), &format!("{name} panics on {}", render(&a)),
                        json!({"request": format!("call {name} {}", render(&a)), "impl": out}), true);
                }
            }
            ev.hit("float-builtin:totality-only");
            continue;
        }
        let mut name_seed = 0u64;
        for c in name.bytes() {
            name_seed = name_seed.wrapping_mul(131).wrapping_add(c as u64);
        }
        for i in 0..per_name {
            let mut r = Rng::for_case(opts.seed ^ name_seed, i);
            let Some(a) = gen_arg(&pspec, &mut r, &pool) else {
                ev.hit("skipped:ungeneratable-param");
                break;
            };
            let req = format!("call {name} {}", render(&a));
            let impl_out = call_impl(&b, name, &a);
            let model_out = model.ask(&req);
            let impl_kind = impl_out.split_whitespace().next().unwrap_or("").to_string();
            ev.hit(&format!("outcome:{impl_kind}"));
            if model_out == "no-model" {
                unmodelled.insert(name.clone());
                ev.case(&(name, &a), false);
                // totality oracle still applies
                if impl_kind == "panic" {
                    ev.violation(&signature_for(name, &a, &impl_out),
                        &format!("{name} panics on {}: {impl_out}", render(&a)),
                        json!({"request": req, "impl": impl_out, "model": model_out}), true);
                }
                continue;
            }
            modelled.insert(name.clone());
            ev.case(&(name, &a), impl_kind == "ok" || impl_kind == "err");
            ev.sample_sparse(ev.evaluations, 5000, || json!({"request": req, "impl": impl_out, "model": model_out}));
            if impl_kind == "panic" {
                ev.violation(&signature_for(name, &a, &impl_out),
                    &format!("{name} panics on {}: {impl_out}", render(&a)),
                    json!({"request": req, "impl": impl_out, "model": model_out}), true);
            } else if impl_out != model_out {
                // the model is the reference (C12.* theorems): a differing value is a wrong result
                ev.violation(&signature_for(name, &a, &impl_out),
                    &format!("{name} on {} returns `{impl_out}` but the reference model gives `{model_out}`", render(&a)),
                    json!({"request": req, "impl": impl_out, "model": model_out}), true);
            }
        }
    }
    ev.set_extra("builtins_modelled", json!(modelled));
    ev.set_extra("builtins_without_model", json!(unmodelled));
    ev.set_extra("registry_names", json!(names.len()));
    ev.set_extra("model_requests", json!(model.requests));
    std::process::exit(ev.finish());
}
