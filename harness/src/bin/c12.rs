//! C12 — builtins are total and agree with simple reference models.
//!
//! Every name in the live pure registry (integer, binary, vector families) is called in-process
//! through `BuiltinRegistry::get_implementation(name)` under `catch_unwind` and compared with the
//! Lean model `qm_c12` (`callBuiltin`), whose answers are the reference (theorems `C12.*` relate it
//! to the plain specification). Oracles evaluated on the implementation itself:
//!   * no panic, ever;
//!   * shape independence: the same call with every binary argument rebuilt as a random rope of
//!     equal content (chains of the real constructor builtins binary_new / binary_slice /
//!     binary_concat / binary_repeat, or the `BinaryData` smart constructors directly) must give
//!     the same result;
//!   * arguments are not modified by the call (in-place flattening by `materialize` must be
//!     content preserving);
//!   * agreement with the model on every call (flat and rope-shaped);
//!   * for a sample, the same call through a compiled `[args] __name__` program.
//! Stages: regression corpus (corpus/C12/*.txt, the F1–F4 reproducers first) → generated stream
//! per builtin (domain-biased + TypeSpec-driven + malformed) → maximal-size binaries (lazy ropes,
//! O(1) builtins) → compiled-program sample → (thorough) the boundary stream again in a
//! `--release` build, where overflow wraps silently instead of panicking.
use num_bigint::BigInt;
use num_traits::{Signed, Zero};
use qverif::run::{Builtins, Exec};
use qverif::{Ev, Model, Opts, Rng, catch, hex};
use quiver_core::BinaryData;
use quiver_core::builtins::{BuiltinResult, TypeSpec};
use quiver_core::value::{Binary, Value};
use serde_json::json;
use std::rc::Rc;

const MAX: usize = 16 * 1024 * 1024;
const BIG: usize = 65536; // results longer than this are compared by digest

// ---------------------------------------------------------------------------------------------
// arguments
// ---------------------------------------------------------------------------------------------

/// A rope expression: evaluated with the smart constructors on both sides.
#[derive(Clone, Debug, PartialEq, Eq, Hash)]
enum RopeX {
    Owned(Vec<u8>),
    Zeroed(usize),
    Slice(Box<RopeX>, usize, usize),
    Concat(Box<RopeX>, Box<RopeX>),
    Tiled(Box<RopeX>, usize),
}

impl RopeX {
    fn len(&self) -> usize {
        match self {
            RopeX::Owned(b) => b.len(),
            RopeX::Zeroed(n) => *n,
            RopeX::Slice(_, _, l) => *l,
            RopeX::Concat(a, b) => a.len() + b.len(),
            RopeX::Tiled(u, c) => u.len().saturating_mul(*c),
        }
    }
    fn render(&self) -> String {
        match self {
            RopeX::Owned(b) if b.is_empty() => "(o)".into(),
            RopeX::Owned(b) => format!("(o {})", hex(b)),
            RopeX::Zeroed(n) => format!("(z {n})"),
            RopeX::Slice(p, o, l) => format!("(s {} {o} {l})", p.render()),
            RopeX::Concat(a, b) => format!("(c {} {})", a.render(), b.render()),
            RopeX::Tiled(u, c) => format!("(x {} {c})", u.render()),
        }
    }
    /// flat content (small ropes only)
    fn content(&self) -> Vec<u8> {
        match self {
            RopeX::Owned(b) => b.clone(),
            RopeX::Zeroed(n) => vec![0u8; *n],
            RopeX::Slice(p, o, l) => p.content()[*o..*o + *l].to_vec(),
            RopeX::Concat(a, b) => {
                let mut v = a.content();
                v.extend(b.content());
                v
            }
            RopeX::Tiled(u, c) => {
                let unit = u.content();
                let mut v = vec![];
                for _ in 0..*c {
                    v.extend_from_slice(&unit);
                }
                v
            }
        }
    }
    /// structural boundaries of the rope in content coordinates: leaf ends, concat seams, tile
    /// boundaries (first, second and last tile), slice ends
    fn bounds(&self, base: usize, out: &mut Vec<usize>) {
        match self {
            RopeX::Owned(_) | RopeX::Zeroed(_) => {
                out.push(base);
                out.push(base + self.len());
            }
            RopeX::Concat(a, b) => {
                a.bounds(base, out);
                b.bounds(base + a.len(), out);
            }
            RopeX::Tiled(u, c) => {
                let ul = u.len();
                let mut ks = vec![0usize, 1, c.saturating_sub(1)];
                ks.dedup();
                for k in ks {
                    if k < *c {
                        u.bounds(base + k * ul, out);
                    }
                }
                out.push(base + ul * *c);
            }
            RopeX::Slice(p, off, l) => {
                let mut pb = vec![];
                p.bounds(0, &mut pb);
                for x in pb {
                    if x >= *off && x <= *off + *l {
                        out.push(base + (x - *off));
                    }
                }
                out.push(base);
                out.push(base + *l);
            }
        }
    }
    /// bytes that are special for the structure: first/last byte of tiled units, bytes at concat
    /// seams, parent bytes just outside a slice window
    fn special_bytes(&self, out: &mut Vec<u8>) {
        match self {
            RopeX::Owned(_) | RopeX::Zeroed(_) => {}
            RopeX::Concat(a, b) => {
                if let Some(x) = a.content().last() {
                    out.push(*x);
                }
                if let Some(x) = b.content().first() {
                    out.push(*x);
                }
                a.special_bytes(out);
                b.special_bytes(out);
            }
            RopeX::Tiled(u, _) => {
                let c = u.content();
                if let (Some(f), Some(l)) = (c.first(), c.last()) {
                    out.push(*f);
                    out.push(*l);
                }
                u.special_bytes(out);
            }
            RopeX::Slice(p, off, l) => {
                let c = p.content();
                if *off > 0 {
                    out.push(c[*off - 1]);
                }
                if *off + *l < c.len() {
                    out.push(c[*off + *l]);
                }
                p.special_bytes(out);
            }
        }
    }
    /// bytes of the small owned leaves (cheap also on maximal ropes)
    fn leaf_bytes(&self, out: &mut Vec<u8>) {
        match self {
            RopeX::Owned(b) if b.len() <= 64 => {
                if let (Some(f), Some(l)) = (b.first(), b.last()) {
                    out.push(*f);
                    out.push(*l);
                }
                out.extend_from_slice(b);
            }
            RopeX::Owned(_) | RopeX::Zeroed(_) => {}
            RopeX::Slice(p, _, _) | RopeX::Tiled(p, _) => p.leaf_bytes(out),
            RopeX::Concat(a, b) => {
                a.leaf_bytes(out);
                b.leaf_bytes(out);
            }
        }
    }
    fn nodes(&self) -> usize {
        match self {
            RopeX::Owned(_) | RopeX::Zeroed(_) => 1,
            RopeX::Slice(p, _, _) | RopeX::Tiled(p, _) => 1 + p.nodes(),
            RopeX::Concat(a, b) => 1 + a.nodes() + b.nodes(),
        }
    }
    fn kind(&self) -> &'static str {
        match self {
            RopeX::Owned(_) => "owned",
            RopeX::Zeroed(_) => "zeroed",
            RopeX::Slice(..) => "slice",
            RopeX::Concat(..) => "concat",
            RopeX::Tiled(..) => "tiled",
        }
    }
    /// Build with the `BinaryData` smart constructors.
    fn build_direct(&self) -> BinaryData {
        match self {
            RopeX::Owned(b) => BinaryData::new(b.clone()),
            RopeX::Zeroed(n) => BinaryData::zeroed(*n),
            RopeX::Slice(p, o, l) => BinaryData::slice(Rc::new(p.build_direct()), *o, *l).expect("generator makes in-range slices"),
            RopeX::Concat(a, b) => BinaryData::concat(Rc::new(a.build_direct()), Rc::new(b.build_direct())),
            RopeX::Tiled(u, c) => BinaryData::tiled(Rc::new(u.build_direct()), *c),
        }
    }
    /// Build through chains of the real constructor builtins.
    fn build_via_builtins(&self, b: &Builtins, ex: &mut Exec) -> Result<Binary, String> {
        let call = |name: &str, v: Value, ex: &mut Exec| -> Result<Binary, String> {
            let f = b.get_implementation(name).ok_or("unregistered")?;
            match f(0, &v, ex) {
                Ok(BuiltinResult::Value(Value::Binary(x))) => Ok(x),
                Ok(_) => Err(format!("{name}: non-binary result")),
                Err(e) => Err(format!("{name}: {e:?}")),
            }
        };
        match self {
            RopeX::Owned(bytes) => ex.allocate_binary(bytes.clone()).map_err(|e| format!("{e:?}")),
            RopeX::Zeroed(n) => call("binary_new", Value::Integer(BigInt::from(*n)), ex),
            RopeX::Slice(p, o, l) => {
                let pb = p.build_via_builtins(b, ex)?;
                call("binary_slice", tuple(vec![Value::Binary(pb), Value::Integer(BigInt::from(*o)), Value::Integer(BigInt::from(*o + *l))]), ex)
            }
            RopeX::Concat(x, y) => {
                let xb = x.build_via_builtins(b, ex)?;
                let yb = y.build_via_builtins(b, ex)?;
                call("binary_concat", tuple(vec![Value::Binary(xb), Value::Binary(yb)]), ex)
            }
            RopeX::Tiled(u, c) => {
                let ub = u.build_via_builtins(b, ex)?;
                call("binary_repeat", tuple(vec![Value::Binary(ub), Value::Integer(BigInt::from(*c))]), ex)
            }
        }
    }
}

/// Structural argument (what both sides see).
#[derive(Clone, Debug, PartialEq, Eq, Hash)]
enum Arg {
    Int(BigInt),
    Bin(Vec<u8>),
    Rope(RopeX),
    Tup(Vec<Arg>),
}

fn tuple(vs: Vec<Value>) -> Value {
    // tuple id is irrelevant to builtins (they look at fields only); NIL id for empty
    Value::tuple(if vs.is_empty() { quiver_core::types::NIL } else { 2 }, vs)
}

fn render(a: &Arg) -> String {
    match a {
        Arg::Int(i) => format!("(i {i})"),
        Arg::Bin(b) if b.is_empty() => "(b)".into(),
        Arg::Bin(b) => format!("(b {})", hex(b)),
        Arg::Rope(r) => format!("(r {})", r.render()),
        Arg::Tup(fs) => {
            let mut s = "(t".to_string();
            for f in fs {
                s.push(' ');
                s.push_str(&render(f));
            }
            s.push(')');
            s
        }
    }
}

// --- a tiny S-expression reader for corpus / replay requests ---------------------------------

#[derive(Debug, Clone)]
enum Sx {
    A(String),
    L(Vec<Sx>),
}

fn sx_parse(s: &str) -> Option<Vec<Sx>> {
    let toks: Vec<String> = s.replace('(', " ( ").replace(')', " ) ").split_whitespace().map(|x| x.to_string()).collect();
    fn go(t: &[String], i: &mut usize) -> Option<Vec<Sx>> {
        let mut out = vec![];
        while *i < t.len() {
            match t[*i].as_str() {
                "(" => {
                    *i += 1;
                    let inner = go(t, i)?;
                    if *i >= t.len() || t[*i] != ")" {
                        return None;
                    }
                    *i += 1;
                    out.push(Sx::L(inner));
                }
                ")" => return Some(out),
                a => {
                    out.push(Sx::A(a.to_string()));
                    *i += 1;
                }
            }
        }
        Some(out)
    }
    let mut i = 0;
    let r = go(&toks, &mut i)?;
    if i == toks.len() { Some(r) } else { None }
}

fn rope_of_sx(x: &Sx) -> Option<RopeX> {
    let Sx::L(xs) = x else { return None };
    let atom = |k: usize| -> Option<&str> { if let Some(Sx::A(a)) = xs.get(k) { Some(a.as_str()) } else { None } };
    Some(match (atom(0)?, xs.len()) {
        ("o", 1) => RopeX::Owned(vec![]),
        ("o", 2) => RopeX::Owned(qverif::unhex(atom(1)?)),
        ("z", 2) => RopeX::Zeroed(atom(1)?.parse().ok()?),
        ("s", 4) => RopeX::Slice(Box::new(rope_of_sx(&xs[1])?), atom(2)?.parse().ok()?, atom(3)?.parse().ok()?),
        ("c", 3) => RopeX::Concat(Box::new(rope_of_sx(&xs[1])?), Box::new(rope_of_sx(&xs[2])?)),
        ("x", 3) => RopeX::Tiled(Box::new(rope_of_sx(&xs[1])?), atom(2)?.parse().ok()?),
        _ => return None,
    })
}

fn arg_of_sx(x: &Sx) -> Option<Arg> {
    let Sx::L(xs) = x else { return None };
    let Sx::A(tag) = xs.first()? else { return None };
    Some(match (tag.as_str(), xs.len()) {
        ("i", 2) => {
            let Sx::A(z) = &xs[1] else { return None };
            Arg::Int(z.parse().ok()?)
        }
        ("b", 1) => Arg::Bin(vec![]),
        ("b", 2) => {
            let Sx::A(h) = &xs[1] else { return None };
            Arg::Bin(qverif::unhex(h))
        }
        ("r", 2) => Arg::Rope(rope_of_sx(&xs[1])?),
        ("t", _) => Arg::Tup(xs[1..].iter().map(arg_of_sx).collect::<Option<Vec<_>>>()?),
        _ => return None,
    })
}

/// `call <name> <arg>` → (name, arg)
fn parse_request(line: &str) -> Option<(String, Arg)> {
    let xs = sx_parse(line)?;
    match xs.as_slice() {
        [Sx::A(c), Sx::A(name), a] if c == "call" => Some((name.clone(), arg_of_sx(a)?)),
        _ => None,
    }
}

// ---------------------------------------------------------------------------------------------
// implementation side
// ---------------------------------------------------------------------------------------------

/// Representation invariant of a rope on the implementation side (the `Rope.Stored` of the model:
/// cached lengths right, windows inside parents, nothing beyond the size limit). `Some(why)` when
/// it is broken — such a rope must not be flattened (a wrapped `Tiled` length would run away).
fn rope_defect(d: &BinaryData) -> Option<String> {
    let mut stack = vec![d];
    let mut visited = 0usize;
    while let Some(n) = stack.pop() {
        visited += 1;
        if visited > 2_000_000 {
            return None;
        }
        match n {
            BinaryData::Owned(v) => {
                if v.len() > MAX {
                    return Some(format!("owned leaf of {} bytes exceeds the size limit", v.len()));
                }
            }
            BinaryData::Zeroed(l) => {
                if *l > MAX {
                    return Some(format!("zeroed leaf of {l} bytes exceeds the size limit"));
                }
            }
            BinaryData::Slice { parent, offset, length } => {
                if offset.checked_add(*length).is_none_or(|e| e > parent.len()) {
                    return Some(format!("slice window {offset}+{length} outside its parent of length {}", parent.len()));
                }
                stack.push(parent);
            }
            BinaryData::Concat { left, right, total_length } => {
                if left.len().checked_add(right.len()) != Some(*total_length) || *total_length > MAX {
                    return Some(format!("concat caches length {total_length} for children of {} and {} bytes", left.len(), right.len()));
                }
                stack.push(left);
                stack.push(right);
            }
            BinaryData::Tiled { unit, count } => {
                match unit.len().checked_mul(*count) {
                    Some(t) if t <= MAX => {}
                    _ => return Some(format!("tiled node of {} x {count} bytes (cached length {})", unit.len(), n.len())),
                }
                stack.push(unit);
            }
        }
    }
    None
}

fn render_data(d: &BinaryData) -> String {
    if let Some(why) = rope_defect(d) {
        return format!("(ill-formed-rope {})", why.replace(['(', ')'], ""));
    }
    let n = d.len();
    if n <= BIG {
        let bytes = d.to_vec();
        if bytes.is_empty() { "(b)".into() } else { format!("(b {})", hex(&bytes)) }
    } else {
        let probes: Vec<String> = [0, 1, n / 4, n / 3, n / 2, n - n / 3, n - 2, n - 1]
            .iter()
            .map(|&i| match d.byte_at(i) {
                Some(b) => format!("{b:02x}"),
                None => "--".to_string(),
            })
            .collect();
        format!("(B {n} {})", probes.join(" "))
    }
}

fn from_value(v: &Value, ex: &Exec) -> String {
    match v {
        Value::Integer(i) => format!("(i {i})"),
        Value::Binary(b) => match ex.get_binary_data(b) {
            Ok(d) => render_data(d),
            Err(_) => "(b ?)".into(),
        },
        Value::Tuple(_, fs) => {
            let mut s = "(t".to_string();
            for f in fs.iter() {
                s.push(' ');
                s.push_str(&from_value(f, ex));
            }
            s.push(')');
            s
        }
        other => format!("(other {})", other.type_name()),
    }
}

/// how rope arguments are realised on the implementation side
#[derive(Clone, Copy, PartialEq, Eq, Debug)]
enum Build {
    Direct,
    ViaBuiltins,
}

fn to_value(a: &Arg, b: &Builtins, ex: &mut Exec, how: Build, bins: &mut Vec<(Binary, String)>) -> Result<Value, String> {
    Ok(match a {
        Arg::Int(i) => Value::Integer(i.clone()),
        Arg::Bin(bytes) => {
            let h = ex.allocate_binary(bytes.clone()).map_err(|e| format!("{e:?}"))?;
            bins.push((h, String::new()));
            Value::Binary(h)
        }
        Arg::Rope(r) => {
            let h = match how {
                Build::Direct => ex.allocate_binary_data(r.build_direct()).map_err(|e| format!("{e:?}"))?,
                Build::ViaBuiltins => r.build_via_builtins(b, ex)?,
            };
            bins.push((h, String::new()));
            Value::Binary(h)
        }
        Arg::Tup(fs) => {
            let mut vs = vec![];
            for f in fs {
                vs.push(to_value(f, b, ex, how, bins)?);
            }
            tuple(vs)
        }
    })
}

struct ImplOut {
    /// `ok <value>` | `err <Class>` | `panic <msg>` | `setup-failed <why>`
    out: String,
    /// set when an argument binary's content differs after the call
    arg_modified: Option<String>,
}

fn call_impl(b: &Builtins, name: &str, a: &Arg, how: Build) -> ImplOut {
    let f = b.get_implementation(name).expect("registered");
    let r = catch(|| {
        let mut ex = Exec::new(b.clone(), false, 0);
        let mut bins = vec![];
        let v = match to_value(a, b, &mut ex, how, &mut bins) {
            Ok(v) => v,
            Err(e) => return ImplOut { out: format!("setup-failed {e}"), arg_modified: None },
        };
        for (h, before) in bins.iter_mut() {
            *before = render_data(ex.get_binary_data(h).unwrap());
        }
        let out = match f(0, &v, &mut ex) {
            Ok(BuiltinResult::Value(v)) => format!("ok {}", from_value(&v, &ex)),
            Ok(BuiltinResult::Action(_)) => "action".to_string(),
            Err(e) => format!("err {}", qverif::canon::error_class(&e)),
        };
        let mut arg_modified = None;
        for (h, before) in &bins {
            let after = render_data(ex.get_binary_data(h).unwrap());
            if &after != before {
                arg_modified = Some(format!("argument binary {before} became {after}"));
            }
        }
        ImplOut { out, arg_modified }
    });
    match r {
        Ok(s) => s,
        Err(p) => ImplOut { out: format!("panic {}", p.lines().next().unwrap_or("")), arg_modified: None },
    }
}

/// The same call through a compiled program `[args] __name__` (flat, small arguments only).
fn source_of(a: &Arg) -> Option<String> {
    Some(match a {
        Arg::Int(i) => format!("{i}"),
        Arg::Bin(b) if !b.is_empty() && b.len() <= 64 => format!("0x{}", hex(b)),
        Arg::Tup(fs) if !fs.is_empty() => {
            let parts: Option<Vec<String>> = fs.iter().map(source_of).collect();
            format!("[{}]", parts?.join(", "))
        }
        _ => return None,
    })
}

fn call_compiled(b: &Builtins, name: &str, a: &Arg) -> Option<String> {
    let src = format!("{} __{}__", source_of(a)?, name);
    let unit = match qverif::run::compile_source(&src, &Default::default(), b) {
        Ok(u) => u,
        Err(_) => return None, // statically rejected (e.g. literal outside the parameter type)
    };
    let bc = unit.program.to_bytecode(Some(unit.entry));
    let (out, ex) = qverif::run::run_sync(bc, b, false);
    Some(match out {
        qverif::run::RunOutcome::Value(v) => format!("ok {}", from_value(&v, ex.as_ref().unwrap())),
        qverif::run::RunOutcome::Error(e) => format!("err {}", qverif::canon::error_class(&e)),
        qverif::run::RunOutcome::Panic(p) => format!("panic {}", p.lines().next().unwrap_or("")),
    })
}

// ---------------------------------------------------------------------------------------------
// generators
// ---------------------------------------------------------------------------------------------

fn boundary_ints() -> Vec<BigInt> {
    let mut v: Vec<BigInt> = vec![];
    let two = BigInt::from(2);
    for k in [0u32, 1, 2, 3, 7, 8, 15, 16, 24, 31, 32, 33, 48, 61, 62, 63, 64, 65, 127, 128] {
        let p = two.pow(k);
        for d in [-1i32, 0, 1] {
            v.push(&p + d);
            v.push(-(&p + d));
        }
    }
    for s in [0i64, 1, -1, 2, -2, 3, 4, 5, 8, 9, 10, 16, 24, 255, 256, -255, -256, 1000, 4096] {
        v.push(BigInt::from(s));
    }
    v
}

struct Gen {
    pool: Vec<BigInt>,
}

impl Gen {
    fn int(&self, r: &mut Rng) -> BigInt {
        match r.below(10) {
            0..=4 => self.pool[r.usize(self.pool.len())].clone(),
            5..=6 => BigInt::from(r.range(-40, 40)),
            7 => BigInt::from(r.next() as i64),
            8 => BigInt::from(r.next() as i64) * BigInt::from(r.next() as i64) * BigInt::from(r.next() as i64),
            _ => BigInt::from(r.range(-70000, 70000)),
        }
    }
    /// an integer that is usually `good`, sometimes a neighbour, sometimes a boundary magnitude
    fn near(&self, r: &mut Rng, good: i64) -> BigInt {
        match r.below(16) {
            0 => BigInt::from(good) + 1,
            1 => BigInt::from(good) - 1,
            2 => self.pool[r.usize(self.pool.len())].clone(),
            3 => BigInt::from(good) + BigInt::from(2).pow(*r.pick(&[32u32, 61, 63, 64])),
            _ => BigInt::from(good),
        }
    }
    fn bytes(&self, r: &mut Rng, n: usize) -> Vec<u8> {
        match r.below(8) {
            0 => vec![0u8; n],
            1 => vec![0xffu8; n],
            2 => {
                // periodic content (so that a tiled shape of equal content exists)
                let p = 1 + r.usize(4);
                let unit = r.bytes(p);
                (0..n).map(|i| unit[i % p]).collect()
            }
            3 => {
                // few distinct byte values (searches hit and miss)
                let alphabet = [0u8, 1, 0x80, 0xff, 0x0a];
                (0..n).map(|_| *r.pick(&alphabet)).collect()
            }
            _ => r.bytes(n),
        }
    }
    fn bin(&self, r: &mut Rng) -> Vec<u8> {
        let n = match r.below(12) {
            0 => 0,
            1 => 1,
            2 => 4,
            3 => 8,
            4 => 16,
            5 => 9,
            6 => r.usize(40),
            7 => 32,
            8 => 10,
            9 => 64 + r.usize(200),
            _ => r.usize(12),
        };
        self.bytes(r, n)
    }
    /// a packed vector of `lanes` lanes of `w` bytes with boundary-biased lane values
    fn lanes(&self, r: &mut Rng, w: usize, lanes: usize) -> Vec<u8> {
        let mut out = vec![];
        for _ in 0..lanes {
            let v: i64 = match r.below(10) {
                0 => 0,
                1 => 1,
                2 => -1,
                3 => if w == 4 { i32::MAX as i64 } else { i64::MAX },
                4 => if w == 4 { i32::MIN as i64 } else { i64::MIN },
                5 => r.range(-1000, 1000),
                6 => if w == 4 { (r.next() as i32) as i64 } else { r.next() as i64 },
                7 => if w == 4 { 46341 } else { 3037000500 },
                8 => if w == 4 { i32::MAX as i64 - r.range(0, 3) } else { i64::MAX - r.range(0, 3) },
                _ => r.range(-70000, 70000),
            };
            if w == 4 {
                out.extend_from_slice(&(v as i32).to_le_bytes());
            } else {
                out.extend_from_slice(&v.to_le_bytes());
            }
        }
        out
    }
    fn width(&self, r: &mut Rng) -> (usize, BigInt) {
        let w = if r.chance(1, 2) { 4usize } else { 8 };
        let given = match r.below(14) {
            0 => self.pool[r.usize(self.pool.len())].clone(),
            1 => BigInt::from(*r.pick(&[0i64, 1, 2, 3, 5, 16, -4, -8, 12])),
            _ => BigInt::from(w),
        };
        (w, given)
    }

    /// Domain-biased argument for a known builtin; `None` → fall back to the TypeSpec generator.
    fn for_name(&self, name: &str, r: &mut Rng) -> Option<Arg> {
        use Arg::*;
        let bi = |v: i64| Int(BigInt::from(v));
        Some(match name {
            "binary_new" => Int(match r.below(8) {
                0 => BigInt::from(MAX as i64 + r.range(-2, 2)),
                1 => self.int(r),
                2 => BigInt::from(BIG as i64 + r.range(-2, 2)),
                _ => BigInt::from(r.range(0, 300)),
            }),
            "binary_length" | "binary_not" | "binary_popcount" | "binary_hash32" | "binary_hash64" => Bin(self.bin(r)),
            "binary_concat" | "binary_and" | "binary_or" | "binary_xor" => {
                let a = self.bin(r);
                let b = if r.chance(1, 3) { self.bytes(r, a.len()) } else { self.bin(r) };
                Tup(vec![Bin(a), Bin(b)])
            }
            "binary_repeat" => {
                let a = self.bin(r);
                let c = match r.below(10) {
                    0 => self.int(r),
                    1 => {
                        // product around the size limit
                        let l = a.len().max(1);
                        BigInt::from((MAX / l) as i64 + r.range(-1, 2))
                    }
                    2 => BigInt::from(2).pow(*r.pick(&[32u32, 62, 63, 64])) + r.range(-1, 1),
                    _ => BigInt::from(r.range(0, 6)),
                };
                Tup(vec![Bin(a), Int(c)])
            }
            "binary_shift" => {
                let a = self.bin(r);
                let bits = (a.len() * 8) as i64;
                let amt = match r.below(12) {
                    0 => self.int(r),
                    1 => BigInt::from(2).pow(32) * r.range(-3, 3) + r.range(-9, 9),
                    2 => BigInt::from(8 * r.range(-(a.len() as i64) - 1, a.len() as i64 + 1)),
                    3 => BigInt::from(bits + r.range(-9, 9)),
                    4 => BigInt::from(-bits + r.range(-9, 9)),
                    5 => BigInt::from(*r.pick(&[i64::MAX, i64::MIN, i64::MIN + 1, u32::MAX as i64, u32::MAX as i64 + 1, -(u32::MAX as i64) - 1])),
                    _ => BigInt::from(r.range(-bits - 2, bits + 2)),
                };
                Tup(vec![Bin(a), Int(amt)])
            }
            "binary_get" | "binary_set" => {
                let a = self.bin(r);
                let len = a.len() as i64;
                let nb = match r.below(8) {
                    0 => 64,
                    1 => 1,
                    2 => 8,
                    3 => *r.pick(&[7i64, 9, 15, 16, 17, 31, 32, 33, 57, 63]),
                    _ => r.range(1, 64),
                };
                let bit = r.range(0, 7);
                let need = (bit + nb + 7) / 8;
                let bo = if len >= need && r.chance(5, 6) { r.range(0, len - need) } else { r.range(0, len + 1) };
                let bo = match r.below(14) {
                    0 => self.int(r),
                    1 => BigInt::from(2).pow(*r.pick(&[61u32, 62, 63])) - r.range(0, 2),
                    2 => BigInt::from(len - need + 1),
                    _ => BigInt::from(bo),
                };
                let bit = self.near(r, bit);
                let nbv = self.near(r, nb);
                if name == "binary_get" {
                    Tup(vec![Bin(a), Int(bo), Int(bit), Int(nbv)])
                } else {
                    let maxv: BigInt = BigInt::from(2).pow(nb as u32) - 1;
                    let v = match r.below(10) {
                        0 => maxv.clone() + 1,
                        1 => maxv.clone(),
                        2 => BigInt::zero(),
                        3 => self.int(r),
                        4 => BigInt::from(-1),
                        _ => BigInt::from(r.next()) % (maxv.clone() + 1),
                    };
                    Tup(vec![Bin(a), Int(bo), Int(bit), Int(v), Int(nbv)])
                }
            }
            "binary_slice" => {
                let a = self.bin(r);
                let len = a.len() as i64;
                let s = r.range(0, len);
                let e = r.range(s, len);
                let (s, e) = match r.below(10) {
                    0 => (self.int(r), BigInt::from(e)),
                    1 => (BigInt::from(s), self.int(r)),
                    2 => (BigInt::from(e + 1), BigInt::from(s)),
                    3 => (BigInt::from(0), BigInt::from(len)),
                    4 => (BigInt::from(s), BigInt::from(len + 1)),
                    _ => (BigInt::from(s), BigInt::from(e)),
                };
                Tup(vec![Bin(a), Int(s), Int(e)])
            }
            "binary_index" => {
                let a = self.bin(r);
                let byte = match r.below(8) {
                    0 => self.int(r),
                    1 => BigInt::from(*r.pick(&[-1i64, 255, 256, 0])),
                    2 | 3 if !a.is_empty() => BigInt::from(a[r.usize(a.len())]),
                    _ => BigInt::from(r.below(256)),
                };
                let off = match r.below(8) {
                    0 => self.int(r),
                    1 => BigInt::from(a.len() as i64 + r.range(-1, 1)),
                    _ => BigInt::from(r.range(0, a.len() as i64)),
                };
                Tup(vec![Bin(a), Int(byte), Int(off)])
            }
            "binary_append" => {
                let a = self.bin(r);
                let nb = r.range(1, 8);
                let maxv: BigInt = BigInt::from(2).pow(8 * nb as u32) - 1;
                let v = match r.below(10) {
                    0 => maxv.clone() + 1,
                    1 => maxv.clone(),
                    2 => self.int(r),
                    3 => BigInt::from(i64::MAX) + r.range(-1, 1),
                    _ => BigInt::from(r.next()) % (maxv.clone() + 1),
                };
                Tup(vec![Bin(a), Int(v), Int(self.near(r, nb))])
            }
            "vector_add" | "vector_subtract" | "vector_multiply" | "vector_less_than" | "vector_equal"
            | "vector_greater_than" | "vector_dot" => {
                let (w, given) = self.width(r);
                let n = r.usize(6);
                let a = self.lanes(r, w, n);
                let mut b = match r.below(10) {
                    0 => self.lanes(r, w, n + 1),
                    1 => a.clone(),
                    _ => self.lanes(r, w, n),
                };
                let mut a = a;
                if r.chance(1, 12) {
                    a.push(7);
                    if r.chance(1, 2) {
                        b.push(9);
                    }
                }
                Tup(vec![Bin(a), Bin(b), Int(given)])
            }
            "vector_take" => {
                let (w, given) = self.width(r);
                let n = r.usize(7);
                let mut d = self.lanes(r, w, n);
                let mn = match r.below(8) {
                    0 => n + 1,
                    1 if n > 0 => n - 1,
                    _ => n,
                };
                let mask: Vec<u8> = (0..mn).map(|_| *r.pick(&[0u8, 1, 1, 0xff, 2])).collect();
                if r.chance(1, 12) {
                    d.push(1);
                }
                Tup(vec![Bin(d), Int(given), Bin(mask)])
            }
            "vector_get" => {
                let (w, given) = self.width(r);
                let n = r.usize(6);
                let mut d = self.lanes(r, w, n);
                if r.chance(1, 12) {
                    d.push(1);
                }
                let idx = match r.below(10) {
                    0 => self.int(r),
                    1 => BigInt::from(2).pow(64) - r.range(0, 2),
                    2 => BigInt::from(n as i64 + r.range(-1, 1)),
                    3 => BigInt::from(u64::MAX / w as u64) + r.range(-1, 2),
                    _ => BigInt::from(r.range(0, n.max(1) as i64 - 1)),
                };
                Tup(vec![Bin(d), Int(given), Int(idx)])
            }
            "vector_push" => {
                let (w, given) = self.width(r);
                let n = r.usize(5);
                let mut d = self.lanes(r, w, n);
                if r.chance(1, 12) {
                    d.push(1);
                }
                let lim: BigInt = BigInt::from(2).pow(8 * w as u32 - 1);
                let v = match r.below(10) {
                    0 => self.int(r),
                    1 => lim.clone(),
                    2 => lim.clone() - 1,
                    3 => -lim.clone(),
                    4 => -lim.clone() - 1,
                    5 => BigInt::from(i32::MAX) + r.range(-1, 2),
                    _ => BigInt::from(r.range(-100000, 100000)),
                };
                Tup(vec![Bin(d), Int(given), Int(v)])
            }
            "vector_sum" => {
                let (w, given) = self.width(r);
                let n = r.usize(8);
                let mut d = self.lanes(r, w, n);
                if r.chance(1, 12) {
                    d.push(1);
                }
                Tup(vec![Bin(d), Int(given)])
            }
            "integer_sqrt" => {
                // perfect squares and their neighbours at every magnitude (floor must not round up)
                let k = match r.below(6) {
                    0 => BigInt::from(r.next() >> 32),
                    1 => BigInt::from(r.next() >> 11),
                    2 => BigInt::from(r.next()),
                    3 => BigInt::from(2).pow(*r.pick(&[26u32, 27, 31, 32, 33, 52, 53, 63, 64])) + r.range(-2, 2),
                    4 => BigInt::from(r.next()) * BigInt::from(r.next()),
                    _ => BigInt::from(r.range(0, 100000)),
                };
                match r.below(8) {
                    0 => Int(self.int(r)),
                    _ => Int(&k * &k + r.range(-2, 2)),
                }
            }
            "integer_shift" => Tup(vec![
                Int(self.int(r)),
                match r.below(4) {
                    0 => Int(self.int(r)),
                    1 => bi(*r.pick(&[63i64, 64, 65, -63, -64, -65, i64::MIN, i64::MAX, 0])),
                    _ => bi(r.range(-70, 70)),
                },
            ]),
            _ => return None,
        })
    }

    /// Argument generated from the declared parameter `TypeSpec`.
    fn from_spec(&self, spec: &TypeSpec, r: &mut Rng) -> Option<Arg> {
        Some(match spec {
            TypeSpec::Integer => Arg::Int(self.int(r)),
            TypeSpec::Binary => Arg::Bin(self.bin(r)),
            TypeSpec::Tuple(_, fields) => {
                let mut v = vec![];
                for (_, f) in fields {
                    v.push(self.from_spec(f, r)?);
                }
                Arg::Tup(v)
            }
            TypeSpec::Union(vs) => {
                let i = r.usize(vs.len());
                self.from_spec(&vs[i], r)?
            }
            _ => return None,
        })
    }

    /// An ill-typed argument: wrong kinds / wrong arity (the declared type is violated on purpose).
    fn malformed(&self, spec: &TypeSpec, r: &mut Rng) -> Option<Arg> {
        let good = self.from_spec(spec, r)?;
        Some(match good {
            Arg::Tup(mut fs) => match r.below(4) {
                0 => {
                    fs.pop();
                    Arg::Tup(fs)
                }
                1 => {
                    fs.push(Arg::Int(self.int(r)));
                    Arg::Tup(fs)
                }
                2 => {
                    let i = r.usize(fs.len().max(1));
                    if let Some(f) = fs.get_mut(i) {
                        *f = match f {
                            Arg::Int(_) => Arg::Bin(self.bin(r)),
                            _ => Arg::Int(self.int(r)),
                        };
                    }
                    Arg::Tup(fs)
                }
                _ => fs.into_iter().next().unwrap_or(Arg::Tup(vec![])),
            },
            Arg::Int(_) => if r.chance(1, 2) { Arg::Bin(self.bin(r)) } else { Arg::Tup(vec![]) },
            _ => if r.chance(1, 2) { Arg::Int(self.int(r)) } else { Arg::Tup(vec![Arg::Int(self.int(r))]) },
        })
    }

    /// A random rope expression whose content is exactly `bytes`.
    fn shape(&self, bytes: &[u8], r: &mut Rng, depth: u32) -> RopeX {
        let n = bytes.len();
        if depth == 0 {
            return RopeX::Owned(bytes.to_vec());
        }
        match r.below(9) {
            0 => RopeX::Owned(bytes.to_vec()),
            1 if n > 0 && bytes.iter().all(|&b| b == 0) => RopeX::Zeroed(n),
            1 | 2 => {
                // concat at a random split point (empty sides included)
                let k = if r.chance(1, 6) { *r.pick(&[0usize, n]) } else { r.usize(n + 1) };
                RopeX::Concat(Box::new(self.shape(&bytes[..k], r, depth - 1)), Box::new(self.shape(&bytes[k..], r, depth - 1)))
            }
            3 | 4 => {
                // a window into a larger parent
                let pre = if r.chance(1, 3) { 0 } else { r.usize(5) };
                let post = if r.chance(1, 3) { 0 } else { r.usize(5) };
                let mut parent = r.bytes(pre);
                parent.extend_from_slice(bytes);
                parent.extend(r.bytes(post));
                RopeX::Slice(Box::new(self.shape(&parent, r, depth - 1)), pre, n)
            }
            5 | 6 => {
                // tiled, when the content is periodic
                let mut found = None;
                for p in 1..=n / 2 {
                    if n % p == 0 && (0..n).all(|i| bytes[i] == bytes[i % p]) {
                        found = Some(p);
                        break;
                    }
                }
                match found {
                    Some(p) => RopeX::Tiled(Box::new(self.shape(&bytes[..p], r, depth - 1)), n / p),
                    None => {
                        let k = r.usize(n + 1);
                        RopeX::Concat(Box::new(self.shape(&bytes[..k], r, depth - 1)), Box::new(self.shape(&bytes[k..], r, depth - 1)))
                    }
                }
            }
            7 => {
                // left-leaning spine of small pieces (what repeated vector_push / append builds)
                let piece = *r.pick(&[1usize, 4, 8]);
                let mut acc: Option<RopeX> = None;
                let mut i = 0;
                while i < n {
                    let j = (i + piece).min(n);
                    let leaf = RopeX::Owned(bytes[i..j].to_vec());
                    acc = Some(match acc {
                        None => leaf,
                        Some(a) => RopeX::Concat(Box::new(a), Box::new(leaf)),
                    });
                    i = j;
                }
                acc.unwrap_or(RopeX::Owned(vec![]))
            }
            _ => {
                // tiled of count 1 / count 0 prefix: degenerate normalisations
                if r.chance(1, 2) {
                    RopeX::Tiled(Box::new(self.shape(bytes, r, depth - 1)), 1)
                } else {
                    RopeX::Concat(Box::new(RopeX::Tiled(Box::new(RopeX::Owned(r.bytes(3))), 0)), Box::new(self.shape(bytes, r, depth - 1)))
                }
            }
        }
    }

    /// Replace every flat binary by a random rope of equal content.
    fn reshape(&self, a: &Arg, r: &mut Rng) -> Arg {
        match a {
            Arg::Bin(b) => {
                let depth = 1 + r.below(3) as u32;
                Arg::Rope(self.shape(b, r, depth))
            }
            Arg::Tup(fs) => Arg::Tup(fs.iter().map(|f| self.reshape(f, r)).collect()),
            other => other.clone(),
        }
    }

    /// A structured rope built bottom-up (the shape comes first, the content follows from it).
    fn gen_rope(&self, r: &mut Rng, depth: u32) -> RopeX {
        let alphabet = [0x0au8, 0x61, 0x62, 0x00, 0xff, 0x0a];
        let leaf = |r: &mut Rng| -> RopeX {
            match r.below(6) {
                0 => RopeX::Zeroed(r.usize(5)),
                1 => {
                    // a unit whose first byte does not recur (search hits only at tile starts)
                    let n = 2 + r.usize(3);
                    let mut v = vec![*r.pick(&[0x0au8, 0x00, 0xff])];
                    for _ in 1..n {
                        v.push(*r.pick(&[0x61u8, 0x62, 0x63]));
                    }
                    RopeX::Owned(v)
                }
                2 => {
                    let n = 1 + r.usize(8);
                    RopeX::Owned(r.bytes(n))
                }
                _ => {
                    let n = r.usize(7);
                    RopeX::Owned((0..n).map(|_| *r.pick(&alphabet)).collect())
                }
            }
        };
        if depth == 0 {
            return leaf(r);
        }
        match r.below(8) {
            0 => leaf(r),
            1 | 2 | 3 => {
                let u = self.gen_rope(r, depth - 1);
                RopeX::Tiled(Box::new(u), 2 + r.usize(3))
            }
            4 | 5 => RopeX::Concat(Box::new(self.gen_rope(r, depth - 1)), Box::new(self.gen_rope(r, depth - 1))),
            _ => {
                let p = self.gen_rope(r, depth - 1);
                let n = p.len();
                let off = r.usize(n + 1);
                let l = r.usize(n - off + 1);
                RopeX::Slice(Box::new(p), off, l)
            }
        }
    }

    /// an offset drawn relative to the structure of `rope`: a boundary, or one off it, or past the end
    fn offset_near(&self, rope: &RopeX, r: &mut Rng) -> i64 {
        let mut b = vec![];
        rope.bounds(0, &mut b);
        let n = rope.len() as i64;
        match r.below(12) {
            0 => n + r.range(0, 2),
            1 => r.range(0, n.max(1)),
            _ => (*r.pick(&b) as i64 + r.range(-1, 1)).max(0),
        }
    }

    fn byte_near(&self, rope: &RopeX, content: &[u8], r: &mut Rng) -> i64 {
        let mut sp = vec![];
        rope.special_bytes(&mut sp);
        match r.below(10) {
            0 => (0..=255u8).find(|x| !content.contains(x)).unwrap_or(7) as i64, // absent byte
            1 if !content.is_empty() => content[0] as i64,
            2 if !content.is_empty() => content[content.len() - 1] as i64,
            3 if !content.is_empty() => content[r.usize(content.len())] as i64,
            _ if !sp.is_empty() => *r.pick(&sp) as i64,
            _ => r.below(256) as i64,
        }
    }

    /// Shape-first case for the builtins whose integer arguments address positions inside the
    /// binary: the rope is generated first and offsets / bytes are drawn relative to its
    /// structure (tile boundaries, last tile, concat seams ±1, slice ends, just past the end).
    /// Returns (flat twin, rope-shaped call).
    fn shape_first(&self, name: &str, r: &mut Rng) -> Option<(Arg, Arg)> {
        use Arg::*;
        let bi = |v: i64| Int(BigInt::from(v));
        let depth = 1 + r.below(3) as u32;
        let rope = self.gen_rope(r, depth);
        let c = rope.content();
        let n = c.len() as i64;
        let rest: Vec<Arg> = match name {
            "binary_index" => vec![bi(self.byte_near(&rope, &c, r)), bi(self.offset_near(&rope, r))],
            "binary_slice" => {
                let a = self.offset_near(&rope, r);
                let b = self.offset_near(&rope, r);
                let (a, b) = if r.chance(5, 6) { (a.min(b), a.max(b)) } else { (a, b) };
                vec![bi(a), bi(b)]
            }
            "binary_get" | "binary_set" => {
                let nb = match r.below(5) {
                    0 => 64,
                    1 => 8,
                    2 => *r.pick(&[1i64, 7, 9, 16, 33, 63]),
                    _ => r.range(1, 64),
                };
                let bit = r.range(0, 7);
                let need = (bit + nb + 7) / 8;
                // windows that start before a boundary and straddle it
                let bo = (self.offset_near(&rope, r) - r.range(0, need)).max(0);
                let bo = if r.chance(1, 8) { (n - need).max(0) + r.range(0, 1) } else { bo };
                if name == "binary_get" {
                    vec![bi(bo), bi(bit), bi(nb)]
                } else {
                    let v = BigInt::from(r.next()) % BigInt::from(2).pow(nb as u32);
                    vec![bi(bo), bi(bit), Int(v), bi(nb)]
                }
            }
            "binary_shift" => {
                let k = 8 * self.offset_near(&rope, r) + r.range(-1, 1) * r.range(0, 7);
                vec![bi(if r.chance(1, 2) { k } else { -k })]
            }
            "binary_repeat" => vec![bi(r.range(0, 4))],
            "binary_append" => {
                let nb = r.range(1, 8);
                vec![Int(BigInt::from(r.next()) % BigInt::from(2).pow(8 * nb as u32)), bi(nb)]
            }
            "vector_get" => {
                let w = *r.pick(&[4i64, 8]);
                vec![bi(w), bi(self.offset_near(&rope, r) / w + r.range(-1, 1))]
            }
            "vector_push" => vec![bi(*r.pick(&[4i64, 8])), bi(r.range(-3, 3))],
            "vector_sum" => vec![bi(*r.pick(&[4i64, 8]))],
            "binary_length" | "binary_not" | "binary_popcount" | "binary_hash32" | "binary_hash64" => {
                return Some((Bin(c), Rope(rope)));
            }
            "binary_concat" | "binary_and" | "binary_or" | "binary_xor" => {
                let other = self.gen_rope(r, depth);
                let oc = other.content();
                return Some(if r.chance(1, 2) {
                    (Tup(vec![Bin(c), Bin(oc)]), Tup(vec![Rope(rope), Rope(other)]))
                } else {
                    (Tup(vec![Bin(oc), Bin(c)]), Tup(vec![Rope(other), Rope(rope)]))
                });
            }
            _ => return None,
        };
        let mut flat = vec![Bin(c)];
        flat.extend(rest.iter().cloned());
        let mut shaped = vec![Rope(rope)];
        shaped.extend(rest);
        Some((Tup(flat), Tup(shaped)))
    }

    /// Lazy ropes of (near-)maximal size; never flattened on either side.
    fn big_rope(&self, r: &mut Rng) -> RopeX {
        let n = MAX - r.usize(3);
        match r.below(6) {
            0 => RopeX::Zeroed(n),
            1 => {
                let unit = *r.pick(&[1usize, 2, 4, 8, 16]);
                RopeX::Tiled(Box::new(RopeX::Owned(r.bytes(unit))), MAX / unit)
            }
            2 => RopeX::Concat(Box::new(RopeX::Zeroed(MAX - 8)), Box::new(RopeX::Owned(r.bytes(8)))),
            3 => RopeX::Slice(Box::new(RopeX::Zeroed(MAX)), 1 + r.usize(3), MAX - 8),
            4 => RopeX::Concat(Box::new(RopeX::Owned(r.bytes(5))), Box::new(RopeX::Tiled(Box::new(RopeX::Owned(vec![0xab, 0xcd])), (MAX - 5) / 2))),
            _ => RopeX::Zeroed(n / 2),
        }
    }

    /// calls on maximal binaries for the builtins that work in O(1) on ropes
    fn big_case(&self, r: &mut Rng) -> (String, Arg) {
        use Arg::*;
        let big = self.big_rope(r);
        let n = big.len() as i64;
        let bi = |v: i64| Int(BigInt::from(v));
        match r.below(11) {
            0 => ("binary_length".into(), Rope(big)),
            1 => {
                let nb = r.range(1, 64);
                let bit = r.range(0, 7);
                let need = (bit + nb + 7) / 8;
                let bo = *r.pick(&[0i64, n - need, n - need + 1, n / 2, n - 9, n - 8]);
                ("binary_get".into(), Tup(vec![Rope(big), bi(bo), bi(bit), bi(nb)]))
            }
            2 => {
                let nb = r.range(1, 64);
                let bit = r.range(0, 7);
                let need = (bit + nb + 7) / 8;
                let bo = *r.pick(&[0i64, n - need, n - need + 1, n / 2]);
                let v = BigInt::from(r.next()) % BigInt::from(2).pow(nb as u32);
                ("binary_set".into(), Tup(vec![Rope(big), bi(bo), bi(bit), Int(v), bi(nb)]))
            }
            3 => {
                let s = *r.pick(&[0i64, 1, n / 2, n - 1, n]);
                let e = *r.pick(&[n, n - 1, n / 2 + 3, n + 1, s]);
                ("binary_slice".into(), Tup(vec![Rope(big), bi(s), bi(e)]))
            }
            4 => {
                // byte from the leaves (first / last byte of a tiled unit …), offset relative to
                // the structure (last tile, seam, end)
                let mut lb = vec![0u8, 1, 0xff];
                big.leaf_bytes(&mut lb);
                let byte = *r.pick(&lb) as i64;
                let mut b = vec![];
                big.bounds(0, &mut b);
                let off = match r.below(4) {
                    0 => *r.pick(&[0i64, 1, n / 2, n - 9, n - 2, n - 1, n]),
                    _ => (*r.pick(&b) as i64 + r.range(-2, 2)).max(0),
                };
                ("binary_index".into(), Tup(vec![Rope(big), bi(byte), bi(off)]))
            }
            5 => {
                let small = self.bin(r);
                let extra = RopeX::Zeroed(*r.pick(&[0usize, 1, 2, 3, 8]));
                if r.chance(1, 2) {
                    ("binary_concat".into(), Tup(vec![Rope(big), Bin(small)]))
                } else {
                    ("binary_concat".into(), Tup(vec![Rope(extra), Rope(big)]))
                }
            }
            6 => ("binary_repeat".into(), Tup(vec![Rope(big), bi(*r.pick(&[0i64, 1, 2, 1 << 40]))])),
            7 => {
                let nb = r.range(1, 8);
                ("binary_append".into(), Tup(vec![Rope(big), bi(r.range(0, 255)), bi(nb)]))
            }
            8 => ("vector_push".into(), Tup(vec![Rope(big), bi(*r.pick(&[4i64, 8])), bi(r.range(-5, 5))])),
            9 => ("binary_new".into(), bi(MAX as i64 + r.range(-1, 1))),
            _ => {
                let unit = self.bin(r);
                let l = unit.len().max(1);
                ("binary_repeat".into(), Tup(vec![Bin(unit), bi((MAX / l) as i64 + r.range(-1, 1))]))
            }
        }
    }
}

// ---------------------------------------------------------------------------------------------
// classification for signatures / counters
// ---------------------------------------------------------------------------------------------

fn int_class(i: &BigInt) -> &'static str {
    let two = BigInt::from(2);
    let a = i.abs();
    if a < two.pow(31) {
        "small"
    } else if a < two.pow(32) {
        "<2^32"
    } else if a < two.pow(63) {
        "<2^63"
    } else if a < two.pow(64) {
        "<2^64"
    } else {
        ">=2^64"
    }
}

fn arg_class(a: &Arg) -> String {
    match a {
        Arg::Int(i) => int_class(i).to_string(),
        Arg::Bin(b) => format!("bin{}", if b.is_empty() { "0" } else if b.len() <= 8 { "<=8" } else { ">8" }),
        Arg::Rope(r) => format!("rope-{}", r.kind()),
        Arg::Tup(fs) => fs.iter().map(arg_class).collect::<Vec<_>>().join(","),
    }
}

fn outcome_kind(s: &str) -> &str {
    s.split_whitespace().next().unwrap_or("")
}

fn count_arg(ev: &mut Ev, a: &Arg) {
    match a {
        Arg::Int(i) => ev.hit(&format!("arg-int:{}{}", if i.is_negative() { "-" } else { "" }, int_class(i))),
        Arg::Bin(b) => ev.hit(&format!("arg-bin-len:{}", match b.len() { 0 => "0", 1..=8 => "1-8", 9..=40 => "9-40", _ => ">40" })),
        Arg::Rope(r) => {
            ev.hit(&format!("arg-rope-root:{}", r.kind()));
            ev.hit(&format!("arg-rope-nodes:{}", match r.nodes() { 1 => "1", 2..=3 => "2-3", 4..=8 => "4-8", _ => ">8" }));
        }
        Arg::Tup(fs) => fs.iter().for_each(|f| count_arg(ev, f)),
    }
}

// ---------------------------------------------------------------------------------------------
// one checked call
// ---------------------------------------------------------------------------------------------

struct Ctx<'a> {
    b: &'a Builtins,
    model: &'a mut Model,
    ev: &'a mut Ev,
    modelled: std::collections::BTreeSet<String>,
    unmodelled: std::collections::BTreeSet<String>,
    stage: &'static str,
}

impl Ctx<'_> {
    fn report(&mut self, name: &str, a: &Arg, kind: &str, what: String, replay: serde_json::Value) {
        let sig = format!("builtin={name} kind={kind} class={}", arg_class(a));
        let mut replay = replay;
        replay["stage"] = json!(self.stage);
        self.ev.violation(&sig, &what, replay, true);
    }

    /// Run one call on the implementation (the model is asked separately, possibly in a batch).
    fn run_impl(&mut self, name: &str, a: &Arg, how: Build, expected: Option<&str>) -> Pending {
        let req = format!("call {name} {}", render(a));
        let io = call_impl(self.b, name, a, how);
        Pending { name: name.to_string(), arg: a.clone(), how, req, io, expected: expected.map(|s| s.to_string()) }
    }

    /// Compare the implementation outcome with the model's answer; returns the implementation outcome.
    fn judge(&mut self, p: Pending, model_out: String) -> String {
        let Pending { name, arg: a, how, req, io, expected } = p;
        let (name, a) = (name.as_str(), &a);
        let kind = outcome_kind(&io.out).to_string();
        self.ev.hit(&format!("outcome:{kind}"));
        if kind == "err" {
            self.ev.hit(&format!("error:{}", &io.out[4..]));
        }
        if kind == "setup-failed" {
            // the argument itself could not be built (generator bug, not a property failure)
            self.ev.hit("setup-failed");
            return io.out;
        }
        let has_model = model_out != "no-model";
        if has_model {
            self.modelled.insert(name.to_string());
        } else {
            self.unmodelled.insert(name.to_string());
        }
        self.ev.case(&(name, a), has_model && (kind == "ok" || kind == "err"));
        let n = self.ev.evaluations;
        self.ev.sample_sparse(n, 20000, || json!({"request": req, "impl": io.out, "model": model_out}));
        if kind == "panic" {
            self.report(name, a, "panic", format!("{name} panics on {}: {}", render(a), io.out),
                json!({"request": req, "impl": io.out, "model": model_out, "build": format!("{how:?}")}));
        } else if io.out.contains("(ill-formed-rope") {
            // the implementation-side counterpart of `C12.stored_result`: results are stored ropes
            self.report(name, a, "ill-formed-result", format!("{name} on {} returns a rope that violates the representation invariant: {}", render(a), clip(&io.out)),
                json!({"request": req, "impl": io.out, "model": model_out, "build": format!("{how:?}")}));
        } else if let Some(m) = &io.arg_modified {
            self.report(name, a, "argument-modified", format!("{name} on {} modified its argument: {m}", render(a)),
                json!({"request": req, "impl": io.out, "detail": m, "build": format!("{how:?}")}));
        } else if has_model && io.out != model_out {
            // the model is the reference (C12.* theorems): a differing value is a wrong result
            self.report(name, a, "wrong-value",
                format!("{name} on {} returns `{}` but the reference model gives `{model_out}`", render(a), clip(&io.out)),
                json!({"request": req, "impl": io.out, "model": model_out, "build": format!("{how:?}")}));
        }
        if let Some(e) = &expected {
            if &io.out != e {
                self.report(name, a, if kind == "panic" { "panic" } else { "wrong-value" },
                    format!("{name} on {} returns `{}`; the recorded correct answer is `{e}`", render(a), clip(&io.out)),
                    json!({"request": req, "impl": io.out, "expected": e}));
            }
            if has_model && &model_out != e {
                self.ev.violation(&format!("builtin={name} kind=model-vs-corpus"),
                    &format!("model answers `{model_out}` for corpus case `{req}` whose recorded answer is `{e}`"),
                    json!({"request": req, "model": model_out, "expected": e, "broken": format!("correspondence model<->corpus on {name}")}), false);
            }
        }
        io.out
    }

    /// Run one call on the implementation and the model; returns the implementation outcome.
    fn check(&mut self, name: &str, a: &Arg, how: Build, expected: Option<&str>) -> String {
        let p = self.run_impl(name, a, how, expected);
        let model_out = self.model.ask(&p.req);
        self.judge(p, model_out)
    }

    /// A batch of generated cases: each flat call plus the same call with every binary reshaped
    /// (both ways of building the rope). The model answers the whole batch in one pipelined pass.
    fn check_batch_with_shapes(&mut self, g: &Gen, name: &str, cases: Vec<(Arg, Option<Arg>, Rng)>) {
        // (flat pending, optional (shaped arg, shaped pending, how))
        let mut items: Vec<(Arg, Pending, Option<(Arg, Pending, Build)>)> = vec![];
        for (a, twin, mut r) in cases {
            count_arg(self.ev, &a);
            let flat = self.run_impl(name, &a, Build::Direct, None);
            let shaped = match twin {
                Some(t) => t,
                None => g.reshape(&a, &mut r),
            };
            let second = if shaped == a || outcome_kind(&flat.io.out) == "setup-failed" {
                None
            } else {
                count_arg(self.ev, &shaped);
                let how = if r.chance(1, 2) { Build::Direct } else { Build::ViaBuiltins };
                self.ev.hit(&format!("rope-build:{how:?}"));
                let p2 = self.run_impl(name, &shaped, how, None);
                Some((shaped, p2, how))
            };
            items.push((a, flat, second));
        }
        let mut lines: Vec<String> = vec![];
        for (_, f, s) in &items {
            lines.push(f.req.clone());
            if let Some((_, p2, _)) = s {
                lines.push(p2.req.clone());
            }
        }
        let mut answers = self.model.ask_all(&lines).into_iter();
        for (a, f, s) in items {
            let flat = self.judge(f, answers.next().unwrap());
            let Some((shaped, p2, how)) = s else { continue };
            let out2 = self.judge(p2, answers.next().unwrap());
            if outcome_kind(&flat) == "setup-failed" || outcome_kind(&out2) == "setup-failed" {
                continue;
            }
            if out2 != flat && outcome_kind(&out2) != "panic" && outcome_kind(&flat) != "panic" {
                self.report(name, &shaped, "shape-dependent",
                    format!("{name} depends on how its argument was built: `{}` on {} but `{}` on {}", clip(&flat), render(&a), clip(&out2), render(&shaped)),
                    json!({"request": format!("call {name} {}", render(&shaped)), "flat_request": format!("call {name} {}", render(&a)),
                           "impl_flat": flat, "impl_shaped": out2, "build": format!("{how:?}")}));
            }
        }
    }
}

struct Pending {
    name: String,
    arg: Arg,
    how: Build,
    req: String,
    io: ImplOut,
    expected: Option<String>,
}

fn clip(s: &str) -> String {
    if s.len() > 200 { format!("{}…", &s[..200]) } else { s.to_string() }
}

fn name_seed(name: &str) -> u64 {
    let mut s = 0u64;
    for c in name.bytes() {
        s = s.wrapping_mul(131).wrapping_add(c as u64);
    }
    s
}

// ---------------------------------------------------------------------------------------------

fn corpus_dir() -> String {
    // the corpus lives beside the harness sources (never under the repo under test)
    let lean = qverif::lean_dir();
    let root = std::path::Path::new(&lean).parent().map(|p| p.to_path_buf()).unwrap_or_default();
    let local = root.join("corpus/C12");
    if local.is_dir() { local.to_string_lossy().to_string() } else { "/verif/corpus/C12".to_string() }
}

/// corpus line: `call <name> <arg> => <expected outcome>`; `#` comments
fn load_corpus() -> Vec<(String, String, Arg, String)> {
    let mut out = vec![];
    let dir = corpus_dir();
    let mut files: Vec<_> = std::fs::read_dir(&dir).map(|d| d.filter_map(|e| e.ok()).map(|e| e.path()).collect()).unwrap_or_default();
    files.sort();
    for f in files {
        if f.extension().and_then(|e| e.to_str()) != Some("txt") {
            continue;
        }
        let text = std::fs::read_to_string(&f).unwrap_or_default();
        for (ln, line) in text.lines().enumerate() {
            let line = line.trim();
            if line.is_empty() || line.starts_with('#') {
                continue;
            }
            let Some((req, exp)) = line.split_once("=>") else {
                panic!("corpus {}:{}: missing `=>`", f.display(), ln + 1);
            };
            let Some((name, arg)) = parse_request(req.trim()) else {
                panic!("corpus {}:{}: unparsable request", f.display(), ln + 1);
            };
            out.push((format!("{}:{}", f.file_name().unwrap().to_string_lossy(), ln + 1), name, arg, exp.trim().to_string()));
        }
    }
    out
}

fn main() {
    qverif::quiet_panics();
    let opts = Opts::parse();
    let mut ev = Ev::new("C12", &opts);
    ev.rule = "per builtin: domain-biased arguments (valid windows/indices/widths with off-by-one \
               neighbours; boundary integers 0,±1,2^k±1 for k≤128; binaries of length 0..264 incl. \
               all-zero/all-ones/periodic; lane values at i32/i64 limits), arguments from the declared \
               TypeSpec, ill-typed arguments, each also with binaries rebuilt as random ropes of equal \
               content; maximal (16 MiB) lazy ropes for the O(1) builtins; a case is non-trivial when a \
               modelled builtin returned a value or a clean error; distinct by (name, argument)"
        .into();
    // pure families only: integer, binary, vector (the io/reference builtins are effects)
    let b: Builtins = quiver_core::builtins::BuiltinRegistry::with_modules(&[
        quiver_core::builtins::register_binary_builtins,
        quiver_core::builtins::register_integer_builtins,
        quiver_core::builtins::register_vector_builtins,
    ]);
    let boundary_only = opts.has_flag("--boundary-only");
    let mut model = Model::spawn(opts.model.as_ref().expect("--model"));
    let g = Gen { pool: boundary_ints() };
    let names = b.get_function_names();

    // replay mode: re-run one recorded request on both sides
    if let Some(p) = &opts.replay {
        let j: serde_json::Value = serde_json::from_str(&std::fs::read_to_string(p).unwrap()).unwrap();
        let req = j["replay"]["request"].as_str().unwrap().to_string();
        let (name, arg) = parse_request(&req).expect("replay request parses");
        let how = if j["replay"]["build"].as_str() == Some("ViaBuiltins") { Build::ViaBuiltins } else { Build::Direct };
        println!("replay request: {req}");
        println!("impl : {}", call_impl(&b, &name, &arg, how).out);
        println!("model: {}", model.ask(&req));
        if let Some(fr) = j["replay"]["flat_request"].as_str() {
            let (n2, a2) = parse_request(fr).expect("flat request parses");
            println!("flat request: {fr}");
            println!("impl : {}", call_impl(&b, &n2, &a2, Build::Direct).out);
            println!("model: {}", model.ask(fr));
        }
        std::process::exit(0);
    }

    let mut cx = Ctx {
        b: &b,
        model: &mut model,
        ev: &mut ev,
        modelled: Default::default(),
        unmodelled: Default::default(),
        stage: "corpus",
    };

    // 1. regression corpus (recorded correct answers; F1–F4 reproducers first)
    let corpus = load_corpus();
    for (_loc, name, arg, expected) in &corpus {
        if b.get_implementation(name).is_none() {
            cx.ev.hit("corpus:unregistered-name");
            continue;
        }
        cx.check(name, arg, Build::Direct, Some(expected));
        cx.check(name, arg, Build::ViaBuiltins, Some(expected));
        cx.ev.hit("corpus-case");
    }

    // 2. generated stream per builtin
    cx.stage = "generated";
    let per_name = if boundary_only { 1500u64 } else { opts.tier.pick(1400u64, 22000u64) };
    for name in &names {
        let (pspec, _rspec) = b.get_specs(name).unwrap();
        let pspec = pspec.clone();
        let ns = name_seed(name);
        if name == "integer_sin" || name == "integer_cos" {
            // floats: only totality is checked
            for i in 0..200u64 {
                let mut r = Rng::for_case(opts.seed ^ 0x51 ^ ns, i);
                let a = Arg::Int(g.int(&mut r));
                let out = call_impl(&b, name, &a, Build::Direct).out;
                cx.ev.case(&(name, &a), false);
                if out.starts_with("panic") {
                    cx.report(name, &a, "panic", format!("{name} panics on {}", render(&a)), json!({"request": format!("call {name} {}", render(&a)), "impl": out}));
                }
            }
            cx.ev.hit("float-builtin:totality-only");
            continue;
        }
        let mut batch: Vec<(Arg, Option<Arg>, Rng)> = vec![];
        for i in 0..per_name {
            let mut r = Rng::for_case(opts.seed ^ ns, i);
            let pick = r.below(20);
            let a = if pick < 15 {
                match g.for_name(name, &mut r) {
                    Some(a) => {
                        cx.ev.hit("gen:domain-biased");
                        Some(a)
                    }
                    None => {
                        cx.ev.hit("gen:typespec");
                        g.from_spec(&pspec, &mut r)
                    }
                }
            } else if pick < 19 {
                cx.ev.hit("gen:typespec");
                g.from_spec(&pspec, &mut r)
            } else {
                cx.ev.hit("gen:malformed");
                g.malformed(&pspec, &mut r)
            };
            let Some(a) = a else {
                cx.ev.hit("skipped:ungeneratable-param");
                break;
            };
            batch.push((a, None, r));
            if batch.len() >= 256 {
                cx.check_batch_with_shapes(&g, name, std::mem::take(&mut batch));
            }
        }
        // shape-first stream: the rope comes first, positions are drawn relative to its structure
        let shape_first_cases = if boundary_only { 600u64 } else { opts.tier.pick(1200u64, 12000u64) };
        for i in 0..shape_first_cases {
            let mut r = Rng::for_case(opts.seed ^ ns ^ 0x5AFE, i);
            let Some((flat, shaped)) = g.shape_first(name, &mut r) else { break };
            cx.ev.hit("gen:shape-first");
            batch.push((flat, Some(shaped), r));
            if batch.len() >= 256 {
                cx.check_batch_with_shapes(&g, name, std::mem::take(&mut batch));
            }
        }
        if !batch.is_empty() {
            cx.check_batch_with_shapes(&g, name, batch);
        }
    }

    // 3. maximal binaries (lazy ropes, never flattened)
    cx.stage = "maximal";
    let big_cases = if boundary_only { 300u64 } else { opts.tier.pick(800u64, 6000u64) };
    for i in 0..big_cases {
        let mut r = Rng::for_case(opts.seed ^ 0xB16, i);
        let (name, a) = g.big_case(&mut r);
        if b.get_implementation(&name).is_none() {
            continue;
        }
        count_arg(cx.ev, &a);
        cx.ev.hit("maximal-case");
        let how = if r.chance(1, 2) { Build::Direct } else { Build::ViaBuiltins };
        cx.check(&name, &a, how, None);
    }

    // 4. the same call through compiled programs (sample)
    cx.stage = "compiled";
    if !boundary_only {
        let full = qverif::run::builtins();
        let n_compiled = opts.tier.pick(10u64, 60u64);
        let mut to_run: Vec<(String, Arg)> = corpus.iter().map(|(_, n, a, _)| (n.clone(), a.clone())).collect();
        for name in &names {
            if name == "integer_sin" || name == "integer_cos" {
                continue;
            }
            let (pspec, _) = b.get_specs(name).unwrap();
            for i in 0..n_compiled {
                let mut r = Rng::for_case(opts.seed ^ name_seed(name) ^ 0xC0, i);
                let a = g.for_name(name, &mut r).or_else(|| g.from_spec(pspec, &mut r));
                if let Some(a) = a {
                    to_run.push((name.clone(), a));
                }
            }
        }
        for (name, a) in to_run {
            let Some(out_c) = call_compiled(&full, &name, &a) else {
                cx.ev.hit("compiled:skipped");
                continue;
            };
            let out_d = call_impl(&b, &name, &a, Build::Direct).out;
            cx.ev.hit("compiled:compared");
            cx.ev.case(&("compiled", &name, &a), false);
            if out_c != out_d {
                let kind = if outcome_kind(&out_c) == "panic" { "panic" } else { "compiled-differs" };
                cx.report(&name, &a, kind,
                    format!("`{} __{name}__` evaluates to `{}` but the direct call gives `{}`", source_of(&a).unwrap_or_default(), clip(&out_c), clip(&out_d)),
                    json!({"request": format!("call {name} {}", render(&a)), "compiled": out_c, "direct": out_d}));
            }
        }
    }

    let modelled = cx.modelled.clone();
    let unmodelled = cx.unmodelled.clone();
    drop(cx);

    // 5. thorough: the boundary stream again in a release build (overflow wraps silently there)
    if opts.tier == qverif::Tier::Thorough && !boundary_only && !cfg!(not(debug_assertions)) {
        match run_release(&opts) {
            Ok((evals, violations, wall)) => {
                ev.set_extra("release_profile_rerun", json!({"evaluations": evals, "violations": violations, "wall_s": wall}));
                ev.evaluations += evals;
            }
            Err(e) => {
                ev.violation("release-rerun kind=did-not-run", &format!("release-profile rerun did not complete: {e}"),
                    json!({"broken": "release-profile rerun of the boundary stream", "detail": e}), false);
            }
        }
    }

    ev.set_extra("profile", json!(if cfg!(debug_assertions) { "debug (overflow checks on)" } else { "release (overflow wraps)" }));
    ev.set_extra("builtins_modelled", json!(modelled));
    ev.set_extra("builtins_without_model", json!(unmodelled));
    ev.set_extra("registry_names", json!(names.len()));
    ev.set_extra("corpus_cases", json!(corpus.len()));
    ev.set_extra("model_requests", json!(model.requests));
    std::process::exit(ev.finish());
}

/// Build this binary with `--release` into the shared target directory and run its boundary stream.
/// Violations found there are printed by the child (its `VIOLATION` lines are forwarded) and
/// counted here.
fn run_release(opts: &Opts) -> Result<(u64, u64, f64), String> {
    let t0 = std::time::Instant::now();
    let lean = qverif::lean_dir();
    let harness = std::path::Path::new(&lean).parent().ok_or("no parent of lean dir")?.join("harness");
    let st = std::process::Command::new("cargo")
        .args(["build", "--offline", "--release", "--bin", "c12"])
        .current_dir(&harness)
        .env("CARGO_NET_OFFLINE", "true")
        .output()
        .map_err(|e| format!("cargo: {e}"))?;
    if !st.status.success() {
        return Err(format!("cargo build --release failed: {}", String::from_utf8_lossy(&st.stderr).chars().rev().take(1500).collect::<String>().chars().rev().collect::<String>()));
    }
    let target = std::env::var("CARGO_TARGET_DIR").unwrap_or_else(|_| "/verif/.cache/target".to_string());
    let bin = format!("{target}/release/c12");
    let out_json = format!("{}.release.json", opts.out.display());
    let out = std::process::Command::new(&bin)
        .args(["--tier", "thorough", "--seed", &opts.seed.to_string(), "--out", &out_json, "--model"])
        .arg(opts.model.as_ref().unwrap())
        .arg("--boundary-only")
        .output()
        .map_err(|e| format!("{bin}: {e}"))?;
    let stdout = String::from_utf8_lossy(&out.stdout).to_string();
    let j: serde_json::Value = serde_json::from_str(&std::fs::read_to_string(&out_json).map_err(|e| format!("no output from release run: {e}; stdout: {stdout}"))?).map_err(|e| e.to_string())?;
    let evals = j["coverage"]["evaluations"].as_u64().unwrap_or(0);
    let violations = j["violations"].as_u64().unwrap_or(0);
    for l in stdout.lines() {
        if l.starts_with("VIOLATION") || l.starts_with("# ") {
            println!("# [release profile run]");
            println!("{l}");
        }
    }
    if violations > 0 {
        return Err(format!("{violations} violation(s) in the release-profile run, see lines above and {out_json}"));
    }
    let _ = out.status;
    Ok((evals, violations, t0.elapsed().as_secs_f64()))
}
