//! scratch probe (not registered): run one scenario under random schedules, summarise outcomes
#[path = "msys/mod.rs"]
mod msys;
use msys::*;
use qverif::sim::Policy;
use qverif::{Model, Rng};
fn main() {
    qverif::quiet_panics();
    let args: Vec<String> = std::env::args().collect();
    let scripts = parse_scripts(&args[1]).expect("scripts");
    let n: usize = args[2].parse().unwrap();
    let runs: u64 = args[3].parse().unwrap();
    let sc = Scenario { kind: "probe".into(), scripts, terminates: true, confluent: false };
    println!("{}", sc.source());
    let mut model = Model::spawn(std::path::Path::new("/verif/lean/.lake/build/bin/qm_c04"));
    let mut outcomes = std::collections::BTreeMap::new();
    for k in 0..runs {
        let mut r = Rng::for_case(77, k);
        let pol = Policy::random(&mut r, n);
        let (mut sim, req) = start(&sc, n, None).expect("start");
        sim.schedule.clear();
        let mut lock = Lock::new(sim, Some(&mut model));
        lock.ask_model(init_line(&sc, n, req), "init");
        let mut result = None;
        let fin = lock.run_random(&mut r, &pol, 5000, |s| { if result.is_none() { result = s.poll_result(req); } result.is_some() }, true);
        let res = match &result { Some(Ok((v, _))) => show_val(v), Some(Err(e)) => format!("err:{e:?}"), None => "none".into() };
        let key = format!("fin={fin} quiescent={} res={res} mismatch={} faults={} oracle={:?}", lock.sim.quiescent(), lock.mismatch.is_some(), lock.sim.faults.len(), lock.oracle_failures.iter().map(|x| x.1.clone()).collect::<Vec<_>>());
        let e = outcomes.entry(key).or_insert((0, String::new()));
        e.0 += 1;
        if e.1.is_empty() { e.1 = format!("{}\n      {}", lock.schedule().join(" "), snapshot(&lock.sim)); }
    }
    for (k, (n, s)) in outcomes { println!("{n:5} {k}\n      {s}"); }
}
