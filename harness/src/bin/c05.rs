//! C05 — select follows its documented semantics: priority, filters, timeouts.
//!
//! A scenario is a Quiver program: helper processes `q1..qk` (finish immediately / after a countdown /
//! after a `Go` message / never; successfully or with a runtime error), and the process under test
//!   `p = @{ ! [SOURCES] =r, !#Done, ! [#'m, 0] =d1, …, [r, d1, …, dN] }`
//! whose first select has a random combination of source kinds (await / type-only receive / receive
//! with a filter written as a Quiver receive function, possibly slow so that its verdict straddles
//! time slices / timeout); the main process sends messages, `Go`s and sleeps in a random order,
//! then `Done`, then awaits `p`. The program runs on the REAL Environment + Workers under the
//! deterministic simulator with a random schedule, time slice down to 1 instruction, random clock.
//!
//! Correspondence (per worker step of p's worker): the commands the step will consume are read from
//! the queue, the instruction trace of the step tells how often the Select instruction ran; the same
//! events go to the Lean model (`qm_c05`, the definitions of Core/Exec/Select.lean) and the model's
//! state (mailbox, awaiting map, cursors, start time, receiving slot, parked, failed) is compared
//! with the real process after every step.
//!
//! Oracle on the implementation (independent of the machine model): at the step where the first
//! select completes, `selectSpec` is evaluated (by `qm_c05 (spec …)`) on the *harness-observed*
//! delivered messages, arrived results, start time and clock; the value p reports must be that value,
//! the drained rest must be the delivered messages minus the taken one in delivery order, a timeout
//! must not fire before start + duration, a filter's return value must never be yielded, and the run
//! must not hang when the specification says a source is ready.
use qverif::sim::*;
use qverif::{Ev, Model, Opts, Rng, hex};
use quiver_core::bytecode::Instruction;
use quiver_core::executor::verif as xv;
use quiver_core::value::{Binary, Value};
use quiver_environment::Command;
use serde::{Deserialize, Serialize};
use serde_json::json;
use std::collections::{BTreeMap, HashMap};

// ---------------------------------------------------------------------------------------------
// scenario
// ---------------------------------------------------------------------------------------------

#[derive(Clone, Copy, Debug, PartialEq, Eq, Hash, Serialize, Deserialize)]
enum Ty {
    Int,
    Bin,
    Str,
}

#[derive(Clone, Debug, PartialEq, Eq, Hash, Serialize, Deserialize)]
enum Msg {
    Int(i64),
    Bin(Vec<u8>),
    Str(String),
    /// a message of a concrete type that the drain `#'m` does not take: Quiver expression + model rendering
    Custom { qv: String, sx: String },
}

impl Msg {
    fn ty(&self) -> Ty {
        match self {
            Msg::Int(_) => Ty::Int,
            Msg::Bin(_) => Ty::Bin,
            Msg::Str(_) => Ty::Str,
            Msg::Custom { .. } => Ty::Int,
        }
    }
    fn is_custom(&self) -> bool {
        matches!(self, Msg::Custom { .. })
    }
    fn qv(&self) -> String {
        match self {
            Msg::Custom { qv, .. } => qv.clone(),
            Msg::Int(i) => format!("{i}"),
            Msg::Bin(b) => format!("0x{}", hex(b)),
            Msg::Str(s) => format!("\"{s}\""),
        }
    }
    fn sx(&self) -> String {
        match self {
            Msg::Custom { sx, .. } => sx.clone(),
            Msg::Int(i) => format!("(i {i})"),
            Msg::Bin(b) => format!("(b {})", hex(b)),
            Msg::Str(s) => format!("(s {})", hex(s.as_bytes())),
        }
    }
}

#[derive(Clone, Debug, PartialEq, Eq, Hash, Serialize, Deserialize)]
enum Pred {
    Any,
    Even,
    Odd,
    Eq(i64),
    Lt(i64),
    Ge(i64),
    LenLt(usize),
    LenGe(usize),
}

#[derive(Clone, Debug, PartialEq, Eq, Hash, Serialize, Deserialize)]
enum FRes {
    Nil,
    /// non-nil verdict `Ok`
    Ok,
    /// non-nil verdict that is an integer no message ever carries (900..999)
    Int(i64),
    /// `[1, 0] __integer_divide__`
    DivZero,
    /// a send inside the filter (OperationNotAllowed)
    Send,
}

#[derive(Clone, Debug, PartialEq, Eq, Hash, Serialize, Deserialize)]
struct Filter {
    slow: u32,
    clauses: Vec<(Pred, FRes)>,
}

#[derive(Clone, Debug, PartialEq, Eq, Hash, Serialize, Deserialize)]
enum Src {
    Await(usize),
    Recv { tys: Vec<Ty>, filter: Option<Filter> },
    Timeout(String),
    /// type-only receive with a hand-written parameter type; `tags` = the message tags it accepts
    RecvCustom { param: String, tags: Vec<String> },
}

#[derive(Clone, Debug, PartialEq, Eq, Hash, Serialize, Deserialize)]
enum Trigger {
    Now,
    Countdown(u32),
    Go,
}

#[derive(Clone, Debug, PartialEq, Eq, Hash, Serialize, Deserialize)]
struct Helper {
    trigger: Trigger,
    fails: bool,
}

#[derive(Clone, Debug, PartialEq, Eq, Hash, Serialize, Deserialize)]
enum ActKind {
    Send(Msg),
    Go(usize),
}

#[derive(Clone, Debug, PartialEq, Eq, Hash, Serialize, Deserialize)]
struct Act {
    sleep: Option<u64>,
    /// main spins `N slow` before the action (delay in instructions, independent of the clock)
    #[serde(default)]
    spin: u32,
    kind: ActKind,
}

#[derive(Clone, Debug, Default, PartialEq, Eq, Hash, Serialize, Deserialize)]
struct Scenario {
    sources: Vec<Src>,
    helpers: Vec<Helper>,
    script: Vec<Act>,
    final_sleep: Option<u64>,
    /// p does `N slow` before its select (so that messages / results are already there)
    p_delay: u32,
    /// main awaits p, THEN sends `Go` to this helper, sleeps, and awaits p again (a finished
    /// process must keep its result whatever happens to processes it once awaited)
    #[serde(default)]
    after_go: Option<usize>,
    /// false: p returns the constant 7 instead of `[r, d…]`, so that every received value is dropped
    /// and a leaked reference shows up in the executor's refcount check (debug assertion) at completion
    #[serde(default = "yes")]
    report: bool,
    /// extra top-level lines of the FIRST program update (type aliases …), before the helpers
    #[serde(default)]
    prelude: Vec<String>,
    /// definitions at the start of the SECOND program update (they introduce new concrete types)
    #[serde(default)]
    mid_lines: Vec<String>,
    /// submit as three REPL lines = three program updates: [definitions … p] / [mid_lines, script, Done] / [!p]
    #[serde(default)]
    split: bool,
    /// other processes `c_k = @{ !q_h }` that await helper h too, spawned before p
    #[serde(default)]
    co_awaiters: Vec<usize>,
    /// dummy processes spawned before p (they shift p's pid, i.e. its worker)
    #[serde(default)]
    pads: usize,
}

fn yes() -> bool {
    true
}

#[derive(Clone, Debug, Serialize, Deserialize)]
struct Case {
    scenario: Scenario,
    workers: usize,
    quantum: Option<usize>,
    sched_seed: u64,
}

/// Which implementation the model mirrors: `false` = /repo HEAD, `true` = notes/C05-fixes/01 (the select waits
/// for its await answer). FLIP THE DEFAULT when the patch lands; `QVERIF_SELECT_WAITS=0|1` overrides it (used
/// to run the check against a worktree that has the patch).
const SELECT_WAITS_DEFAULT: bool = true;

/// Is the repair notes/C06-fixes/01 (`release_dead_roots`: a dead non-persistent process gives up its mailbox, select
/// state and await maps; `notify_message` drops what can never be received) present in the runtime under test?
/// Detected from the source the harness is linked against; `QVERIF_RELEASE_DEAD=0|1` overrides.
fn release_dead() -> bool {
    match std::env::var("QVERIF_RELEASE_DEAD").ok().as_deref() {
        Some("1") => true,
        Some("0") => false,
        _ => std::fs::read_to_string(format!("{}/quiver-core/src/executor.rs", qverif::repo()))
            .map(|t| t.contains("fn release_dead_roots"))
            .unwrap_or(false),
    }
}

fn select_waits() -> bool {
    match std::env::var("QVERIF_SELECT_WAITS").ok().as_deref() {
        Some("1") => true,
        Some("0") => false,
        _ => SELECT_WAITS_DEFAULT,
    }
}

fn helper_value(i: usize) -> i64 {
    1000 + i as i64
}

fn ty_qv(t: Ty) -> &'static str {
    match t {
        Ty::Int => "'int",
        Ty::Bin => "'bin",
        Ty::Str => "Str['bin]",
    }
}

fn ty_tag(t: Ty) -> &'static str {
    match t {
        Ty::Int => "int",
        Ty::Bin => "bin",
        Ty::Str => "str",
    }
}

fn pred_qv(p: &Pred) -> String {
    match p {
        Pred::Any => "Ok".into(),
        Pred::Even => "[m, 2] __integer_modulo__ =0".into(),
        Pred::Odd => "[m, 2] __integer_modulo__ { =0 => [] | Ok }".into(),
        Pred::Eq(k) => format!("m ={k}"),
        Pred::Lt(k) => format!("[{k}, m] __integer_compare__ =1"),
        Pred::Ge(k) => format!("[{k}, m] __integer_compare__ {{ =1 => [] | Ok }}"),
        Pred::LenLt(k) => format!("[{k}, m __binary_length__] __integer_compare__ =1"),
        Pred::LenGe(k) => format!("[{k}, m __binary_length__] __integer_compare__ {{ =1 => [] | Ok }}"),
    }
}

fn pred_sx(p: &Pred) -> String {
    match p {
        Pred::Any => "any".into(),
        Pred::Even => "even".into(),
        Pred::Odd => "odd".into(),
        Pred::Eq(k) => format!("(eq (i {k}))"),
        Pred::Lt(k) => format!("(lt {k})"),
        Pred::Ge(k) => format!("(ge {k})"),
        Pred::LenLt(k) => format!("(lenlt {k})"),
        Pred::LenGe(k) => format!("(lenge {k})"),
    }
}

fn fres_qv(r: &FRes) -> String {
    match r {
        FRes::Nil => "[]".into(),
        FRes::Ok => "Ok".into(),
        FRes::Int(k) => format!("{k}"),
        FRes::DivZero => "[1, 0] __integer_divide__".into(),
        FRes::Send => "7 sink".into(),
    }
}

fn fres_sx(r: &FRes) -> String {
    match r {
        FRes::Nil => "nil".into(),
        FRes::Ok => "(val (t Ok))".into(),
        FRes::Int(k) => format!("(val (i {k}))"),
        FRes::DivZero => "(fail InvalidArgument)".into(),
        FRes::Send => "(fail OperationNotAllowed)".into(),
    }
}

fn src_qv(s: &Src) -> String {
    match s {
        Src::RecvCustom { param, .. } => format!("#{param}"),
        Src::Await(i) => format!("q{i}"),
        Src::Timeout(ms) => ms.clone(),
        Src::Recv { tys, filter } => {
            let param = if tys.len() == 1 {
                ty_qv(tys[0]).to_string()
            } else {
                format!("({})", tys.iter().map(|t| ty_qv(*t)).collect::<Vec<_>>().join(" | "))
            };
            match filter {
                None => format!("#{param}"),
                Some(f) => {
                    let bind = if tys[0] == Ty::Str { "=Str[m]" } else { "=m" };
                    let slow = if f.slow > 0 { format!("{} slow, ", f.slow) } else { String::new() };
                    let body = if f.clauses.is_empty() {
                        "[]".to_string()
                    } else {
                        let cs: Vec<String> =
                            f.clauses.iter().map(|(p, r)| format!("| {} => {}", pred_qv(p), fres_qv(r))).collect();
                        format!("{{ {} }}", cs.join(" "))
                    };
                    format!("#{param} {{ {bind}, {slow}{body} }}")
                }
            }
        }
    }
}

fn src_sx(s: &Src) -> String {
    match s {
        Src::RecvCustom { tags, .. } => format!("(recv ({}) none)", tags.join(" ")),
        Src::Await(i) => format!("(await {})", i + 1),
        Src::Timeout(ms) => format!("(timeout {ms})"),
        Src::Recv { tys, filter } => {
            let tags: Vec<&str> = tys.iter().map(|t| ty_tag(*t)).collect();
            match filter {
                None => format!("(recv ({}) none)", tags.join(" ")),
                Some(f) => {
                    let cs: Vec<String> = f.clauses.iter().map(|(p, r)| format!("({} {})", pred_sx(p), fres_sx(r))).collect();
                    format!("(recv ({}) (filter {}))", tags.join(" "), cs.join(" "))
                }
            }
        }
    }
}

impl Scenario {
    fn n_sends(&self) -> usize {
        self.script.iter().filter(|a| matches!(a.kind, ActKind::Send(_))).count()
    }
    fn uses_sink(&self) -> bool {
        self.sources.iter().any(|s| match s {
            Src::Recv { filter: Some(f), .. } => f.clauses.iter().any(|(_, r)| *r == FRes::Send),
            _ => false,
        })
    }
    /// helpers are pids 1..k, (the sink k+1,) p is the last spawned
    fn p_pid(&self) -> usize {
        self.helpers.len() + 1 + self.uses_sink() as usize + self.co_awaiters.len() + self.pads
    }
    fn source(&self) -> String {
        self.updates().join("\n")
    }
    /// the program as REPL lines (each one is a separate program update)
    fn updates(&self) -> Vec<String> {
        let mut lines = vec![];
        lines.push("'m = 'int | 'bin | Str['bin]".to_string());
        lines.extend(self.prelude.iter().cloned());
        lines.push("slow = #'int { | =0 => Ok | [~, 1] __integer_subtract__ ^ }".to_string());
        for (i, h) in self.helpers.iter().enumerate() {
            let val = if h.fails { "[1, 0] __integer_divide__".to_string() } else { format!("{}", helper_value(i)) };
            let body = match &h.trigger {
                Trigger::Now => val,
                Trigger::Countdown(n) => format!("{n} slow, {val}"),
                Trigger::Go => format!("!#Go, {val}"),
            };
            lines.push(format!("q{i} = @{{ {body} }}"));
        }
        if self.uses_sink() {
            lines.push("sink = @{ !#'int }".to_string());
        }
        for (k, h) in self.co_awaiters.iter().enumerate() {
            lines.push(format!("c{k} = @{{ !q{h} }}"));
        }
        for k in 0..self.pads {
            lines.push(format!("pad{k} = @{{ {k} }}"));
        }
        let srcs: Vec<String> = self.sources.iter().map(src_qv).collect();
        let n = self.n_sends();
        let mut body = String::new();
        if self.p_delay > 0 {
            body.push_str(&format!("{} slow, ", self.p_delay));
        }
        body.push_str(&format!("! [{}] =r, !#Done", srcs.join(", ")));
        for i in 0..n {
            body.push_str(&format!(", ! [#'m, 0] =d{i}"));
        }
        if self.report {
            body.push_str(", [r");
            for i in 0..n {
                body.push_str(&format!(", d{i}"));
            }
            body.push(']');
        } else {
            body.push_str(", 7");
        }
        lines.push(format!("p = @{{ {body} }}"));
        let first = lines.join("\n");
        let mut lines: Vec<String> = self.mid_lines.clone();
        for a in &self.script {
            let mut pre = a.sleep.map(|ms| format!("! [{ms}] ")).unwrap_or_default();
            if a.spin > 0 {
                pre.push_str(&format!("{} slow ", a.spin));
            }
            match &a.kind {
                ActKind::Send(m) => lines.push(format!("{pre}{} p", m.qv())),
                ActKind::Go(i) => lines.push(format!("{pre}Go q{i}")),
            }
        }
        let pre = self.final_sleep.map(|ms| format!("! [{ms}] ")).unwrap_or_default();
        lines.push(format!("{pre}Done p"));
        let second = lines.join("\n");
        let mut lines = vec![];
        if let Some(k) = self.after_go {
            lines.push("!p =x1".to_string());
            lines.push(format!("! [10] Go q{k}"));
            lines.push("! [30] Ok".to_string());
        }
        lines.push("!p".to_string());
        let third = lines.join("\n");
        if self.split { vec![first, second, third] } else { vec![[first, second, third].join("\n")] }
    }
    fn sites_sx(&self) -> String {
        let s0: Vec<String> = self.sources.iter().map(src_sx).collect();
        let mut s = format!("(scenario (site {}) (site (recv (Done) none))", s0.join(" "));
        for _ in 0..self.n_sends() {
            s.push_str(" (site (recv (int bin str) none) (timeout 0))");
        }
        s.push(')');
        s
    }
    fn site0_sx(&self) -> String {
        let s0: Vec<String> = self.sources.iter().map(src_sx).collect();
        format!("(site {})", s0.join(" "))
    }
}

// ---------------------------------------------------------------------------------------------
// generator
// ---------------------------------------------------------------------------------------------

fn gen_msg(r: &mut Rng) -> Msg {
    match r.below(10) {
        0..=5 => Msg::Int(r.range(0, 9)),
        6..=7 => {
            let n = 1 + r.usize(4);
            Msg::Bin(r.bytes(n))
        }
        _ => Msg::Str(["a", "hi", "hey", "hello", "quiver"][r.usize(5)].to_string()),
    }
}

fn gen_filter(r: &mut Rng, t: Ty) -> Filter {
    let slow = *r.pick(&[0u32, 0, 1, 3, 8, 25]);
    let n = match r.below(6) {
        0 => 0,
        1..=3 => 1,
        _ => 2,
    };
    let mut clauses = vec![];
    for _ in 0..n {
        let p = match t {
            Ty::Int => match r.below(8) {
                0 => Pred::Any,
                1 | 2 => Pred::Even,
                3 => Pred::Odd,
                4 => Pred::Eq(r.range(0, 9)),
                5 => Pred::Lt(r.range(0, 9)),
                _ => Pred::Ge(r.range(0, 9)),
            },
            _ => match r.below(4) {
                0 => Pred::Any,
                1 | 2 => Pred::LenLt(1 + r.usize(5)),
                _ => Pred::LenGe(1 + r.usize(5)),
            },
        };
        let res = match r.below(20) {
            0..=8 => FRes::Ok,
            9..=12 => FRes::Int(900 + r.range(0, 99)),
            13..=17 => FRes::Nil,
            18 => FRes::DivZero,
            _ => FRes::Send,
        };
        clauses.push((p, res));
    }
    Filter { slow, clauses }
}

/// F7's shape: two (or three) filter sources on different types, the lower-priority ones slow; the
/// messages arrive lowest priority first with spins in between, so that a higher-priority source finds
/// its message while a lower-priority verdict is pending (abandonment), in both orders of acceptance.
fn gen_takeover_scenario(r: &mut Rng) -> Scenario {
    let mut tys = vec![Ty::Int, Ty::Bin, Ty::Str];
    r.shuffle(&mut tys);
    let k = 2 + r.usize(2);
    let mut sources = vec![];
    for (i, t) in tys.iter().take(k).enumerate() {
        let verdict = match r.below(4) {
            0 => FRes::Nil,
            1 => FRes::Int(900 + r.range(0, 99)),
            _ => FRes::Ok,
        };
        let slow = if i == 0 { *r.pick(&[0u32, 0, 2]) } else { *r.pick(&[15u32, 40, 120, 400]) };
        sources.push(Src::Recv { tys: vec![*t], filter: Some(Filter { slow, clauses: vec![(Pred::Any, verdict)] }) });
    }
    if r.chance(1, 2) {
        sources.push(Src::Timeout(format!("{}", r.range(20, 60))));
    }
    let mut script = vec![];
    for t in tys.iter().take(k).rev() {
        let m = match t {
            Ty::Int => Msg::Int(r.range(0, 9)),
            Ty::Bin => {
                let n = 1 + r.usize(3);
                Msg::Bin(r.bytes(n))
            }
            Ty::Str => Msg::Str(["a", "hi", "hello"][r.usize(3)].to_string()),
        };
        script.push(Act { sleep: None, spin: *r.pick(&[0u32, 10, 40, 150]), kind: ActKind::Send(m) });
        if r.chance(1, 3) {
            script.push(Act { sleep: None, spin: 0, kind: ActKind::Send(gen_msg(r)) });
        }
    }
    Scenario { sources, helpers: vec![], script, final_sleep: Some(70), p_delay: 0, after_go: None, report: r.chance(1, 2), ..Default::default() }
}

const BOUNDARY_TIMEOUTS: &[&str] = &[
    "0", "1", "-1", "2147483647", "2147483648", "4294967295", "4294967296", "9223372036854775807",
    "9223372036854775808", "18446744073709551615", "18446744073709551616", "18446744073709551617",
    "1000000000000000000000000000000", "-2147483649", "-9223372036854775808", "-9223372036854775809",
    "-18446744073709551616", "-1000000000000000000000000000000",
];

/// A timeout of boundary magnitude written BEFORE a source that is ready from the start (a message
/// already in the mailbox / an awaited process that has finished): unless the effective duration is 0
/// the later source must win, at once.
fn gen_boundary_timeout_scenario(r: &mut Rng) -> Scenario {
    let t = BOUNDARY_TIMEOUTS[r.usize(BOUNDARY_TIMEOUTS.len())].to_string();
    let mut sources = vec![Src::Timeout(t)];
    let mut helpers = vec![];
    let mut script = vec![];
    if r.chance(1, 3) {
        helpers.push(Helper { trigger: Trigger::Now, fails: false });
        sources.push(Src::Await(0));
    } else {
        let m = gen_msg(r);
        let ty = m.ty();
        sources.push(if r.chance(1, 3) {
            Src::Recv { tys: vec![ty], filter: Some(Filter { slow: *r.pick(&[0u32, 5]), clauses: vec![(Pred::Any, FRes::Ok)] }) }
        } else {
            Src::Recv { tys: vec![ty], filter: None }
        });
        script.push(Act { sleep: None, spin: 0, kind: ActKind::Send(m) });
    }
    if r.chance(1, 3) {
        sources.push(Src::Timeout(BOUNDARY_TIMEOUTS[r.usize(BOUNDARY_TIMEOUTS.len())].to_string()));
    }
    // p spins first, so that the message / the result is there when the select starts
    Scenario { sources, helpers, script, final_sleep: Some(5), p_delay: *r.pick(&[60u32, 150, 400]), after_go: None, report: true, ..Default::default() }
}

/// An awaited process written BEFORE a receive with a (slow) filter; the message arrives first, so the
/// filter is in flight when the helper finishes or fails: the re-entry after the verdict must look at
/// the await source again (seeded/C15-2 resumed the scan at the receive source instead: the result /
/// failure is recorded but never looked at, the select parks for ever when the filter rejects).
fn gen_await_before_filter_scenario(r: &mut Rng) -> Scenario {
    let fails = r.chance(1, 2);
    let trigger = if r.chance(2, 3) { Trigger::Go } else { Trigger::Countdown(*r.pick(&[20u32, 60, 200])) };
    let helpers = vec![Helper { trigger: trigger.clone(), fails }];
    let ty = *r.pick(&[Ty::Int, Ty::Int, Ty::Bin, Ty::Str]);
    let verdict = if r.chance(2, 3) { FRes::Nil } else { FRes::Ok };
    let mut sources = vec![];
    if r.chance(1, 4) {
        sources.push(Src::Recv { tys: vec![Ty::Int, Ty::Bin, Ty::Str].into_iter().filter(|t| *t != ty).take(1).collect(), filter: None });
    }
    sources.push(Src::Await(0));
    sources.push(Src::Recv { tys: vec![ty], filter: Some(Filter { slow: *r.pick(&[10u32, 40, 150, 500]), clauses: vec![(Pred::Any, verdict)] }) });
    if r.chance(1, 3) {
        sources.push(Src::Timeout(format!("{}", r.range(30, 90))));
    }
    let m = match ty {
        Ty::Int => Msg::Int(r.range(0, 9)),
        Ty::Bin => {
            let n = 1 + r.usize(3);
            Msg::Bin(r.bytes(n))
        }
        Ty::Str => Msg::Str(["a", "hi", "hello"][r.usize(3)].to_string()),
    };
    let mut script = vec![Act { sleep: None, spin: 0, kind: ActKind::Send(m) }];
    if trigger == Trigger::Go {
        script.push(Act { sleep: None, spin: *r.pick(&[0u32, 5, 20, 60, 200]), kind: ActKind::Go(0) });
    }
    if r.chance(1, 3) {
        script.push(Act { sleep: None, spin: *r.pick(&[0u32, 30]), kind: ActKind::Send(gen_msg(r)) });
    }
    Scenario { sources, helpers, script, final_sleep: Some(*r.pick(&[5u64, 100])), p_delay: 0, after_go: None, report: r.chance(3, 4), ..Default::default() }
}

/// The receiver p is loaded (and usually already waiting) by the FIRST program update; the SECOND update
/// introduces a concrete type that did not exist before — a new tuple type matching p's partial / union /
/// recursive parameter type, or a process value of a newly compiled function — and sends a message of
/// that type. The executor's parameter-compatibility tables are recomputed for the whole program and
/// replaced on every update, so the old receive function must accept it (seeded/C05-4 shipped only the
/// delta: the old function's set went stale and the message was skipped).
fn gen_update_scenario(r: &mut Rng) -> Scenario {
    let fam = r.below(4);
    let (prelude, param, tags, mid, msg): (Vec<String>, String, Vec<String>, Vec<String>, Msg) = match fam {
        0 => (vec![], "(x: 'int)".into(), vec!["A".into()], vec![], Msg::Custom { qv: format!("A[x: {}, y: 0x01]", r.range(0, 9)), sx: "(t A)".into() }),
        1 => (vec![], "W[('int | 'bin)]".into(), vec!["W".into()], vec![], Msg::Custom { qv: "W[0x0102]".into(), sx: "(t W)".into() }),
        2 => (
            vec!["'l = Nil | Cons['int, ^]".into()],
            "'l".into(),
            vec!["Cons".into(), "Nil".into()],
            vec![],
            Msg::Custom { qv: "Cons[1, Cons[2, Nil]]".into(), sx: "(t Cons)".into() },
        ),
        _ => (vec![], "(@'int)".into(), vec!["proc".into()], vec!["h = @{ !#'int }".into()], Msg::Custom { qv: "[&h] .0".into(), sx: "(t proc)".into() }),
    };
    let mut sources = vec![];
    if r.chance(1, 3) {
        sources.push(Src::Recv { tys: vec![Ty::Bin], filter: None });
    }
    sources.push(Src::RecvCustom { param, tags });
    if fam == 3 && sources.len() == 1 {
        // a select that can only yield a process value makes `r` a process-typed variable, and `[r, …]`
        // would SEND to it: keep the result type a union
        sources.push(Src::Recv { tys: vec![Ty::Bin], filter: None });
    }
    match r.below(3) {
        0 => sources.push(Src::Timeout(format!("{}", r.range(40, 90)))),
        1 => sources.push(Src::Recv { tys: vec![Ty::Int], filter: None }),
        _ => {}
    }
    let mut script = vec![Act { sleep: None, spin: *r.pick(&[0u32, 10, 80]), kind: ActKind::Send(msg) }];
    if r.chance(1, 2) {
        script.push(Act { sleep: None, spin: 0, kind: ActKind::Send(Msg::Int(r.range(0, 9))) });
    }
    if r.chance(1, 3) {
        script.insert(0, Act { sleep: None, spin: 0, kind: ActKind::Send(Msg::Str("hi".into())) });
    }
    Scenario {
        sources,
        script,
        final_sleep: Some(*r.pick(&[5u64, 120])),
        p_delay: *r.pick(&[0u32, 0, 30]),
        report: true,
        prelude,
        mid_lines: mid,
        split: true,
        ..Default::default()
    }
}

/// Two DISTINCT awaiters of one helper that is still running when both await queries are answered; p is
/// usually the second to ask, and the pads move it to another worker than the helper's (seeded/C05-3
/// registered only the first awaiter of a target: the second never heard of the completion).
fn gen_co_awaiter_scenario(r: &mut Rng) -> Scenario {
    let helpers = vec![Helper { trigger: Trigger::Go, fails: r.chance(1, 3) }];
    let mut sources = vec![Src::Await(0)];
    match r.below(4) {
        0 => sources.push(Src::Timeout("1000000".into())),
        1 => sources.push(Src::Timeout(format!("{}", r.range(20, 60)))),
        2 => sources.push(Src::Recv { tys: vec![Ty::Bin], filter: None }),
        _ => {}
    }
    let mut script = vec![Act { sleep: if r.chance(1, 2) { Some(5) } else { None }, spin: *r.pick(&[100u32, 300, 600]), kind: ActKind::Go(0) }];
    if sources.len() > 1 && r.chance(1, 2) {
        script.push(Act { sleep: Some(*r.pick(&[1u64, 10])), spin: 0, kind: ActKind::Send(Msg::Bin(vec![255])) });
    }
    Scenario {
        sources,
        helpers,
        script,
        final_sleep: Some(5),
        p_delay: *r.pick(&[0u32, 10, 40]),
        report: true,
        co_awaiters: vec![0; 1 + r.usize(2)],
        pads: r.usize(3),
        split: r.chance(1, 4),
        ..Default::default()
    }
}

/// The awaited helper finishes (or fails) at once, p reaches its select later, and a message (or nothing but a
/// zero timeout) competes with it: the helper is CERTAINLY finished when the select starts, so it must win over
/// every later source whatever arrives between the await query and its answer (C05-F2).
fn gen_finished_target_scenario(r: &mut Rng) -> Scenario {
    let helpers = vec![Helper { trigger: Trigger::Now, fails: r.chance(1, 3) }];
    let mut sources = vec![Src::Await(0)];
    let with_recv = r.chance(2, 3);
    if with_recv {
        sources.push(Src::Recv { tys: vec![Ty::Int], filter: None });
    }
    if !with_recv || r.chance(1, 2) {
        sources.push(Src::Timeout("0".into()));
    }
    let mut script = vec![];
    if with_recv {
        script.push(Act { sleep: None, spin: *r.pick(&[0u32, 20, 40, 60, 80, 120]), kind: ActKind::Send(Msg::Int(r.range(0, 9))) });
    }
    Scenario {
        sources,
        helpers,
        script,
        final_sleep: Some(5),
        p_delay: *r.pick(&[20u32, 40, 60, 80]),
        report: true,
        pads: r.usize(3),
        ..Default::default()
    }
}

fn gen_scenario(r: &mut Rng) -> Scenario {
    if r.chance(1, 10) {
        return gen_finished_target_scenario(r);
    }
    if r.chance(1, 8) {
        return gen_update_scenario(r);
    }
    if r.chance(1, 8) {
        return gen_co_awaiter_scenario(r);
    }
    if r.chance(1, 6) {
        return gen_takeover_scenario(r);
    }
    if r.chance(1, 6) {
        return gen_await_before_filter_scenario(r);
    }
    if r.chance(1, 7) {
        return gen_boundary_timeout_scenario(r);
    }
    let n_helpers = *r.pick(&[0usize, 0, 1, 1, 2, 3]);
    let mut helpers = vec![];
    for _ in 0..n_helpers {
        let trigger = match r.below(4) {
            0 => Trigger::Now,
            1 => Trigger::Countdown(*r.pick(&[1u32, 5, 20, 60])),
            _ => Trigger::Go,
        };
        helpers.push(Helper { trigger, fails: r.chance(1, 5) });
    }
    let n_src = 1 + r.usize(4);
    let mut sources = vec![];
    for _ in 0..n_src {
        let k = r.below(10);
        let s = if k < 2 && n_helpers > 0 {
            Src::Await(r.usize(n_helpers))
        } else if k < 5 {
            let tys = match r.below(6) {
                0 | 1 => vec![Ty::Int],
                2 => vec![Ty::Bin],
                3 => vec![Ty::Str],
                4 => vec![Ty::Int, Ty::Bin],
                _ => vec![Ty::Int, Ty::Bin, Ty::Str],
            };
            Src::Recv { tys, filter: None }
        } else if k < 8 {
            let t = *r.pick(&[Ty::Int, Ty::Int, Ty::Bin, Ty::Str]);
            Src::Recv { tys: vec![t], filter: Some(gen_filter(r, t)) }
        } else {
            let ms = match r.below(12) {
                0 => "0".to_string(),
                1 => "-3".to_string(),
                2 => "1".to_string(),
                3..=5 => format!("{}", r.range(2, 6)),
                6..=8 => format!("{}", r.range(7, 25)),
                9 => "60".to_string(),
                10 => BOUNDARY_TIMEOUTS[r.usize(BOUNDARY_TIMEOUTS.len())].to_string(),
                _ => "-9223372036854775809".to_string(),
            };
            Src::Timeout(ms)
        };
        sources.push(s);
    }
    // most scenarios should terminate: usually add a moderate timeout at the end when none exists
    if !sources.iter().any(|s| matches!(s, Src::Timeout(_))) && r.chance(3, 4) {
        sources.push(Src::Timeout(format!("{}", r.range(5, 40))));
    }
    let n_msgs = r.usize(5);
    let mut script = vec![];
    for _ in 0..n_msgs {
        script.push(Act { sleep: None, spin: 0, kind: ActKind::Send(gen_msg(r)) });
    }
    for (i, h) in helpers.iter().enumerate() {
        if h.trigger == Trigger::Go && r.chance(4, 5) {
            script.push(Act { sleep: None, spin: 0, kind: ActKind::Go(i) });
        }
    }
    r.shuffle(&mut script);
    for a in script.iter_mut() {
        if r.chance(1, 3) {
            a.sleep = Some(*r.pick(&[1u64, 2, 3, 5, 8, 13, 30]));
        }
        if r.chance(1, 3) {
            a.spin = *r.pick(&[3u32, 10, 30, 100]);
        }
    }
    let final_sleep = if r.chance(1, 2) { Some(*r.pick(&[1u64, 4, 10, 45, 70])) } else { None };
    let p_delay = *r.pick(&[0u32, 0, 0, 10, 40, 150]);
    // a Go-triggered helper that is awaited by the select but never released by the script: release it
    // after p has finished
    let mut after_go = None;
    for (i, h) in helpers.iter().enumerate() {
        let released = script.iter().any(|a| a.kind == ActKind::Go(i));
        let awaited = sources.iter().any(|s| *s == Src::Await(i));
        if h.trigger == Trigger::Go && !released && awaited && r.chance(2, 3) {
            after_go = Some(i);
        }
    }
    let report = !r.chance(1, 6);
    // one third of the ordinary scenarios is submitted as three REPL lines (three program updates)
    let split = r.chance(1, 3);
    Scenario { sources, helpers, script, final_sleep, p_delay, after_go, report, split, ..Default::default() }
}

// ---------------------------------------------------------------------------------------------
// observing the real system
// ---------------------------------------------------------------------------------------------

fn tuple_name(sim: &Sim, id: usize) -> Option<String> {
    sim.env.get_program().get_tuples().get(id).and_then(|t| t.name.clone())
}

/// A value as the model's `Val` syntax. `bytes` resolves a binary.
fn val_sx(sim: &Sim, v: &Value, bytes: &dyn Fn(&Binary) -> Option<Vec<u8>>) -> String {
    match v {
        Value::Integer(i) => format!("(i {i})"),
        Value::Binary(b) => match bytes(b) {
            Some(bs) if bs.is_empty() => "(b)".into(),
            Some(bs) => format!("(b {})", hex(&bs)),
            None => "(b ?)".into(),
        },
        Value::Tuple(id, fields) => {
            if v.is_nil() {
                return "nil".into();
            }
            let name = tuple_name(sim, *id).unwrap_or_else(|| "_".into());
            if name == "Str"
                && fields.len() == 1
                && let Value::Binary(b) = &fields[0]
            {
                return match bytes(b) {
                    Some(bs) if bs.is_empty() => "(s)".into(),
                    Some(bs) => format!("(s {})", hex(&bs)),
                    None => "(s ?)".into(),
                };
            }
            // other tuples: the name only (payloads of the custom messages are not compared)
            let _ = fields;
            format!("(t {name})")
        }
        Value::Process(_, _) => "(t proc)".to_string(),
        other => format!("(other {})", other.type_name()),
    }
}

fn const_bytes(sim: &Sim, i: usize) -> Option<Vec<u8>> {
    match sim.env.get_program().get_constants().get(i) {
        Some(quiver_core::bytecode::Constant::Binary(v)) => Some(v.clone()),
        _ => None,
    }
}

/// value travelling in a command with its extracted heap
fn wire_val(sim: &Sim, v: &Value, heap: &[Vec<u8>]) -> String {
    val_sx(sim, v, &|b| match b {
        Binary::Heap(i) => heap.get(*i).cloned(),
        Binary::Constant(i) => const_bytes(sim, *i),
    })
}

/// value living in worker `w`'s executor
fn exec_val(sim: &Sim, w: usize, v: &Value) -> String {
    let ex = sim.workers[w].verif_executor();
    val_sx(sim, v, &|b| ex.get_binary_data(b).ok().map(|d| d.to_vec()))
}

/// canonical state of the real process (same syntax as `renderState` of the driver, without `queued`)
fn real_state(sim: &Sim, w: usize, pid: usize) -> Option<String> {
    let ex = sim.workers[w].verif_executor();
    let p = ex.get_process(pid)?;
    let mb: Vec<String> = p.mailbox.iter().map(|m| exec_val(sim, w, m)).collect();
    let mut aw: Vec<(usize, String)> = p
        .awaiting
        .iter()
        .map(|(k, v)| (*k, match v { None => "none".to_string(), Some(x) => exec_val(sim, w, x) }))
        .collect();
    aw.sort();
    let aw: Vec<String> = aw.iter().map(|(k, v)| format!("({k} {v})")).collect();
    let sel = match &p.select_state {
        None => "none".to_string(),
        Some(st) => format!(
            "(cur ({}) start {} recv {})",
            st.cursors.iter().map(|c| c.to_string()).collect::<Vec<_>>().join(" "),
            st.start_time.map(|t| t.to_string()).unwrap_or_else(|| "none".into()),
            match &st.receiving {
                None => "none".to_string(),
                Some((i, m)) => format!("({i} {})", exec_val(sim, w, m)),
            }
        ),
    };
    let parked = ex.verif_parked().1.contains(&pid) as u8;
    let res = match &p.result {
        Some(Err(e)) => qverif::canon::error_class(e),
        Some(Ok(_)) => "ok".to_string(),
        None => "none".to_string(),
    };
    let mut af: Vec<(usize, String)> = p.awaiting_failed.iter().map(|(k, e)| (*k, qverif::canon::error_class(e))).collect();
    af.sort();
    let af: Vec<String> = af.iter().map(|(k, e)| format!("({k} {e})")).collect();
    // `SelectState.unanswered` exists only in the patched code: read it from the Debug rendering so that this
    // file builds against both
    let un = if select_waits() {
        let list = match &p.select_state {
            None => String::new(),
            Some(st) => {
                let d = format!("{st:?}");
                match d.find("unanswered: [") {
                    Some(i) => {
                        let rest = &d[i + "unanswered: [".len()..];
                        rest[..rest.find(']').unwrap_or(0)].replace(',', "")
                    }
                    None => "<no unanswered field: the implementation is not the patched one>".to_string(),
                }
            }
        };
        format!(" un=({list})")
    } else {
        String::new()
    };
    Some(format!("mb=({}) aw=({}) af=({}) sel={} parked={} res={}{}", mb.join(" "), aw.join(" "), af.join(" "), sel, parked, res, un))
}

/// receive index of the held message in a model state string
fn recv_idx(state: &str) -> Option<usize> {
    let i = state.find(" recv (")?;
    state[i + 7..].split(' ').next()?.parse().ok()
}

fn strip_queued(s: &str) -> String {
    s.replace(" queued=0", "").replace(" queued=1", "")
}

/// the part of a model answer after the step result (`completed (i 4) mb=…` → `mb=…`)
fn state_part(ans: &str) -> String {
    match ans.find("mb=") {
        Some(i) => strip_queued(&ans[i..]),
        None => ans.to_string(),
    }
}

#[derive(Debug, Default)]
struct Outcome {
    /// result of the main program: value / error class / hang
    main: String,
    /// p's reported tuple `[r, d…]` as Val strings
    p_fields: Option<Vec<String>>,
    p_error: Option<String>,
    /// first mismatch between model state and real state: (step index, event log, model, real)
    mismatch: Option<(usize, String, String, String)>,
    /// oracle record taken at the completion of the first select
    completion: Option<Completion>,
    /// record taken when p was failed by a propagated error
    death: Option<Death>,
    faults: Vec<String>,
    schedule: String,
    events: Vec<String>,
    selects: u64,
    select_steps_straddled: u64,
    /// a pending verdict was abandoned because a higher-priority filter source took over (F7's situation)
    abandoned: u64,
    /// messages / results that arrived while a receive function was running
    arrivals_during_filter: u64,
    results_during_filter: u64,
    rejected: Option<String>,
    steps: usize,
    end_time: u64,
    /// at a quiescent end without completion: the specification on the final observations
    final_spec: Option<String>,
    /// idle-time consistency: a finished awaited helper that p was never told about
    lost_result: Option<String>,
    comparisons: u64,
    budget_exhausted: bool,
}

#[derive(Debug, Clone)]
struct Completion {
    now: u64,
    start: Option<u64>,
    entered: u64,
    spec: String,
    /// the specification with system-level readiness: known results, else what had certainly finished before the
    /// select was initialised
    #[allow(dead_code)]
    spec_sys: String,
    certain: String,
    /// what woke the select last before it completed: "message" | "answer" | ""
    woken_by: String,
    delivered: Vec<String>,
    results: String,
}

#[derive(Debug, Clone)]
struct Death {
    now: u64,
    class: String,
    /// had the first select completed before?
    after_completion: bool,
    /// had p itself finished before?
    after_finish: bool,
    spec: String,
    spec_sys: String,
    /// "propagated" (error of an awaited process arrived) | "filter" (p's own receive function raised) | "unknown"
    cause: String,
}

struct Runner<'a> {
    sc: &'a Scenario,
    sim: Sim,
    model: &'a mut Model,
    pw: usize,
    pp: usize,
    fp: Option<usize>,
    site_pcs: Vec<usize>,
    /// delivered (and not yet consumed by select 0) messages, harness-side
    delivered: Vec<String>,
    /// arrived results, harness-side: pid -> "(ok v)" | "(err C)"
    arrived: BTreeMap<usize, String>,
    entered: Option<u64>,
    start: Option<u64>,
    site0_execs: u64,
    completed0: bool,
    out: Outcome,
    log_events: bool,
    /// latest state string the model answered
    mstate: String,
    /// (model state, next-timeout answer) of the last next-timeout comparison
    last_nt: (String, String),
    /// awaited helpers that HAD a result when the first select was initialised (real system state):
    /// pid -> "(ok v)" | "(err C)". Ready at system level whatever p has been told.
    certain: BTreeMap<usize, String>,
    woken_by: String,
}

impl<'a> Runner<'a> {
    fn ask(&mut self, line: String) -> String {
        let a = self.model.ask(&line);
        if let Some(i) = a.find("mb=") {
            self.mstate = a[i..].to_string();
        }
        if self.log_events {
            self.out.events.push(format!("{line}  =>  {a}"));
        } else {
            self.out.events.push(line);
        }
        a
    }

    fn results_sx(&self) -> String {
        let v: Vec<String> = self.arrived.iter().map(|(k, r)| format!("({k} {r})")).collect();
        format!("(results {})", v.join(" "))
    }

    fn spec_now(&mut self, now: u64) -> String {
        let start = self.start.unwrap_or(now);
        let line = format!(
            "(spec {} (mailbox {}) {} {} {})",
            self.sc.site0_sx(),
            self.delivered.join(" "),
            self.results_sx(),
            start,
            now
        );
        self.model.ask(&line)
    }

    fn spec_sys_now(&mut self, now: u64) -> String {
        let start = self.start.unwrap_or(now);
        let cs: Vec<String> = self.certain.iter().map(|(k, r)| format!("({k} {r})")).collect();
        let line = format!(
            "(spec-sys {} (mailbox {}) {} (certain {}) {} {})",
            self.sc.site0_sx(),
            self.delivered.join(" "),
            self.results_sx(),
            cs.join(" "),
            start,
            now
        );
        self.model.ask(&line)
    }

    fn helper_result(&self, h: usize) -> Option<Result<String, String>> {
        // helper pid h lives on worker h % n
        let w = h % self.sim.n_workers();
        let ex = self.sim.workers[w].verif_executor();
        let p = ex.get_process(h)?;
        match &p.result {
            None => None,
            Some(Ok(v)) => Some(Ok(exec_val(&self.sim, w, v))),
            Some(Err(e)) => Some(Err(qverif::canon::error_class(e))),
        }
    }

    fn step(&mut self, c: Choice) {
        let idx = self.sim.schedule.len();
        let (i, visible) = match &c {
            Choice::Worker { i, visible } if *i == self.pw => (*i, *visible),
            _ => {
                self.sim.step(c);
                return;
            }
        };
        // commands this step will consume
        let cmds: Vec<Command<E>> = {
            let ch = self.sim.chans[i].chan.lock().unwrap();
            ch.cmds.iter().take(visible).cloned().collect()
        };
        // same-worker helpers that have no result yet
        let n = self.sim.n_workers();
        let local_helpers: Vec<usize> =
            (1..=self.sc.helpers.len()).filter(|h| h % n == self.pw && self.helper_result(*h).is_none()).collect();
        let was_failed = self.real_failed();
        let was_finished = self.real_finished();
        let now = self.sim.time_ms;
        xv::set_trace(Some(vec![]));
        self.sim.step(c);
        let trace = xv::take_trace().unwrap_or_default();

        let mut evlog = vec![];
        let mut cause = "unknown".to_string();
        for cmd in &cmds {
            match cmd {
                Command::SpawnProcess { id, function_index, .. } if *id == self.pp => {
                    self.fp = Some(*function_index);
                    let prog = self.sim.env.get_program();
                    if let Some(f) = prog.get_function(*function_index) {
                        self.site_pcs = f
                            .instructions
                            .iter()
                            .enumerate()
                            .filter(|(_, ins)| matches!(ins, Instruction::Select))
                            .map(|(pc, _)| pc)
                            .collect();
                    }
                }
                Command::DeliverMessage { target, message, heap } if *target == self.pp => {
                    let v = wire_val(&self.sim, message, heap);
                    if recv_idx(&self.mstate).is_some() {
                        self.out.arrivals_during_filter += 1;
                    }
                    self.delivered.push(v.clone());
                    self.woken_by = "message".into();
                    let a = self.ask(format!("(msg {v})"));
                    evlog.push(format!("msg {v}"));
                    let _ = a;
                }
                Command::UpdateAwaitResults { awaiter, results } if *awaiter == self.pp => {
                    let mut rs: Vec<(usize, String)> = vec![];
                    for (pid, r) in results {
                        match r {
                            None => {}
                            Some(Ok((v, heap))) => rs.push((*pid, format!("(ok {})", wire_val(&self.sim, v, heap)))),
                            Some(Err(e)) => rs.push((*pid, format!("(err {})", qverif::canon::error_class(e)))),
                        }
                    }
                    rs.sort();
                    self.woken_by = "answer".into();
                    if select_waits() {
                        // `None` entries: "not finished yet, you are registered" (`notify_pending`)
                        let mut ps: Vec<usize> = results.iter().filter(|(_, r)| r.is_none()).map(|(k, _)| *k).collect();
                        ps.sort();
                        for pid in ps {
                            self.ask(format!("(pending {pid})"));
                            evlog.push(format!("pending {pid}"));
                        }
                    }
                    for (pid, r) in rs {
                        if recv_idx(&self.mstate).is_some() {
                            self.out.results_during_filter += 1;
                        }
                        self.arrived.insert(pid, r.clone());
                        self.ask(format!("(result {pid} {r})"));
                        evlog.push(format!("result {pid} {r}"));
                    }
                    // `update_await_results` ends with `wake_selecting(awaiter)` whatever it carried
                    self.ask("(wake)".to_string());
                    evlog.push("wake".into());
                }
                _ => {}
            }
        }
        if self.fp.is_none() {
            return;
        }
        self.ask(format!("(expire {now})"));
        // Select executions of p in this slice
        let fp = self.fp.unwrap();
        let mut n_sel = 0;
        for (f, pc, _, _) in &trace {
            if *f == fp
                && let Some(site) = self.site_pcs.iter().position(|x| x == pc)
            {
                n_sel += 1;
                if site == 0 {
                    self.site0_execs += 1;
                    if self.site0_execs == 1 {
                        self.entered = Some(now);
                        self.woken_by.clear();
                        for s in &self.sc.sources {
                            if let Src::Await(k) = s
                                && let Some(r) = self.helper_result(k + 1)
                            {
                                let rs = match r {
                                    Ok(v) => format!("(ok {v})"),
                                    Err(c) => format!("(err {c})"),
                                };
                                self.certain.insert(k + 1, rs);
                            }
                        }
                        if !self.sc.sources.iter().any(|s| matches!(s, Src::Await(_))) {
                            self.start = Some(now);
                        }
                    }
                }
                // a Select execution may start a new select with other sources: the cached next-timeout is void
                self.last_nt = (String::new(), String::new());
                let before = recv_idx(&self.mstate);
                let a = self.ask(format!("(select {site} {now})"));
                // the first EVALUATION sets the start time (`ensure_select_start_time`); under the variant a
                // woken select with unanswered targets parks again without evaluating (`start none` stays)
                if site == 0 && self.site0_execs > 1 && self.start.is_none() && !(a.starts_with("parked") && a.contains("start none")) {
                    self.start = Some(now);
                }
                if a.starts_with("called")
                    && let (Some(b), Some(n)) = (before, recv_idx(&a))
                    && n < b
                {
                    self.out.abandoned += 1;
                }
                if a.starts_with("failed") {
                    cause = "propagated".into();
                }
                evlog.push(format!("select {site} -> {}", a.split(" mb=").next().unwrap_or("")));
                self.out.selects += 1;
            }
        }
        if n_sel > 1 {
            self.out.select_steps_straddled += 1;
        }
        // the process died inside a filter?
        let failed_now = self.real_failed();
        if failed_now.is_some() && was_failed.is_none() {
            let st = self.mstate.clone();
            if st.contains("res=none") {
                let a = self.ask("(filterfail)".to_string());
                if a.starts_with("failed") {
                    cause = "filter".into();
                }
                evlog.push(format!("filterfail -> {}", a.split(" mb=").next().unwrap_or("")));
            }
        }
        if !was_finished && self.real_finished() {
            self.ask("(pfinished)".to_string());
            evlog.push("pfinished".into());
        }
        // same-worker helper finished in this step: the awaiter loop of Executor::step
        for h in local_helpers {
            if let Some(r) = self.helper_result(h) {
                let rs = match r {
                    Ok(v) => format!("(ok {v})"),
                    Err(c) => format!("(err {c})"),
                };
                // it is an arrival for p only if p's awaiting map has the key (the model decides the same way)
                let st = self.mstate.clone();
                if st.contains(&format!("({h} ")) {
                    self.arrived.insert(h, rs.clone());
                }
                self.ask(format!("(finished {h} {rs})"));
                evlog.push(format!("finished {h} {rs}"));
            }
        }
        // oracle records
        if !self.completed0 && failed_now.is_none() && self.real_past_site0() {
            self.completed0 = true;
            let spec = self.spec_now(now);
            let spec_sys = self.spec_sys_now(now);
            self.out.completion = Some(Completion {
                now,
                start: self.start,
                entered: self.entered.unwrap_or(now),
                spec: spec.clone(),
                spec_sys,
                certain: self.certain.iter().map(|(k, r)| format!("({k} {r})")).collect::<Vec<_>>().join(" "),
                woken_by: self.woken_by.clone(),
                delivered: self.delivered.clone(),
                results: self.results_sx(),
            });
            // the taken message leaves the harness-side mailbox
            if let Some(t) = spec.split(" taken ").nth(1)
                && let Ok(k) = t.trim().parse::<usize>()
                && k < self.delivered.len()
            {
                self.delivered.remove(k);
            }
        }
        if let Some(class) = &failed_now
            && was_failed.is_none()
            && self.out.death.is_none()
        {
            let spec = self.spec_now(now);
            let spec_sys = self.spec_sys_now(now);
            self.out.death = Some(Death {
                now,
                class: class.clone(),
                after_completion: self.completed0,
                after_finish: was_finished,
                spec,
                spec_sys,
                cause,
            });
        }
        // per-step state comparison
        if self.out.mismatch.is_none() {
            self.out.comparisons += 1;
            let m = strip_queued(&self.mstate);
            if let Some(real) = real_state(&self.sim, self.pw, self.pp) {
                if m != real {
                    self.out.mismatch = Some((idx, evlog.join("; "), m, real));
                }
            }
            // next_timeout_ms: p is the only process with timeouts on its worker unless it shares it with main
            if self.pw != 0 && self.out.mismatch.is_none() {
                let real = self.sim.workers[self.pw].next_timeout_ms().map(|t| t.to_string()).unwrap_or_else(|| "none".into());
                let m = if self.last_nt.0 == self.mstate {
                    self.last_nt.1.clone()
                } else {
                    let a = self.model.ask("(next-timeout)");
                    self.last_nt = (self.mstate.clone(), a.clone());
                    a
                };
                if m != real {
                    self.out.mismatch = Some((idx, evlog.join("; "), format!("next-timeout {m}"), format!("next-timeout {real}")));
                }
            }
        }
    }

    /// `Sim::submit` with instrumented steps (the simulator's own version runs un-observed fair rounds
    /// while it fetches the process types, during which p may receive and run)
    fn submit(&mut self, src: &str) -> Result<Option<u64>, String> {
        let n = self.sim.n_workers();
        let id = self.sim.env.request_process_types().map_err(|e| format!("{e:?}"))?;
        let mut types = None;
        for _ in 0..2000 {
            self.step(Choice::Env { visible: vec![usize::MAX; n] });
            for i in 0..n {
                self.step(Choice::Worker { i, visible: usize::MAX });
            }
            match self.sim.env.poll_request(id) {
                Ok(Some(quiver_environment::RequestResult::ProcessTypes(t))) => {
                    types = Some(t);
                    break;
                }
                Ok(Some(_)) => return Err("unexpected answer to the process-types request".into()),
                Ok(None) => {}
                Err(e) => return Err(format!("{e:?}")),
            }
        }
        let types = types.ok_or("process types not answered")?;
        let mut repl = self.sim.repl.take().ok_or("no repl")?;
        let r = repl.evaluate(&mut self.sim.env, src, types);
        self.sim.repl = Some(repl);
        r.map_err(|e| format!("{e:?}"))
    }

    /// The system is idle: no command or event is in flight, nothing is runnable. An awaited helper that
    /// has finished (ground truth: its result is set on its worker) while p's select still awaits it
    /// must have been reported to p by now — whatever the schedule was.
    fn idle_check(&mut self) {
        if self.out.lost_result.is_some() || self.completed0 || self.fp.is_none() {
            return;
        }
        let st = self.mstate.clone();
        if !st.contains("res=none") || st.contains("sel=none") {
            return;
        }
        for h in 1..=self.sc.helpers.len() {
            if st.contains(&format!("({h} none)"))
                && !self.arrived.contains_key(&h)
                && let Some(r) = self.helper_result(h)
            {
                let r = match r {
                    Ok(v) => format!("ok {v}"),
                    Err(c) => format!("err {c}"),
                };
                self.out.lost_result = Some(format!(
                    "helper pid {h} has finished ({r}) and the whole system is idle (t={}), but p's select (awaiting it: {st}) was never told",
                    self.sim.time_ms
                ));
            }
        }
    }

    fn real_failed(&self) -> Option<String> {
        let ex = self.sim.workers[self.pw].verif_executor();
        match ex.get_process(self.pp).and_then(|p| p.result.as_ref()) {
            Some(Err(e)) => Some(qverif::canon::error_class(e)),
            _ => None,
        }
    }

    fn real_finished(&self) -> bool {
        let ex = self.sim.workers[self.pw].verif_executor();
        matches!(ex.get_process(self.pp).and_then(|p| p.result.as_ref()), Some(Ok(_)))
    }

    /// the body frame of p is past the first Select instruction (or p finished normally)
    fn real_past_site0(&self) -> bool {
        let ex = self.sim.workers[self.pw].verif_executor();
        let Some(p) = ex.get_process(self.pp) else { return false };
        let Some(pc0) = self.site_pcs.first() else { return false };
        match p.frames.first() {
            None => matches!(p.result, Some(Ok(_))),
            Some(f) => Some(f.function_index) == self.fp && f.counter > *pc0,
        }
    }
}

/// A pending timeout further away than this counts as "never" for the scheduler (the simulator's own
/// `random_choice` / `quiescent` are only used when no such timeout is pending).
const FAR: u64 = 1_000_000_000_000;

/// idle, and no timeout within reach: nothing can happen any more without outside input
fn settled(sim: &Sim) -> bool {
    sim.idle() && sim.next_timeout().map(|t| t > sim.time_ms.saturating_add(FAR)).unwrap_or(true)
}

/// `Sim::random_choice`, with the idle case handled here in saturating arithmetic
fn next_choice(sim: &Sim, r: &mut Rng, p: &Policy) -> Choice {
    if sim.idle()
        && let Some(t) = sim.next_timeout()
    {
        if t > sim.time_ms && t <= sim.time_ms.saturating_add(FAR) {
            let need = t - sim.time_ms;
            let ms = if r.chance(1, 3) && need > 1 { 1 + r.below(need - 1) } else { need };
            return Choice::Tick { ms };
        }
        // expired already (the worker has not looked yet) or out of reach: let a component step
        let n = sim.n_workers();
        return if r.chance(1, 3) { Choice::Env { visible: vec![usize::MAX; n] } } else { Choice::Worker { i: r.usize(n), visible: usize::MAX } };
    }
    sim.random_choice(r, p)
}

fn run_case(case: &Case, model: &mut Model, log_events: bool) -> Outcome {
    let sc = &case.scenario;
    let updates = sc.updates();
    let n = case.workers;
    let sim = Sim::new(n, case.quantum, qverif::run::builtins(), false).with_repl(HashMap::new());
    let pp = sc.p_pid();
    let pw = pp % n;
    model.ask(if select_waits() { "(variant on)" } else { "(variant off)" });
    model.ask(if release_dead() { "(release on)" } else { "(release off)" });
    let a = model.ask(&sc.sites_sx());
    let mut out = Outcome::default();
    if a != "ok" {
        out.rejected = Some(format!("model rejected scenario: {a}"));
        return out;
    }
    let mut rn = Runner {
        sc,
        sim,
        model,
        pw,
        pp,
        fp: None,
        site_pcs: vec![],
        delivered: vec![],
        arrived: BTreeMap::new(),
        entered: None,
        start: None,
        site0_execs: 0,
        completed0: false,
        certain: BTreeMap::new(),
        woken_by: String::new(),
        out,
        log_events,
        mstate: String::new(),
        last_nt: (String::new(), String::new()),
    };
    rn.ask("(state)".to_string());
    let mut r = Rng::for_case(case.sched_seed, 0);
    let mut pol = Policy::random(&mut r, n);
    // with a one-instruction time slice a 1:20 starvation pattern needs millions of steps: keep it mild
    for w in pol.worker_weights.iter_mut() {
        *w = (*w).min(if case.quantum.map(|q| q <= 3).unwrap_or(false) { 3 } else { 8 });
    }
    // step budget: scaled with the amount of counting-down the scenario does per time slice (a slow filter is
    // re-run on every message and after every abandonment; at quantum 1 every instruction is a worker step).
    // Running out of budget is INCONCLUSIVE (counter `inconclusive:step-budget-exhausted`), never a hang: a hang
    // is only declared when the system is settled (idle and no timeout within reach).
    let n_msgs = sc.n_sends() as u64 + 2;
    let mut work: u64 = sc.p_delay as u64;
    for s in &sc.sources {
        if let Src::Recv { filter: Some(f), .. } = s {
            work += f.slow as u64 * n_msgs * 2;
        }
    }
    for a in &sc.script {
        work += a.spin as u64;
    }
    for h in &sc.helpers {
        if let Trigger::Countdown(k) = h.trigger {
            work += k as u64;
        }
    }
    let q = case.quantum.unwrap_or(1000).clamp(1, 50) as u64;
    let max_steps = (200_000 + work * 12 * 40 / q).min(4_000_000) as usize;
    let mut result = None;
    let mut steps = 0;
    // every REPL line is a separate program update; the next one is submitted when the previous has a result
    let n_updates = updates.len();
    for (ui, src) in updates.iter().enumerate() {
        let req = match rn.submit(src) {
            Ok(Some(id)) => id,
            Ok(None) => {
                rn.out.rejected = Some("nocode".into());
                return std::mem::take(&mut rn.out);
            }
            Err(e) => {
                rn.out.rejected = Some(e);
                return std::mem::take(&mut rn.out);
            }
        };
        result = None;
        let mut idle_streak = 0;
        while steps < max_steps {
            steps += 1;
            if result.is_none() {
                result = rn.sim.poll_result(req);
            }
            if result.is_some() {
                break;
            }
            if rn.sim.idle() {
                rn.idle_check();
            }
            if settled(&rn.sim) {
                idle_streak += 1;
                if idle_streak > 2 * (n + 1) {
                    break;
                }
                rn.step(Choice::Env { visible: vec![usize::MAX; n] });
                for i in 0..n {
                    rn.step(Choice::Worker { i, visible: usize::MAX });
                }
                continue;
            }
            idle_streak = 0;
            let c = next_choice(&rn.sim, &mut r, &pol);
            rn.step(c);
        }
        if result.is_none() || ui + 1 == n_updates {
            break;
        }
        if let Some(Err(e)) = &result {
            // an earlier line failed (cannot happen in these programs): report as the program's outcome
            let _ = e;
            break;
        }
    }
    // a few more fair rounds so that late notifications (stale awaits) land, observed the same way
    for _ in 0..3 {
        rn.step(Choice::Env { visible: vec![usize::MAX; n] });
        for i in 0..n {
            rn.step(Choice::Worker { i, visible: usize::MAX });
        }
    }
    if result.is_none() && settled(&rn.sim) && !rn.completed0 && rn.out.death.is_none() && rn.fp.is_some() {
        let t = rn.sim.time_ms;
        rn.out.final_spec = Some(rn.spec_now(t));
    }
    let mut out = std::mem::take(&mut rn.out);
    out.budget_exhausted = result.is_none() && !settled(&rn.sim);
    out.steps = steps;
    out.end_time = rn.sim.time_ms;
    out.main = match &result {
        Some(Ok((v, heap))) => wire_val(&rn.sim, v, heap),
        Some(Err(e)) => format!("error:{}", qverif::canon::error_class(e)),
        None => format!("hang:quiescent={}", settled(&rn.sim)),
    };
    if let Some(Ok((Value::Tuple(_, fields), heap))) = &result {
        out.p_fields = Some(fields.iter().map(|f| wire_val(&rn.sim, f, heap)).collect());
    }
    if let Some(Err(e)) = &result {
        out.p_error = Some(qverif::canon::error_class(e));
    }
    out.faults = rn.sim.faults.iter().map(|(i, c, m)| format!("step {i} {c}: {m}")).collect();
    out.schedule = rn.sim.render_schedule();
    out
}

// ---------------------------------------------------------------------------------------------
// judging one run
// ---------------------------------------------------------------------------------------------

struct Verdict {
    signature: String,
    what: String,
    failing_input_found: bool,
}

fn filter_result_values(sc: &Scenario) -> Vec<String> {
    let mut v = vec!["(t Ok)".to_string()];
    for s in &sc.sources {
        if let Src::Recv { filter: Some(f), .. } = s {
            for (_, r) in &f.clauses {
                if let FRes::Int(k) = r {
                    v.push(format!("(i {k})"));
                }
            }
        }
    }
    v
}

fn judge(case: &Case, o: &Outcome, ev: &mut Ev) -> Vec<Verdict> {
    let sc = &case.scenario;
    let mut vs = vec![];
    if let Some(r) = &o.rejected {
        vs.push(Verdict { signature: "kind=generator-rejected".into(), what: format!("generated program rejected: {r}"), failing_input_found: false });
        return vs;
    }
    for f in &o.faults {
        let kind = if f.contains("panic") { "panic" } else { "internal-error" };
        vs.push(Verdict {
            signature: format!("kind=worker-{kind}"),
            what: format!("worker/environment {kind} during a select scenario: {f}"),
            failing_input_found: true,
        });
    }
    if !o.faults.is_empty() {
        return vs;
    }
    if o.budget_exhausted {
        ev.hit("inconclusive:step-budget-exhausted");
        return vs;
    }
    if let Some(w) = &o.lost_result {
        vs.push(Verdict { signature: "kind=await-result-lost".into(), what: w.clone(), failing_input_found: true });
    }
    if let Some(fs) = &o.final_spec
        && !fs.starts_with("not-ready")
    {
        vs.push(Verdict {
            signature: "kind=lost-wakeup".into(),
            what: format!("the system is quiescent with the first select still waiting, but on the delivered messages / arrived results / clock a source is ready: {fs}"),
            failing_input_found: true,
        });
    }
    // --- death of p ---------------------------------------------------------------------------
    if let Some(d) = &o.death {
        ev.hit("p-died");
        ev.hit(&format!("p-died:{}", d.cause));
        if d.after_finish {
            vs.push(Verdict {
                signature: "kind=stale-await-overwrites-result".into(),
                what: format!("p had FINISHED normally; its Ok result was later replaced by {} (t={})", d.class, d.now),
                failing_input_found: true,
            });
        } else if d.after_completion && d.cause != "filter" {
            vs.push(Verdict {
                signature: "kind=stale-await-kill".into(),
                what: format!("the select had already completed through another source; p was failed later with {} (t={}, cause {})", d.class, d.now, d.cause),
                failing_input_found: true,
            });
        } else if !d.after_completion && d.cause != "filter" {
            // the error of an awaited process propagates exactly when that source is the first ready one
            let expect = format!("fails {}", d.class);
            if d.spec != expect {
                vs.push(Verdict {
                    signature: if d.spec.starts_with("yields") { "kind=error-preempts-ready-source".into() } else { "kind=error-not-first-ready".into() },
                    what: format!(
                        "p failed with {} (cause {}) at t={} but the first ready source at that moment is `{}`",
                        d.class, d.cause, d.now, d.spec
                    ),
                    failing_input_found: true,
                });
            } else {
                ev.hit("p-died-conforming");
            }
        } else {
            ev.hit("p-died-in-filter");
        }
    }
    // --- model/implementation correspondence ---------------------------------------------------
    if let Some((idx, evs, m, real)) = &o.mismatch {
        vs.push(Verdict {
            signature: "kind=state-mismatch".into(),
            what: format!("model and implementation state differ after schedule step {idx} [{evs}]: model `{m}` real `{real}`"),
            failing_input_found: false,
        });
    }
    // --- system-level readiness: a target that had finished BEFORE the select started is ready, told or not ---
    if let Some(c) = &o.completion
        && c.spec_sys != c.spec
    {
        let cause = if c.spec_sys.starts_with("fails") {
            "failed-target-placeholder-window"
        } else if c.woken_by == "answer" {
            "stale-answer-credited"
        } else {
            "priority"
        };
        vs.push(Verdict {
            signature: format!("select=evaluates-before-await-answer cause={cause}"),
            what: format!(
                "the select completed (t={}, woken by {}) with `{}` — the first ready source by what p had been TOLD ({}) — but [{}] had finished before the select started: by what is TRUE the first ready source gives `{}` (docs/spec.md: \"prioritising `p1` if both are already finished\")",
                c.now, if c.woken_by.is_empty() { "nothing" } else { &c.woken_by }, c.spec, c.results, c.certain, c.spec_sys
            ),
            failing_input_found: true,
        });
    }
    if let Some(d) = &o.death
        && !d.after_completion
        && d.cause != "filter"
        && d.spec_sys != d.spec
    {
        vs.push(Verdict {
            signature: "select=evaluates-before-await-answer cause=priority".into(),
            what: format!(
                "p failed with {} at t={} (first ready source by what p had been told: `{}`), but a target that had finished before the select started makes the first ready source `{}`",
                d.class, d.now, d.spec, d.spec_sys
            ),
            failing_input_found: true,
        });
    }
    // --- oracle at completion ----------------------------------------------------------------
    let died = o.death.is_some();
    match (&o.completion, &o.p_fields) {
        (Some(c), Some(fields)) if !fields.is_empty() => {
            ev.hit("completed-and-reported");
            let r = &fields[0];
            let expect_r = if c.spec.starts_with("yields ") {
                let rest = &c.spec["yields ".len()..];
                rest.split(" taken ").next().unwrap_or("").to_string()
            } else {
                format!("<{}>", c.spec)
            };
            if *r != expect_r {
                let leaked = filter_result_values(sc).contains(r) && !c.delivered.contains(r);
                vs.push(Verdict {
                    signature: if leaked { "kind=filter-result-leaked".into() } else { "kind=wrong-select-value".into() },
                    what: format!(
                        "select yielded {r} but the first ready source at completion (t={}, start={:?}, mailbox=[{}], {}) gives `{}`",
                        c.now, c.start, c.delivered.join(" "), c.results, c.spec
                    ),
                    failing_input_found: true,
                });
            }
            // leftover order
            let mut expect: Vec<String> = c.delivered.clone();
            if let Some(t) = c.spec.split(" taken ").nth(1)
                && let Ok(k) = t.trim().parse::<usize>()
                && k < expect.len()
            {
                expect.remove(k);
            }
            // messages delivered after the completion are appended in script order: rebuild from the script
            let all: Vec<String> = sc
                .script
                .iter()
                .filter_map(|a| match &a.kind {
                    ActKind::Send(m) => Some(m.sx()),
                    _ => None,
                })
                .collect();
            // messages of the custom types are not taken by the drain `#'m`
            let custom: Vec<String> = sc
                .script
                .iter()
                .filter_map(|a| match &a.kind {
                    ActKind::Send(m) if m.is_custom() => Some(m.sx()),
                    _ => None,
                })
                .collect();
            // single sender ⇒ delivery order = script order; `delivered` at completion is a prefix of `all`
            let mut full = expect.clone();
            full.extend(all.iter().skip(c.delivered.iter().filter(|m| *m != "(t Done)").count()).cloned());
            let full: Vec<String> = full.into_iter().filter(|m| m != "(t Done)" && !custom.contains(m)).collect();
            let drained: Vec<String> = fields[1..].iter().filter(|m| *m != "nil").cloned().collect();
            if drained != full {
                vs.push(Verdict {
                    signature: "kind=leftover-order".into(),
                    what: format!("drained [{}] but expected [{}] (delivered minus taken, in order)", drained.join(" "), full.join(" ")),
                    failing_input_found: true,
                });
            }
            // timeout not early (independent of the spec evaluation)
            if r == "nil" && !c.delivered.contains(&"nil".to_string()) {
                let min_d = sc
                    .sources
                    .iter()
                    .filter_map(|s| match s {
                        Src::Timeout(ms) => Some(eff_dur(ms)),
                        _ => None,
                    })
                    .min();
                if let Some(d) = min_d
                    && (c.now as u128) < c.entered as u128 + d
                {
                    vs.push(Verdict {
                        signature: "kind=timeout-early".into(),
                        what: format!("timeout fired at t={} but the select was entered at t={} with minimum duration {d}", c.now, c.entered),
                        failing_input_found: true,
                    });
                }
            }
        }
        (None, None) if !died => {
            // never completed: the specification must say nothing is ready at the end
            ev.hit("hang");
            // (the model agrees step by step; the oracle part is the lost-wake-up check)
            let a = &o.main;
            if !a.starts_with("hang") {
                vs.push(Verdict { signature: "kind=no-completion-record".into(), what: format!("main finished with {a} but no completion of the first select was observed"), failing_input_found: false });
            }
        }
        (Some(_), None) if !died && o.main.starts_with("hang") => {
            // the first select completed, but p never got Done? (cannot happen: Done is always sent)
            vs.push(Verdict { signature: "kind=hang-after-completion".into(), what: format!("p completed its select but the program hangs: {}", o.main), failing_input_found: true });
        }
        _ => {}
    }
    vs
}

/// effective duration as the documented semantics has it (negative → 0; beyond i64 → unbounded)
fn eff_dur(ms: &str) -> u128 {
    // beyond i128 only the sign matters: out of i64 range on either side is "unbounded"
    let v: i128 = ms.parse().unwrap_or(if ms.starts_with('-') { i128::MIN } else { i128::MAX });
    if v < i64::MIN as i128 || v > i64::MAX as i128 {
        i64::MAX as u128
    } else if v < 0 {
        0
    } else {
        v as u128
    }
}

/// a hang where the specification says a source is ready at the end
fn hang_check(case: &Case, o: &Outcome, model: &mut Model) -> Option<Verdict> {
    if o.completion.is_some() || o.death.is_some() || o.rejected.is_some() || !o.main.starts_with("hang") || o.budget_exhausted {
        return None;
    }
    // at quiescence the model's own state says whether the process is parked with nothing ready; ask
    // the specification on the final harness-side observations (recorded in the events) — here we use
    // the model state: parked=1 and not failed is the conforming hang.
    let st = model.ask("(state)");
    let _ = case;
    if st.contains("parked=1") || st.contains("sel=none") {
        None
    } else {
        Some(Verdict { signature: "kind=hang-not-parked".into(), what: format!("program hangs but the model is not parked: {st}"), failing_input_found: false })
    }
}

fn case_json(case: &Case, o: &Outcome) -> serde_json::Value {
    json!({
        "case": case,
        "source": case.scenario.source(),
        "model_scenario": case.scenario.sites_sx(),
        "main": o.main,
        "p_fields": o.p_fields,
        "completion": o.completion.as_ref().map(|c| json!({"now": c.now, "start": c.start, "entered": c.entered, "spec": c.spec, "delivered": c.delivered, "results": c.results})),
        "death": o.death.as_ref().map(|d| json!({"now": d.now, "class": d.class, "after_completion": d.after_completion, "after_finish": d.after_finish, "spec": d.spec, "cause": d.cause})),
        "final_spec": o.final_spec,
        "state_comparisons": o.comparisons,
        "faults": o.faults,
        "schedule": o.schedule,
        "events": o.events,
    })
}


/// A corpus witness given as plain REPL lines (no model correspondence): the lines are evaluated one after the
/// other in one simulated system under `schedules` random schedules; the LAST line must give `expect` on every
/// schedule, else the file's `signature` is reported (a KNOWN-FINDING while it is listed as known).
#[derive(Clone, Debug, Serialize, Deserialize)]
struct RawWitness {
    lines: Vec<String>,
    workers: usize,
    #[serde(default)]
    quantum: Option<usize>,
    /// rendered outcome of the last line (`i1`, `error:InvalidArgument`, …); earlier lines are not judged
    expect: String,
    signature: String,
    what: String,
}

/// outcome of the last line under schedule `k` (0 = fair rounds), plus the simulator's fault list
fn run_raw(w: &RawWitness, base: u64, k: u64) -> (String, Vec<String>) {
    let mut sim = Sim::new(w.workers, w.quantum, qverif::run::builtins(), false).with_repl(HashMap::new());
    let mut r = Rng::for_case(base, k);
    let pol = Policy::random(&mut r, w.workers);
    let mut last = String::new();
    for l in &w.lines {
        last = match qverif::catch(std::panic::AssertUnwindSafe(|| {
            if k == 0 { eval_in(&mut sim, l, None, 20000) } else { eval_in(&mut sim, l, Some((&mut r, &pol)), 20000) }
        })) {
            Ok(o) => o.render(),
            Err(p) => format!("harness-panic:{p}"),
        };
    }
    (last, sim.faults.iter().map(|f| format!("{f:?}")).collect())
}

fn run_raw_witnesses(dir: &str, ev: &mut Ev, schedules: u64, seed: u64) {
    let Ok(rd) = std::fs::read_dir(dir) else { return };
    let mut files: Vec<_> = rd.filter_map(|e| e.ok()).map(|e| e.path()).filter(|p| p.extension().map(|x| x == "json").unwrap_or(false)).collect();
    files.sort();
    for f in files {
        let Ok(text) = std::fs::read_to_string(&f) else { continue };
        let Ok(j) = serde_json::from_str::<serde_json::Value>(&text) else { continue };
        let Ok(w) = serde_json::from_value::<RawWitness>(j["raw"].clone()) else { continue };
        let name = f.file_name().unwrap().to_string_lossy().to_string();
        let base = 0xC05F ^ seed;
        let mut bad = 0u64;
        let mut first: Option<(u64, String)> = None;
        let n = j["schedules"].as_u64().unwrap_or(schedules);
        for k in 0..=n {
            let (out, faults) = run_raw(&w, base, k);
            ev.case(&(name.as_str(), k, seed), true);
            ev.hit("raw-witness-schedules");
            if !faults.is_empty() {
                ev.violation("kind=worker-internal-error", &format!("worker/environment fault in witness {name}: {faults:?}"), json!({"raw": w, "schedule_base": base, "schedule": k, "file": name}), true);
            }
            if out != w.expect {
                bad += 1;
                if first.is_none() {
                    first = Some((k, out));
                }
            }
        }
        if let Some((k, out)) = first {
            ev.add(&format!("raw-witness-deviating:{name}"), bad);
            ev.violation(
                &w.signature,
                &format!("{} — witness {name}: last line gave `{out}` instead of `{}` on {bad} of {} schedules (first: schedule {k})", w.what, w.expect, n + 1),
                json!({"raw": w, "schedule_base": base, "schedule": k, "file": name}),
                true,
            );
        } else {
            ev.hit(&format!("raw-witness-clean:{name}"));
        }
    }
}

fn main() {
    if std::env::var("QVERIF_LOUD").is_err() {
        qverif::quiet_panics();
    }
    let opts = Opts::parse();
    let mut ev = Ev::new("C05", &opts);
    ev.rule = "distinct (scenario, workers, quantum, schedule seed) whose first select executed the Select instruction at least twice (a re-entry happened) and whose model/implementation states were compared at every step of p's worker".into();
    let model_path = opts.model.clone().unwrap_or_else(|| format!("{}/.lake/build/bin/qm_c05", qverif::lean_dir()).into());
    let mut model = Model::spawn(&model_path);

    // probe / replay of a single case
    if let Some(p) = &opts.replay {
        let text = std::fs::read_to_string(p).expect("replay file");
        let j: serde_json::Value = serde_json::from_str(&text).expect("json");
        let rj = if j.get("replay").is_some() { j["replay"].clone() } else { j.clone() };
        if rj.get("raw").is_some() {
            let w: RawWitness = serde_json::from_value(rj["raw"].clone()).expect("raw witness");
            let base = rj["schedule_base"].as_u64().unwrap_or(0xC05F);
            let k = rj["schedule"].as_u64().unwrap_or(0);
            let (out, faults) = run_raw(&w, base, k);
            println!("{}\nschedule {k}: last line => {out} (expected {}) faults={faults:?}", w.lines.join("\n"), w.expect);
            if out != w.expect {
                ev.violation(&w.signature, &format!("{}: `{out}` instead of `{}`", w.what, w.expect), rj.clone(), true);
            }
            std::process::exit(ev.finish());
        }
        let cj = if j.get("replay").is_some() { j["replay"]["case"].clone() } else if j.get("case").is_some() { j["case"].clone() } else { j.clone() };
        let case: Case = serde_json::from_value(cj).expect("case");
        println!("{}", case.scenario.source());
        println!("{}", case.scenario.sites_sx());
        let o = run_case(&case, &mut model, true);
        for e in &o.events {
            println!("  {e}");
        }
        println!("selects={} abandoned={} arrivals_during_filter={} comparisons={}", o.selects, o.abandoned, o.arrivals_during_filter, o.comparisons);
        println!("main={} p={:?} completion={:?} death={:?} mismatch={:?} faults={:?}", o.main, o.p_fields, o.completion, o.death, o.mismatch, o.faults);
        let vs = judge(&case, &o, &mut ev);
        for v in &vs {
            println!("VERDICT {} :: {}", v.signature, v.what);
            ev.violation(&v.signature, &v.what, case_json(&case, &o), v.failing_input_found);
        }
        std::process::exit(ev.finish());
    }

    // plain-program witnesses (corpus files with a `raw` entry)
    run_raw_witnesses("/verif/corpus/C05", &mut ev, opts.tier.pick(150, 1500), opts.seed);

    let mut cases: Vec<(String, Case)> = vec![];
    // regression corpus first
    let corpus_dir = "/verif/corpus/C05";
    if let Ok(rd) = std::fs::read_dir(corpus_dir) {
        let mut files: Vec<_> = rd.filter_map(|e| e.ok()).map(|e| e.path()).filter(|p| p.extension().map(|x| x == "json").unwrap_or(false)).collect();
        files.sort();
        for f in files {
            if let Ok(text) = std::fs::read_to_string(&f)
                && let Ok(j) = serde_json::from_str::<serde_json::Value>(&text)
                && let Ok(case) = serde_json::from_value::<Case>(j["case"].clone())
            {
                let reps = j["schedules"].as_u64().unwrap_or(1);
                for k in 0..reps {
                    let mut c = case.clone();
                    c.sched_seed = c.sched_seed.wrapping_add(k);
                    cases.push((format!("corpus:{}", f.file_name().unwrap().to_string_lossy()), c));
                }
            }
        }
    }
    let n_corpus = cases.len();
    // every dedicated family first, a fixed number of each: the wall-clock cap below may cut the random part short
    // (machine under load), it must never cut a family that exists because of a finding or a seeded defect
    let families: [(&str, fn(&mut Rng) -> Scenario); 6] = [
        ("finished-target", gen_finished_target_scenario),
        ("co-awaiter", gen_co_awaiter_scenario),
        ("update", gen_update_scenario),
        ("takeover", gen_takeover_scenario),
        ("await-before-filter", gen_await_before_filter_scenario),
        ("boundary-timeout", gen_boundary_timeout_scenario),
    ];
    let n_fam = opts.tier.pick(5u64, 60);
    for (fi, (fname, g)) in families.iter().enumerate() {
        for i in 0..n_fam {
            let mut r = Rng::for_case(opts.seed ^ 0xC05F00 ^ ((fi as u64) << 32), i);
            let sc = g(&mut r);
            for k in 0..2u64 {
                let workers = if *fname == "finished-target" && k == 0 { 3 } else { 1 + r.usize(3) };
                let quantum = *r.pick(&[Some(1usize), Some(2), Some(7), Some(40), None]);
                cases.push((format!("family:{fname}:{i}:{k}"), Case { scenario: sc.clone(), workers, quantum, sched_seed: r.next() }));
            }
        }
    }
    let n_scen = opts.tier.pick(200u64, 2600);
    let n_sched = opts.tier.pick(4u64, 10);
    for i in 0..n_scen {
        let mut r = Rng::for_case(opts.seed ^ 0xC05, i);
        let sc = gen_scenario(&mut r);
        for k in 0..n_sched {
            let workers = 1 + r.usize(3);
            let quantum = *r.pick(&[Some(1usize), Some(1), Some(2), Some(3), Some(7), Some(40), None]);
            cases.push((format!("gen:{i}:{k}"), Case { scenario: sc.clone(), workers, quantum, sched_seed: r.next() }));
        }
    }
    ev.set_extra("corpus_cases", json!(n_corpus));
    ev.set_extra("generated_scenarios", json!(n_scen));

    let started = std::time::Instant::now();
    let cap = std::time::Duration::from_secs(opts.tier.pick(110, 1500));
    for (ci, (name, case)) in cases.iter().enumerate() {
        if started.elapsed() > cap {
            // wall-clock cap (a change that makes runs crawl must still end with a verdict)
            ev.hit("not-run:wall-clock-cap");
            continue;
        }
        let t_case = std::time::Instant::now();
        let o = match qverif::catch(|| run_case(case, &mut model, false)) {
            Ok(o) => o,
            Err(msg) => {
                // a panic inside the harness itself (the implementation's panics are caught per step by the
                // simulator): report it as a broken check with the case, restart the model driver, go on
                ev.hit("harness-panic");
                let mut rj = json!({"case": case, "source": case.scenario.source(), "name": name, "panic": msg});
                rj["broken"] = json!("the harness could not complete this case");
                ev.violation("kind=harness-panic", &format!("harness panicked on a case: {msg}"), rj, false);
                model = Model::spawn(&model_path);
                continue;
            }
        };
        let fam = if !case.scenario.co_awaiters.is_empty() {
            "co-awaiters"
        } else if case.scenario.sources.iter().any(|s| matches!(s, Src::RecvCustom { .. })) {
            "type-from-later-update"
        } else if case.scenario.split {
            "ordinary-split"
        } else {
            "ordinary"
        };
        ev.hit(&format!("family:{fam}"));
        ev.add(&format!("family-ms:{fam}"), t_case.elapsed().as_millis() as u64);
        if let Some(c) = &o.completion
            && !c.certain.is_empty()
        {
            ev.hit("select-started-with-a-finished-target");
        }
        let nontrivial = o.rejected.is_none() && o.selects >= 2;
        ev.case(&(serde_json::to_string(case).unwrap()), nontrivial);
        // distribution counters
        ev.hit(&format!("workers={}", case.workers));
        ev.hit(&format!("quantum={}", case.quantum.map(|q| q.to_string()).unwrap_or_else(|| "default".into())));
        ev.hit(&format!("sources={}", case.scenario.sources.len()));
        for s in &case.scenario.sources {
            ev.hit(match s {
                Src::Await(_) => "src:await",
                Src::Recv { filter: None, .. } => "src:recv-type-only",
                Src::Recv { filter: Some(f), .. } if f.slow > 0 => "src:recv-slow-filter",
                Src::Recv { .. } => "src:recv-filter",
                Src::Timeout(_) => "src:timeout",
                Src::RecvCustom { .. } => "src:recv-type-from-earlier-update",
            });
        }
        ev.add("select-executions", o.selects);
        ev.add("steps-with-several-select-executions", o.select_steps_straddled);
        ev.add("pending-verdict-abandoned-for-higher-priority-source", o.abandoned);
        ev.add("messages-arrived-while-a-filter-ran", o.arrivals_during_filter);
        ev.add("results-or-failures-arrived-while-a-filter-ran", o.results_during_filter);
        if let Some(c) = &o.completion {
            let via = if c.spec.starts_with("yields nil") {
                "completion:timeout"
            } else if c.spec.contains(" taken none") {
                "completion:await"
            } else if c.spec.starts_with("yields") {
                "completion:message"
            } else {
                "completion:spec-disagrees"
            };
            ev.hit(via);
        }
        if o.main.starts_with("hang") {
            ev.hit("main:hang");
        } else if o.main.starts_with("error") {
            ev.hit("main:error");
        } else {
            ev.hit("main:value");
        }
        if o.events.iter().any(|e| e.starts_with("(filterfail")) {
            ev.hit("filter-raised");
        }
        let mut vs = judge(case, &o, &mut ev);
        if let Some(v) = hang_check(case, &o, &mut model) {
            vs.push(v);
        }
        for v in &vs {
            let mut rj = case_json(case, &o);
            rj["name"] = json!(name);
            if !v.failing_input_found {
                rj["broken"] = json!("correspondence model<->impl on the select machine (QM.Exec.handleSelect / notify*)");
            }
            ev.violation(&v.signature, &v.what, rj, v.failing_input_found);
        }
        ev.sample_sparse(ci as u64, 97, || {
            json!({"name": name, "source": case.scenario.source(), "workers": case.workers, "quantum": case.quantum, "main": o.main, "select_executions": o.selects,
                   "completion": o.completion.as_ref().map(|c| c.spec.clone())})
        });
    }
    ev.set_extra("model_requests", json!(model.requests));
    std::process::exit(ev.finish());
}
