//! C07 — every function the compiler emits is well-formed bytecode.
//!
//! Decision: the Lean checker `checkAnn` (executed by `qm_c07`, theorem `C07.checkAnn_sound`)
//! certifies every function of every program — corpora (std modules, test-suite sources, spec
//! blocks, examples) and generated core programs — in three packagings: as compiled, after
//! `tree_shake`, and merged into a running `Environment` behind other programs. A rejection is a
//! violation (replay = program source, packaging, function, pc, the conflicting abstract states).
//!
//! Second tie (validates M-VM / the checker's abstraction against the executor): programs are run
//! on the real VM with the `verif` instruction trace; every traced point `(function, pc, stack
//! len, frame-relative locals len)` must have `stack_len - frame_entry_base == ann.height` and
//! `locals >= ann.locals` for the annotations the model inferred, and no run may end in a
//! structural error (StackUnderflow, VariableUndefined, ConstantUndefined, FunctionUndefined,
//! BuiltinUndefined, FrameUnderflow, unknown tuple id, index panic).
use qverif::run::{Builtins, FrontError, Unit, compile_source};
use qverif::{Ev, Model, Opts, Rng, catch};
use quiver_core::bytecode::{Bytecode, Instruction};
use quiver_core::value::Value;
use quiver_io::NativeEffect;
use serde_json::json;
use std::collections::HashMap;

mod cgen;
mod shared;
use shared::*;

// ---------------------------------------------------------------------------------------------
// merged packaging: a worker handle that swallows commands

struct NullWorker;
impl quiver_environment::WorkerHandle<NativeEffect> for NullWorker {
    fn send(&mut self, _c: quiver_environment::Command<NativeEffect>) -> Result<(), quiver_environment::EnvironmentError> {
        Ok(())
    }
    fn try_recv(&mut self) -> Result<Option<quiver_environment::Event<NativeEffect>>, quiver_environment::EnvironmentError> {
        Ok(None)
    }
}

/// Merge `prefix` programs then `bc` into a fresh Environment; returns the merged program's
/// bytecode view.
fn merged(prefix: &[&Bytecode], bc: &Bytecode) -> Result<Bytecode, String> {
    let prefix: Vec<Bytecode> = prefix.iter().map(|b| (*b).clone()).collect();
    let bc = bc.clone();
    catch(move || {
        let mut env: quiver_environment::Environment<NativeEffect> =
            quiver_environment::Environment::new(vec![Box::new(NullWorker)]);
        for p in prefix {
            env.start_process(Some(p)).map_err(|e| format!("{e:?}"))?;
        }
        env.start_process(Some(bc)).map_err(|e| format!("{e:?}"))?;
        Ok::<Bytecode, String>(env.get_program().to_bytecode(None))
    })
    .unwrap_or_else(|p| Err(format!("panic: {p}")))
}

// ---------------------------------------------------------------------------------------------

struct Source {
    origin: String,
    text: String,
}

fn corpus_sources() -> Vec<Source> {
    let mut v = vec![];
    for (name, _) in qverif::corpus::std_modules() {
        v.push(Source { origin: format!("std/{name}.qv"), text: format!("%{name}") });
    }
    for (i, b) in qverif::corpus::spec_blocks().into_iter().enumerate() {
        v.push(Source { origin: format!("spec#{i}"), text: b });
    }
    for (name, text) in qverif::corpus::examples() {
        v.push(Source { origin: format!("examples/{name}"), text });
    }
    for (i, (file, text)) in qverif::corpus::test_sources().into_iter().enumerate() {
        v.push(Source { origin: format!("tests/{file}#{i}"), text });
    }
    v
}

fn regression_sources() -> Vec<Source> {
    let mut v = vec![];
    let dir = "/verif/corpus/C07";
    let mut files: Vec<_> = std::fs::read_dir(dir).map(|d| d.filter_map(|e| e.ok()).map(|e| e.path()).collect()).unwrap_or_default();
    files.sort();
    for f in files {
        if f.extension().and_then(|e| e.to_str()) == Some("qv") {
            if let Ok(t) = std::fs::read_to_string(&f) {
                v.push(Source { origin: format!("corpus/{}", f.file_name().unwrap().to_string_lossy()), text: t });
            }
        }
    }
    v
}

struct Ctx {
    b: Builtins,
    model: Model,
    programs: u64,
    functions: u64,
    instructions: u64,
    trace_points: u64,
    /// a few small compiled programs kept as merge prefixes
    prefixes: Vec<Bytecode>,
    /// bounded search for a concrete ill-formed execution after a rejection
    witness_searches: u32,
    witness_found: bool,
}

/// Every index INSIDE the tables is in range: type ids nested in types / tuple fields / builtins /
/// function `type_id`s, tuple ids in types. (`checkAnn` covers the instruction operands.)
fn tables_closed(bc: &Bytecode) -> Option<String> {
    use quiver_core::types::Type;
    let (nt, ntu) = (bc.types.len(), bc.tuples.len());
    let ty = |what: String, id: usize| if id < nt { None } else { Some(format!("{what}: type id {id} out of {nt}")) };
    for (i, t) in bc.types.iter().enumerate() {
        let bad = match t {
            Type::Tuple(tu) => if *tu < ntu { None } else { Some(format!("type {i} = Tuple({tu}): tuple id out of {ntu}")) },
            Type::Partial { fields, .. } => fields.iter().find_map(|(n, id)| ty(format!("type {i} = Partial field {n}"), *id)),
            Type::Callable { parameter, result, receive } => [("parameter", parameter), ("result", result), ("receive", receive)]
                .into_iter().find_map(|(n, id)| ty(format!("type {i} = Callable {n}"), *id)),
            Type::Union(vs) => vs.iter().find_map(|id| ty(format!("type {i} = Union member"), *id)),
            Type::Process { send, receive } => [send, receive].into_iter().flatten().find_map(|id| ty(format!("type {i} = Process"), *id)),
            _ => None,
        };
        if bad.is_some() {
            return bad;
        }
    }
    for (i, tu) in bc.tuples.iter().enumerate() {
        if let Some(b) = tu.fields.iter().find_map(|(n, id)| ty(format!("tuple {i} field {n:?}"), *id)) {
            return Some(b);
        }
    }
    for (i, f) in bc.functions.iter().enumerate() {
        if let Some(b) = ty(format!("function {i} type_id"), f.type_id) {
            return Some(b);
        }
    }
    None
}

/// What the type-bearing parts of every function DENOTE, independent of the numbering: opcode
/// skeleton, the function's own type, the types its `IsType`s test and the tuples it builds,
/// rendered structurally. A repackaged program may renumber, it must not change any of these.
fn denotations(bc: &Bytecode) -> Vec<String> {
    use quiver_core::format::{format_tuple_info, format_type_by_id};
    bc.functions
        .iter()
        .map(|f| {
            let mut s = format!("{}|{}|", f.captures, if f.type_id < bc.types.len() { format_type_by_id(bc, f.type_id) } else { "?".into() });
            for i in &f.instructions {
                match i {
                    Instruction::IsType(t) => s.push_str(&format!("IsType<{}>;", if *t < bc.types.len() { format_type_by_id(bc, *t) } else { "?".into() })),
                    Instruction::Tuple(t) => s.push_str(&format!("Tuple<{}>;", bc.tuples.get(*t).map(|ti| format_tuple_info(bc, ti)).unwrap_or("?".into()))),
                    // operands that are indices into renumbered tables are not compared here
                    Instruction::Constant(_) | Instruction::Function(_) | Instruction::Builtin(_) | Instruction::Process(_, _) => {
                        s.push_str(instr_token(i).split(':').next().unwrap_or(""));
                        s.push(';');
                    }
                    other => {
                        s.push_str(&instr_token(other));
                        s.push(';');
                    }
                }
            }
            s
        })
        .collect()
}

/// The repackaged program's tables are closed and every function in it denotes what some function
/// of the program as compiled denotes.
fn check_repackaged(ev: &mut Ev, src: &Source, packaging: &str, original: &Bytecode, repackaged: &Bytecode) {
    if let Some(what) = tables_closed(repackaged) {
        ev.violation(&format!("packaging={packaging} kind=table-index-out-of-range"),
            &format!("tables of {} [{packaging}] hold an index that is out of range: {what}", src.origin),
            json!({"origin": src.origin, "source": src.text, "packaging": packaging, "what": what}), true);
        return;
    }
    let (a, b) = (original.clone(), repackaged.clone());
    match catch(move || (denotations(&a), denotations(&b))) {
        Ok((orig, rep)) => {
            let have: std::collections::HashSet<&String> = orig.iter().collect();
            if let Some((fi, d)) = rep.iter().enumerate().find(|(_, d)| !have.contains(d)) {
                // the closest original (same skeleton up to the first difference) for the report
                let near = orig.iter().max_by_key(|o| o.chars().zip(d.chars()).take_while(|(x, y)| x == y).count()).cloned().unwrap_or_default();
                ev.violation(&format!("packaging={packaging} kind=type-denotation-changed"),
                    &format!("function {fi} of {} [{packaging}] denotes types no function of the program as compiled denotes", src.origin),
                    json!({"origin": src.origin, "source": src.text, "packaging": packaging, "function": fi,
                           "repackaged": d.chars().take(600).collect::<String>(), "closest_as_compiled": near.chars().take(600).collect::<String>()}), true);
            }
            ev.hit(&format!("denotations-compared:{packaging}"));
        }
        Err(p) => ev.violation(&format!("packaging={packaging} kind=type-rendering-panics"),
            &format!("rendering the types of {} [{packaging}] panics: {}", src.origin, p.lines().next().unwrap_or("")),
            json!({"origin": src.origin, "source": src.text, "packaging": packaging, "panic": p}), true),
    }
}

fn report_reject(ev: &mut Ev, src: &Source, packaging: &str, t: &Tables, c: &Cert) {
    let (f, pc, why) = c.reject.clone().unwrap();
    let kind = why.split(|ch: char| ch == ' ' || ch == ':').next().unwrap_or("rejected").to_string();
    let sig = format!("packaging={packaging} kind={kind}");
    let code = t.functions.get(f).map(dump_function).unwrap_or_default();
    ev.violation(
        &sig,
        &format!("checkAnn rejects function {f} at pc {pc} ({why}) of {} [{packaging}]", src.origin),
        json!({
            "broken": "certification by the verified checker (C07.checkAnn_sound no longer applies to this program)",
            "origin": src.origin, "source": src.text, "packaging": packaging,
            "function": f, "pc": pc, "reason": why, "captures": t.functions.get(f).map(|x| x.captures),
            "code": code,
        }),
        false,
    );
}

/// Full-system tie: `lines` are evaluated one after the other as REPL lines (real Environment +
/// Worker under the simulator); the merged program is certified (packaging `repl-merged`; a REPL
/// continuation line is certified with the locals it starts with as its entry locals) and every
/// process's trace is replayed against the annotations and through the Lean `stepInstr`.
fn system_tie(cx: &mut Ctx, ev: &mut Ev, src: &Source, lines: &[String]) {
    system_tie_with(cx, ev, src, lines, &HashMap::new())
}

fn system_tie_with(cx: &mut Ctx, ev: &mut Ev, src: &Source, lines: &[String], modules: &HashMap<Vec<String>, String>) {
    // 1–3 workers, chosen from the source text (deterministic)
    let n_workers = 1 + (lines.iter().map(|l| l.len()).sum::<usize>() % 3);
    ev.hit(&format!("system-run:workers={n_workers}"));
    let run = match run_session_traced_with(lines, modules, &cx.b, 1500, n_workers) {
        Err(why) => {
            if std::env::var("C07_DEBUG_REJECTED").is_ok() {
                eprintln!("session {} skipped: {why}; lines: {lines:?}", src.origin);
            }
            ev.hit(&format!("system-run:skipped:{}", why.split(':').next().unwrap_or("?")));
            return;
        }
        Ok(run) => run,
    };
    ev.hit(&format!("system-run:{}", run.outcome.split(':').next().unwrap_or("?")));
    ev.hit(&format!("system-run:lines={}", run.lines_run));
    if run.lines_rejected > 0 {
        ev.hit(&format!("system-run:rejected-lines={}", run.lines_rejected));
    }
    if run.unattributed > 0 {
        ev.add("system-run:unattributed-segments", run.unattributed as u64);
    }
    // REPL line functions start with the session's variables as locals: certify them with that
    // count as entry locals (sent to the model as `captures`; sound for a frame whose
    // `captures_count` is never consulted, i.e. a function without `TailCall(true)`)
    let mut program = run.program.clone();
    let mut entry_locals: Vec<Option<usize>> = vec![];
    for t in &run.repl_lines {
        match t.first() {
            Some(&(f, _, _, l)) => {
                if l != program.functions[f].captures {
                    if program.functions[f].instructions.iter().any(|i| matches!(i, Instruction::TailCall(true))) {
                        ev.hit("system-run:skipped:repl-line-with-self-tailcall");
                        return;
                    }
                    // hypothesis of C07.checkAnn_sound_repl: nothing builds a closure of the line
                    if program.functions.iter().any(|g| g.instructions.iter().any(|i| matches!(i, Instruction::Function(x) if *x == f))) {
                        ev.hit("system-run:skipped:repl-line-function-referenced");
                        return;
                    }
                    program.functions[f].captures = l;
                    ev.hit("system-run:repl-continuation-line");
                }
                entry_locals.push(Some(l));
            }
            None => entry_locals.push(None),
        }
    }
    let t = tables_of(&program);
    let c = certify(&mut cx.model, &t);
    ev.add("certified-functions:repl-merged", c.functions as u64);
    cx.functions += c.functions as u64;
    if c.reject.is_some() {
        report_reject(ev, src, "repl-merged", &t, &c);
        let mut all: Vec<(String, &Trace, Option<usize>)> =
            run.repl_lines.iter().enumerate().map(|(i, t)| (format!("repl line {i}"), t, entry_locals[i])).collect();
        for (pid, t) in &run.traces {
            all.push((format!("process {pid}"), t, None));
        }
        for (who, t, el) in all {
            if t.is_empty() {
                continue;
            }
            if let Some((k, what)) = check_trace_from(&program.functions, &[], t, el).mismatch {
                ev.violation(
                    "run kind=ill-formed-execution path=system",
                    &format!("{} runs into ill-formed bytecode on the real VM (full system, {who}, trace point {k}): {what}", src.origin),
                    json!({"origin": src.origin, "source": src.text, "lines": lines, "who": who, "what": what}),
                    true,
                );
                break;
            }
        }
        return;
    }
    let Some(anns) = parse_anns(&cx.model.ask("(annotations)")) else { return };
    ev.add("system-run:processes", (run.traces.len() + 1) as u64);
    let mut all: Vec<(String, &Trace, Option<usize>)> = vec![];
    for (i, t) in run.repl_lines.iter().enumerate() {
        all.push((format!("repl line {i}"), t, entry_locals[i]));
    }
    for (pid, t) in &run.traces {
        all.push((format!("process {pid}"), t, None));
    }
    for (who, trace, el) in all {
        if trace.is_empty() {
            continue;
        }
        let tc = check_trace_from(&program.functions, &anns, trace, el);
        cx.trace_points += tc.points as u64;
        ev.add("trace-points:system", tc.points as u64);
        ev.add("system-run:select-filter-calls", tc.select_filter_calls as u64);
        for (f, pc, _, _) in trace.iter() {
            if let Some(i) = program.functions.get(*f).and_then(|x| x.instructions.get(*pc)) {
                if matches!(i, Instruction::Spawn | Instruction::Send | Instruction::Select | Instruction::Self_ | Instruction::Process(_, _)) {
                    ev.hit(&format!("system-traced-op:{}", instr_token(i).split(':').next().unwrap()));
                }
            }
        }
        if let Some((k, what)) = &tc.mismatch {
            let (f, pc, _, _) = trace[*k];
            ev.violation(
                "trace kind=shape-mismatch path=system",
                &format!("full-system trace of {who} leaves the annotated shape in {}: {what}", src.origin),
                json!({"broken": "correspondence M-VM/M-Check <-> executor (full system, per-process instruction trace)",
                       "origin": src.origin, "source": src.text, "lines": lines, "who": who, "trace_index": k, "what": what,
                       "function": f, "pc": pc, "code": dump_function(&program.functions[f]),
                       "trace_tail": trace[k.saturating_sub(12)..=*k].to_vec()}),
                false,
            );
            continue;
        }
        if let Some((f, pc, first, now, k)) = tc.misaligned {
            ev.violation(
                "run kind=misaligned-local path=system",
                &format!("{} ({who}): the Store at f{f} pc{pc} binds local slot {first} on one execution and slot {now} on another", src.origin),
                json!({"origin": src.origin, "source": src.text, "lines": lines, "function": f, "pc": pc, "trace_index": k}),
                true,
            );
        }
        let reqs: Vec<String> = tc.steps.keys().cloned().collect();
        let answers = cx.model.ask_all(&reqs);
        ev.add("steps-replayed-in-model", reqs.len() as u64);
        for (req, ans) in reqs.iter().zip(answers.iter()) {
            let expect = &tc.steps[req];
            let mut it = req.split_whitespace().skip(1);
            if let (Some(Ok(rf)), Some(Ok(rpc))) = (it.next().map(|x| x.parse::<usize>()), it.next().map(|x| x.parse::<usize>())) {
                ev.hit(&format!("step-op:{}", instr_token(&program.functions[rf].instructions[rpc]).split(':').next().unwrap()));
            }
            if ans != expect {
                ev.violation(
                    "step kind=stepInstr-differs path=system",
                    &format!("{} (full system): executor step corresponds to `{expect}` but the model's stepInstr answers `{ans}` to `{req}`", src.origin),
                    json!({"broken": "correspondence stepInstr <-> executor handler (per-step shape replay, full system)",
                           "origin": src.origin, "source": src.text, "lines": lines, "request": req, "model": ans, "executor": expect}),
                    false,
                );
                break;
            }
        }
    }
    if let Some(class) = run.outcome.strip_prefix("error:") {
        if is_structural(class) {
            ev.violation(&format!("run kind=structural-error class={class} path=system"),
                &format!("{} ends in the structural error {class} in the full system", src.origin),
                json!({"origin": src.origin, "source": src.text, "lines": lines, "error": class}), true);
        }
    }
}

/// Certify + trace one source in all packagings. Returns false if the source does not compile.
fn process_source(cx: &mut Ctx, ev: &mut Ev, src: &Source, rng: &mut Rng, run_it: bool) -> bool {
    let unit: Unit = match compile_source(&src.text, &HashMap::new(), &cx.b) {
        Ok(u) => u,
        Err(FrontError::Parse(_)) => {
            ev.hit("front:parse-error");
            return false;
        }
        Err(FrontError::Compile(_)) => {
            ev.hit("front:compile-error");
            return false;
        }
        Err(FrontError::Panic(p)) => {
            ev.hit("front:panic");
            let _ = p;
            return false;
        }
    };
    ev.hit("front:accepted");
    let bc = unit.program.to_bytecode(Some(unit.entry));
    cx.programs += 1;

    // (a) as compiled
    let t = tables_of(&bc);
    let c = certify(&mut cx.model, &t);
    cx.functions += c.functions as u64;
    cx.instructions += c.instructions as u64;
    ev.add("certified-functions:as-compiled", c.functions as u64);
    for f in &bc.functions {
        for i in &f.instructions {
            ev.hit(&format!("op:{}", instr_token(i).split(':').next().unwrap()));
        }
    }
    let as_compiled_ok = c.reject.is_none();
    if !as_compiled_ok {
        report_reject(ev, src, "as-compiled", &t, &c);
        // search for an input that drives the real VM into the ill-formed path: this program's
        // own runs (sync path, and the full system when it has processes), replayed without
        // annotations
        if run_it && cx.witness_searches < 25 && !cx.witness_found {
            cx.witness_searches += 1;
            let (_, trace) = run_traced(&bc, &cx.b, 400);
            let tc = check_trace(&bc.functions, &[], &trace);
            let mut witness = tc.mismatch.map(|(k, w)| (format!("sync run, trace point {k}"), w));
            if witness.is_none() && has_process_ops(&bc) {
                if let Ok(run) = run_system_traced(&src.text, &cx.b, 1500) {
                    let mut all: Vec<(String, &Trace)> = run.repl_lines.iter().enumerate().map(|(i, t)| (format!("repl line {i}"), t)).collect();
                    for (pid, t) in &run.traces {
                        all.push((format!("process {pid}"), t));
                    }
                    for (who, t) in all {
                        if t.is_empty() {
                            continue;
                        }
                        if let Some((k, w)) = check_trace(&run.program.functions, &[], t).mismatch {
                            witness = Some((format!("full system, {who}, trace point {k}"), w));
                            break;
                        }
                    }
                }
            }
            if let Some((whre, what)) = witness {
                cx.witness_found = true;
                ev.violation(
                    "run kind=ill-formed-execution",
                    &format!("{} runs into ill-formed bytecode on the real VM ({whre}): {what}", src.origin),
                    json!({"origin": src.origin, "source": src.text, "where": whre, "what": what,
                           "checker": c.reject.clone().map(|(f, pc, why)| format!("function {f} pc {pc}: {why}"))}),
                    true,
                );
            }
        }
    }

    // trace tie on the as-compiled program
    let mut result_fn: Option<(usize, usize)> = None;
    if run_it && as_compiled_ok {
        let anns_answer = cx.model.ask("(annotations)");
        if let Some(anns) = parse_anns(&anns_answer) {
            let (end, trace) = run_traced(&bc, &cx.b, 400);
            ev.hit(&format!("run:{}", match &end { RunEnd::Value => "value".to_string(), RunEnd::Error(c) => format!("error:{c}"), RunEnd::Panic(_) => "panic".into(), RunEnd::Parked => "parked".into(), RunEnd::Budget => "budget".into() }));
            let tc = check_trace(&bc.functions, &anns, &trace);
            cx.trace_points += tc.points as u64;
            ev.add("trace-points", tc.points as u64);
            ev.hit(&format!("trace-depth:{}", tc.max_depth.min(8)));
            if let Some((k, what)) = tc.mismatch.clone() {
                let (f, pc, _, _) = trace[k];
                ev.violation(
                    "trace kind=shape-mismatch",
                    &format!("executor trace leaves the annotated shape in {}: {what}", src.origin),
                    json!({"broken": "correspondence M-VM/M-Check <-> executor (instruction trace vs inferred annotations)",
                           "origin": src.origin, "source": src.text, "trace_index": k, "what": what,
                           "function": f, "pc": pc, "code": dump_function(&bc.functions[f]),
                           "trace_tail": trace[k.saturating_sub(12)..=k].to_vec()}),
                    false,
                );
            }
            ev.add("stores-checked", tc.stores_checked as u64);
            // every distinct observed step through the Lean `stepInstr`
            if tc.mismatch.is_none() {
                let reqs: Vec<String> = tc.steps.keys().cloned().collect();
                let answers = cx.model.ask_all(&reqs);
                ev.add("steps-replayed-in-model", reqs.len() as u64);
                for (req, ans) in reqs.iter().zip(answers.iter()) {
                    let expect = &tc.steps[req];
                    let mut it = req.split_whitespace().skip(1);
                    if let (Some(Ok(rf)), Some(Ok(rpc))) = (it.next().map(|x| x.parse::<usize>()), it.next().map(|x| x.parse::<usize>())) {
                        ev.hit(&format!("step-op:{}", instr_token(&bc.functions[rf].instructions[rpc]).split(':').next().unwrap()));
                    }
                    if ans != expect {
                        ev.violation(
                            "step kind=stepInstr-differs",
                            &format!("{}: executor step corresponds to `{expect}` but the model's stepInstr answers `{ans}` to `{req}`", src.origin),
                            json!({"broken": "correspondence stepInstr <-> executor handler (per-step shape replay)",
                                   "origin": src.origin, "source": src.text, "request": req, "model": ans, "executor": expect}),
                            false,
                        );
                        break;
                    }
                }
            }
            if let Some((f, pc, first, now, k)) = tc.misaligned {
                ev.violation(
                    "run kind=misaligned-local",
                    &format!("{}: the Store at f{f} pc{pc} binds local slot {first} on one execution and slot {now} on another — compile-time slot numbers cannot match both", src.origin),
                    json!({"origin": src.origin, "source": src.text, "function": f, "pc": pc,
                           "locals_at_first_visit": first, "locals_at_this_visit": now, "trace_index": k,
                           "code": dump_function(&bc.functions[f])}),
                    true,
                );
            }
            match &end {
                RunEnd::Error(class) if is_structural(class) => {
                    ev.violation(
                        &format!("run kind=structural-error class={class}"),
                        &format!("{} ends in the structural error {class} on the real VM", src.origin),
                        json!({"origin": src.origin, "source": src.text, "error": class, "last_trace": trace.last()}),
                        true,
                    );
                }
                // (IO builtins have no implementation in this in-process host: not a VM behaviour;
                //  refcount-invariant panics are C06's)
                RunEnd::Panic(p) if !p.contains("refcount") && !p.contains("no implementation in this host") => {
                    ev.violation(
                        "run kind=panic",
                        &format!("{} panics on the real VM: {p}", src.origin),
                        json!({"origin": src.origin, "source": src.text, "panic": p, "last_trace": trace.last()}),
                        true,
                    );
                }
                _ => {}
            }
            // does the program evaluate to a function? (the `quiv run` entry)
            if matches!(end, RunEnd::Value) {
                if let (qverif::run::RunOutcome::Value(Value::Function(fi, caps)), _) =
                    qverif::run::run_sync(bc.clone(), &cx.b, false)
                {
                    result_fn = Some((fi, caps.len()));
                }
            }
        } else {
            ev.violation("driver kind=bad-annotations", "model driver returned unparsable annotations",
                json!({"broken": "qm_c07 (annotations) answer", "answer": anns_answer.chars().take(300).collect::<String>()}), false);
        }
    }

    // full-system tie for programs with process instructions: REPL line in a real Environment +
    // Worker (deterministic simulator), instruction trace per process
    if run_it && as_compiled_ok && has_process_ops(&bc) {
        system_tie(cx, ev, src, &[src.text.clone()]);
    }

    // (b) tree-shaken from the wrapper entry
    let shaken = catch(|| quiver_core::optimisation::tree_shake(bc.clone(), unit.entry));
    match shaken {
        Ok(sb) => {
            check_repackaged(ev, src, "tree-shaken", &bc, &sb);
            let t = tables_of(&sb);
            let c = certify(&mut cx.model, &t);
            ev.add("certified-functions:tree-shaken", c.functions as u64);
            cx.functions += c.functions as u64;
            if c.reject.is_some() {
                report_reject(ev, src, "tree-shaken", &t, &c);
            } else if run_it && rng.chance(1, 3) {
                // the shaken program must run through the same shapes
                if let Some(anns) = parse_anns(&cx.model.ask("(annotations)")) {
                    let (end, trace) = run_traced(&sb, &cx.b, 400);
                    let tc = check_trace(&sb.functions, &anns, &trace);
                    ev.add("trace-points", tc.points as u64);
                    cx.trace_points += tc.points as u64;
                    if let Some((k, what)) = tc.mismatch {
                        ev.violation("trace kind=shape-mismatch packaging=tree-shaken",
                            &format!("executor trace of the tree-shaken program leaves the annotated shape in {}: {what}", src.origin),
                            json!({"broken": "correspondence M-VM/M-Check <-> executor on tree-shaken bytecode", "origin": src.origin, "source": src.text, "trace_index": k, "what": what}), false);
                    }
                    if let RunEnd::Error(class) = &end {
                        if is_structural(class) {
                            ev.violation(&format!("run kind=structural-error class={class} packaging=tree-shaken"),
                                &format!("{} (tree-shaken) ends in the structural error {class} on the real VM", src.origin),
                                json!({"origin": src.origin, "source": src.text, "error": class}), true);
                        }
                    }
                }
            }
        }
        Err(p) => {
            ev.violation("packaging=tree-shaken kind=panic", &format!("tree_shake panics on {}: {p}", src.origin),
                json!({"origin": src.origin, "source": src.text, "panic": p}), true);
        }
    }

    // (b') tree-shaken from the function the program evaluates to (`quiv run` recipe)
    if let Some((fi, ncaps)) = result_fn {
        if ncaps == 0 {
            match catch(|| quiver_core::optimisation::tree_shake(bc.clone(), fi)) {
                Ok(sb) => {
                    check_repackaged(ev, src, "tree-shaken-entry", &bc, &sb);
                    let t = tables_of(&sb);
                    let c = certify(&mut cx.model, &t);
                    ev.add("certified-functions:tree-shaken-entry", c.functions as u64);
                    cx.functions += c.functions as u64;
                    if c.reject.is_some() {
                        report_reject(ev, src, "tree-shaken-entry", &t, &c);
                    }
                }
                Err(p) => ev.violation("packaging=tree-shaken-entry kind=panic", &format!("tree_shake panics on {}: {p}", src.origin),
                    json!({"origin": src.origin, "source": src.text, "panic": p}), true),
            }
        } else {
            ev.hit("entry-function-with-captures");
        }
    }

    // (c) merged into a running environment behind 0–3 other programs
    let k = rng.usize(4).min(cx.prefixes.len());
    let mut idx: Vec<usize> = (0..cx.prefixes.len()).collect();
    rng.shuffle(&mut idx);
    let prefix: Vec<&Bytecode> = idx[..k].iter().map(|&i| &cx.prefixes[i]).collect();
    match merged(&prefix, &bc) {
        Ok(mb) => {
            if let Some(what) = tables_closed(&mb) {
                ev.violation("packaging=merged kind=table-index-out-of-range",
                    &format!("tables of {} [merged] hold an index that is out of range: {what}", src.origin),
                    json!({"origin": src.origin, "source": src.text, "packaging": "merged", "what": what}), true);
            }
            let t = tables_of(&mb);
            let c = certify(&mut cx.model, &t);
            ev.add("certified-functions:merged", c.functions as u64);
            ev.hit(&format!("merge-prefix:{k}"));
            cx.functions += c.functions as u64;
            if c.reject.is_some() {
                report_reject(ev, src, "merged", &t, &c);
            }
        }
        Err(e) => {
            ev.violation("packaging=merged kind=merge-failed", &format!("merging {} into an Environment fails: {e}", src.origin),
                json!({"origin": src.origin, "source": src.text, "error": e}), true);
        }
    }
    if cx.prefixes.len() < 12 && bc.functions.len() >= 2 && bc.functions.len() <= 40 {
        cx.prefixes.push(bc);
    } else if !cx.prefixes.is_empty() && bc.functions.len() <= 60 && rng.chance(1, 20) {
        let i = rng.usize(cx.prefixes.len());
        cx.prefixes[i] = bc;
    }
    true
}

fn main() {
    qverif::quiet_panics();
    let opts = Opts::parse();
    let mut ev = Ev::new("C07", &opts);
    ev.rule = "one case = one accepted source program (corpus or generated), certified function by function by \
               the Lean checker in each packaging (as compiled, tree-shaken, merged) and run on the real VM with \
               the instruction trace; non-trivial when it compiles and has at least one function with a jump; \
               distinct by source text"
        .into();
    let b = qverif::run::builtins();
    let model = Model::spawn(opts.model.as_ref().expect("--model"));
    let mut cx = Ctx { b, model, programs: 0, functions: 0, instructions: 0, trace_points: 0, prefixes: vec![], witness_searches: 0, witness_found: false };

    // debugging aid: `c07 --dump FILE.qv` prints the compiled functions, the model's annotations
    // and the executor's trace of that program
    if let Some(i) = opts.extra.iter().position(|x| x == "--dump") {
        let text = std::fs::read_to_string(&opts.extra[i + 1]).expect("read source");
        match compile_source(&text, &HashMap::new(), &cx.b) {
            Err(e) => println!("does not compile: {e:?}"),
            Ok(unit) => {
                let bc = unit.program.to_bytecode(Some(unit.entry));
                let t = tables_of(&bc);
                let c = certify(&mut cx.model, &t);
                println!("certify: {:?}", c.reject);
                let anns = parse_anns(&cx.model.ask("(annotations)")).unwrap_or_default();
                for (fi, f) in bc.functions.iter().enumerate() {
                    println!("function {fi} (captures {}){}", f.captures, if fi == unit.entry { " [entry]" } else { "" });
                    for (pc, ins) in f.instructions.iter().enumerate() {
                        let a = anns.get(fi).and_then(|v| v.get(pc)).cloned().flatten();
                        println!("  {pc:3}: {:14} {}", instr_token(ins), a.map(|a| format!("h={} l={}", a.h, a.l)).unwrap_or("-".into()));
                    }
                }
                let (end, trace) = run_traced(&bc, &cx.b, 400);
                println!("run: {end:?}; {} trace points", trace.len());
                for (f, pc, s, l) in trace.iter().take(400) {
                    println!("  f{f} pc{pc} stack={s} locals={l} {}", instr_token(&bc.functions[*f].instructions[*pc]));
                }
                let tc = check_trace(&bc.functions, &anns, &trace);
                println!("trace check: mismatch={:?} misaligned={:?}", tc.mismatch, tc.misaligned);
            }
        }
        std::process::exit(0);
    }

    let mut sources = regression_sources();
    let n_regress = sources.len();
    sources.extend(corpus_sources());
    let n_corpus = sources.len() - n_regress;
    let mut rng = Rng::for_case(opts.seed ^ 0xC07, 0);

    // quick: all of std/spec/examples, a seeded subset of the test sources; thorough: all
    let quick = opts.tier == qverif::Tier::Quick;
    let mut accepted = 0u64;
    for (i, src) in sources.iter().enumerate() {
        let is_test = src.origin.starts_with("tests/");
        if quick && is_test && !rng.chance(19, 20) {
            ev.hit("corpus:skipped-in-quick");
            continue;
        }
        let ok = process_source(&mut cx, &mut ev, src, &mut rng, true);
        if ok {
            accepted += 1;
        }
        ev.case(&src.text, ok);
        ev.sample_sparse(i as u64, 400, || json!({"origin": src.origin, "accepted": ok, "source": src.text.chars().take(200).collect::<String>()}));
    }
    ev.set_extra("corpus_sources", json!(n_corpus));
    ev.set_extra("regression_sources", json!(n_regress));
    ev.set_extra("corpus_accepted", json!(accepted));

    // must-reject probes: programs whose ACCEPTANCE was a defect, repaired by a compile error. If
    // one compiles again it is certified like any program, with its own signature.
    //   tail-call-in-tuple-field: fixed 9828b30 (b-c02's 08b)
    for (name, text) in [
        ("tail-call-in-tuple-field", "f = #'int { | =0 => 0 | [1, [~, 1] __integer_subtract__ ^] },\n3 f"),
    ] {
        match compile_source(text, &HashMap::new(), &cx.b) {
            Err(_) => ev.hit(&format!("probe:{name}:rejected-by-the-compiler")),
            Ok(unit) => {
                let bc = unit.program.to_bytecode(Some(unit.entry));
                let t = tables_of(&bc);
                let c = certify(&mut cx.model, &t);
                match &c.reject {
                    None => ev.hit(&format!("probe:{name}:certified")),
                    Some((f, pc, why)) => {
                        let kind = why.split(|ch: char| ch == ' ' || ch == ':').next().unwrap_or("rejected").to_string();
                        ev.violation(&format!("probe={name} kind={kind}"),
                            &format!("the must-reject probe {name} compiles again and checkAnn rejects its function {f} at pc {pc} ({why})"),
                            json!({"broken": "certification by the verified checker", "probe": name, "source": text, "function": f, "pc": pc, "reason": why}), false);
                    }
                }
            }
        }
    }

    // generated programs
    let n_gen = opts.tier.pick(1500u64, 40000u64);
    let mut gen_accepted = 0u64;
    for i in 0..n_gen {
        let mut r = Rng::for_case(opts.seed ^ 0x6E07, i);
        let text = cgen::program(&mut r, &mut ev);
        let src = Source { origin: format!("generated#{i}"), text };
        let ok = process_source(&mut cx, &mut ev, &src, &mut r, true);
        if ok {
            gen_accepted += 1;
        }
        ev.case(&src.text, ok);
        ev.sample_sparse(i, 150, || json!({"origin": src.origin, "accepted": ok, "source": src.text}));
    }
    // REPL sessions: several lines on the persistent process (continuation lines start with the
    // session's variables as locals; `@N` process references; programs merged one after the other)
    let n_sessions = opts.tier.pick(120u64, 2500u64);
    for i in 0..n_sessions {
        let mut r = Rng::for_case(opts.seed ^ 0x5E55, i);
        let lines = cgen::session(&mut r, &mut ev);
        let src = Source { origin: format!("session#{i}"), text: lines.join("\n") };
        system_tie(&mut cx, &mut ev, &src, &lines);
        ev.case(&src.text, true);
        ev.sample_sparse(i, 60, || json!({"origin": src.origin, "lines": lines}));
    }
    // REPL sessions with in-memory modules and lines that fail to compile: whatever a failed line
    // leaves behind (module cache, program tables) must not corrupt later lines
    let n_msessions = opts.tier.pick(60u64, 1200u64);
    for i in 0..n_msessions {
        let mut r = Rng::for_case(opts.seed ^ 0x30D5, i);
        let (modules, lines) = if i == 0 {
            // fixed regression session (seeded/C07-3): a failed line that freshly imported `shapes`,
            // then a same-shaped module at the same table positions, then `shapes` again
            (
                vec![
                    ("shapes".to_string(), "scale = 10, [area: #'int { [~, scale] __integer_multiply__ }]".to_string()),
                    ("squares".to_string(), "scale = 10, [area: #'int { [~, ~] __integer_multiply__ }]".to_string()),
                ],
                vec!["4 %shapes.area oops".to_string(), "a = 4 %squares.area, b = 4 %shapes.area, [a, b]".to_string(), "[a, b, 2 %shapes.area]".to_string()],
            )
        } else {
            cgen::module_session(&mut r, &mut ev)
        };
        let mut map: HashMap<Vec<String>, String> = HashMap::new();
        for (name, text) in &modules {
            map.insert(vec![name.clone()], text.clone());
        }
        let src = Source { origin: format!("module-session#{i}"), text: format!("{}\n---\n{}", modules.iter().map(|(n, t)| format!("// module {n}\n{t}")).collect::<Vec<_>>().join("\n"), lines.join("\n")) };
        system_tie_with(&mut cx, &mut ev, &src, &lines, &map);
        ev.case(&src.text, true);
        ev.sample_sparse(i, 30, || json!({"origin": src.origin, "modules": modules, "lines": lines}));
    }
    ev.set_extra("repl_module_sessions", json!(n_msessions));
    ev.set_extra("repl_sessions", json!(n_sessions));
    ev.set_extra("generated", json!(n_gen));
    ev.set_extra("generated_accepted", json!(gen_accepted));
    ev.set_extra("programs", json!(cx.programs));
    ev.set_extra("functions_certified", json!(cx.functions));
    ev.set_extra("instructions_as_compiled", json!(cx.instructions));
    ev.set_extra("trace_points_checked", json!(cx.trace_points));
    ev.set_extra("model_requests", json!(cx.model.requests));
    println!(
        "C07: {} programs ({} corpus accepted, {} generated accepted), {} function certifications, {} trace points",
        cx.programs, accepted, gen_accepted, cx.functions, cx.trace_points
    );
    std::process::exit(ev.finish());
}
