//! C07 — every function the compiler emits is well-formed bytecode.
//!
//! Decision: the Lean checker `checkAnn` (executed by `qm_c07`, theorem `C07.checkAnn_sound`)
//! certifies every function of every program — corpora (std modules, test-suite sources, spec
//! blocks, examples) and generated core programs — in three packagings: as compiled, after
//! `tree_shake`, and merged into a running `Environment` behind other programs. A rejection is a
//! violation (replay = program source, packaging, function, pc, the conflicting abstract states).
//!
//! Second tie (validates M-VM / the checker's abstraction against the executor): programs are run
//! on the real VM with the `verif` instruction trace; every traced point `(function, pc, stack
//! len, frame-relative locals len)` must have `stack_len - frame_entry_base == ann.height` and
//! `locals >= ann.locals` for the annotations the model inferred, and no run may end in a
//! structural error (StackUnderflow, VariableUndefined, ConstantUndefined, FunctionUndefined,
//! BuiltinUndefined, FrameUnderflow, unknown tuple id, index panic).
use qverif::run::{Builtins, FrontError, Unit, compile_source};
use qverif::{Ev, Model, Opts, Rng, catch};
use quiver_core::bytecode::{Bytecode, Function, Instruction};
use quiver_core::compatibility::{
    CompatibilityInput, compute_canonical_tuples, compute_param_compatibility, compute_type_compatibility,
};
use quiver_core::executor::{Executor, ProgramUpdate};
use quiver_core::value::Value;
use quiver_io::NativeEffect;
use serde_json::json;
use std::collections::HashMap;

mod cgen;

// ---------------------------------------------------------------------------------------------
// serialisation for the model

fn instr_token(i: &Instruction) -> String {
    use Instruction::*;
    match i {
        Constant(a) => format!("Constant:{a}"),
        Pop => "Pop".into(),
        Duplicate => "Duplicate".into(),
        Pick(a) => format!("Pick:{a}"),
        Rotate(a) => format!("Rotate:{a}"),
        Reset(a) => format!("Reset:{a}"),
        Load(a) => format!("Load:{a}"),
        Store => "Store".into(),
        Tuple(a) => format!("Tuple:{a}"),
        Get(a) => format!("Get:{a}"),
        IsType(a) => format!("IsType:{a}"),
        Jump(a) => format!("Jump:{a}"),
        JumpIf(a) => format!("JumpIf:{a}"),
        Call => "Call".into(),
        TailCall(r) => format!("TailCall:{}", if *r { 1 } else { 0 }),
        Function(a) => format!("Function:{a}"),
        Builtin(a) => format!("Builtin:{a}"),
        Equal(a) => format!("Equal:{a}"),
        Not => "Not".into(),
        Spawn => "Spawn".into(),
        Send => "Send".into(),
        Self_ => "Self_".into(),
        Select => "Select".into(),
        Process(a, b) => format!("Process:{a}:{b}"),
    }
}

/// The tables of a program as the checker sees them.
struct Tables<'a> {
    constants: usize,
    tuples: Vec<usize>,
    types: usize,
    builtins: usize,
    functions: &'a [Function],
}

fn tables_of(bc: &Bytecode) -> Tables<'_> {
    Tables {
        constants: bc.constants.len(),
        tuples: bc.tuples.iter().map(|t| t.fields.len()).collect(),
        types: bc.types.len(),
        builtins: bc.builtins.len(),
        functions: &bc.functions,
    }
}

fn prog_lines(t: &Tables) -> Vec<String> {
    let mut lines = Vec::with_capacity(t.functions.len() + 1);
    let mut head = format!("(prog (consts {}) (tuples", t.constants);
    for a in &t.tuples {
        head.push(' ');
        head.push_str(&a.to_string());
    }
    head.push_str(&format!(") (types {}) (builtins {}))", t.types, t.builtins));
    lines.push(head);
    for f in t.functions {
        let mut s = format!("(fn {}", f.captures);
        for i in &f.instructions {
            s.push(' ');
            s.push_str(&instr_token(i));
        }
        s.push(')');
        lines.push(s);
    }
    lines
}

#[derive(Clone, Copy, Debug, PartialEq)]
struct Ann {
    h: usize,
    l: usize,
}

fn parse_anns(answer: &str) -> Option<Vec<Vec<Option<Ann>>>> {
    // "anns (h:l _ ...) (...)"
    let rest = answer.strip_prefix("anns")?;
    let mut out = vec![];
    let mut cur: Option<Vec<Option<Ann>>> = None;
    let mut tok = String::new();
    let flush = |tok: &mut String, cur: &mut Option<Vec<Option<Ann>>>| -> Option<()> {
        if tok.is_empty() {
            return Some(());
        }
        let c = cur.as_mut()?;
        if tok == "_" {
            c.push(None);
        } else {
            let (h, l) = tok.split_once(':')?;
            c.push(Some(Ann { h: h.parse().ok()?, l: l.parse().ok()? }));
        }
        tok.clear();
        Some(())
    };
    for ch in rest.chars() {
        match ch {
            '(' => cur = Some(vec![]),
            ')' => {
                flush(&mut tok, &mut cur)?;
                out.push(cur.take()?);
            }
            ' ' => flush(&mut tok, &mut cur)?,
            c => tok.push(c),
        }
    }
    Some(out)
}

// ---------------------------------------------------------------------------------------------
// certification

struct Cert {
    functions: usize,
    instructions: usize,
    /// None = certified; Some((f, pc, reason))
    reject: Option<(usize, usize, String)>,
}

fn certify(model: &mut Model, t: &Tables) -> Cert {
    let mut lines = prog_lines(t);
    lines.push("(certify)".into());
    let answers = model.ask_all(&lines);
    let last = answers.last().cloned().unwrap_or_default();
    let instructions = t.functions.iter().map(|f| f.instructions.len()).sum();
    for (i, a) in answers[..answers.len() - 1].iter().enumerate() {
        if !a.starts_with("ok") {
            return Cert { functions: t.functions.len(), instructions, reject: Some((i.saturating_sub(1), 0, format!("model driver refused the program line {i}: {a}"))) };
        }
    }
    let reject = if last.starts_with("ok") {
        None
    } else if let Some(r) = last.strip_prefix("reject ") {
        let mut it = r.splitn(3, ' ');
        let f = it.next().and_then(|x| x.parse().ok()).unwrap_or(0);
        let pc = it.next().and_then(|x| x.parse().ok()).unwrap_or(0);
        Some((f, pc, it.next().unwrap_or("").to_string()))
    } else {
        Some((0, 0, format!("unexpected model answer: {last}")))
    };
    Cert { functions: t.functions.len(), instructions, reject }
}

fn dump_function(f: &Function) -> Vec<String> {
    f.instructions.iter().enumerate().map(|(pc, i)| format!("{pc}: {}", instr_token(i))).collect()
}

// ---------------------------------------------------------------------------------------------
// real runs with the instruction trace

#[derive(Debug)]
enum RunEnd {
    Value,
    Error(String),
    Panic(String),
    Parked,
    Budget,
}

type Trace = Vec<(usize, usize, usize, usize)>;

/// `execute_bytecode_sync` with a step budget and the instruction trace switched on. Stops when
/// the process parks (an action was returned that nobody routes on the sync path).
fn run_traced(bc: &Bytecode, b: &Builtins, max_slices: usize) -> (RunEnd, Trace) {
    let Some(entry) = bc.entry else { return (RunEnd::Error("no entry".into()), vec![]) };
    quiver_core::executor::verif::set_trace(Some(vec![]));
    let bc2 = bc.clone();
    let r = catch(move || {
        let mut ex: Executor<NativeEffect> = Executor::new(b.clone(), false, 0);
        let input = CompatibilityInput {
            types: &bc2.types,
            tuples: &bc2.tuples,
            functions: &bc2.functions,
            builtins: &bc2.builtins,
            resource_names: &bc2.resources,
        };
        let type_compatibility = compute_type_compatibility(&input);
        let canonical_tuples = compute_canonical_tuples(&bc2.tuples);
        let (fpc, bpc) = compute_param_compatibility(&input);
        ex.update_program(ProgramUpdate {
            constants: bc2.constants.clone(),
            functions: bc2.functions.clone(),
            tuples: bc2.tuples[2..].to_vec(),
            types: bc2.types.clone(),
            builtins: bc2.builtins.clone(),
            resources: bc2.resources.clone(),
            type_compatibility,
            function_param_compatibility: fpc,
            builtin_param_compatibility: bpc,
            canonical_tuples,
        });
        if let Err(e) = ex.spawn_process(0, Some(entry), vec![], Value::nil(), vec![], false) {
            return RunEnd::Error(qverif::canon::error_class(&e));
        }
        for _ in 0..max_slices {
            let (did, action) = ex.step(200, 0);
            let Some(p) = ex.get_process(0) else { return RunEnd::Error("process disappeared".into()) };
            if let Some(res) = &p.result {
                return match res {
                    Ok(_) => RunEnd::Value,
                    Err(e) => RunEnd::Error(error_detail(e)),
                };
            }
            if action.is_some() || !did {
                return RunEnd::Parked;
            }
        }
        RunEnd::Budget
    });
    let trace = quiver_core::executor::verif::take_trace().unwrap_or_default();
    quiver_core::executor::verif::set_trace(None);
    match r {
        Ok(e) => (e, trace),
        Err(p) => (RunEnd::Panic(p.lines().next().unwrap_or("").to_string()), trace),
    }
}

fn error_detail(e: &quiver_core::Error) -> String {
    match e {
        quiver_core::Error::TypeMismatch { expected, .. } if expected == "known tuple type" => "TupleUndefined".into(),
        other => qverif::canon::error_class(other),
    }
}

fn is_structural(class: &str) -> bool {
    matches!(
        class,
        "StackUnderflow" | "VariableUndefined" | "ConstantUndefined" | "FunctionUndefined" | "BuiltinUndefined"
            | "FrameUnderflow" | "TupleUndefined"
    )
}

/// Shadow frame while replaying a trace.
#[derive(Clone, Debug)]
struct Shadow {
    f: usize,
    base: usize,
    pc: usize,
    /// 0 = not evaluating a Select; 1 = Select initialised (sources popped: height is
    /// ann.height - 1); 2 = a filter function was called from the Select (its verdict will be on
    /// the stack when it returns: height is ann.height again, counter not incremented)
    sel: u8,
}

struct TraceCheck {
    points: usize,
    max_depth: usize,
    /// (index in trace, description)
    mismatch: Option<(usize, String)>,
    /// a `Store` executed with different frame-relative locals counts on different visits:
    /// (function, pc, count seen first, count seen now, trace index)
    misaligned: Option<(usize, usize, usize, usize, usize)>,
    stores_checked: usize,
}

/// Replays the trace against the inferred annotations, reconstructing each frame's entry base
/// (stack length at function entry minus the argument).
fn check_trace(functions: &[Function], anns: &[Vec<Option<Ann>>], trace: &Trace) -> TraceCheck {
    let mut shadow: Vec<Shadow> = vec![];
    let mut res = TraceCheck { points: 0, max_depth: 0, mismatch: None, misaligned: None, stores_checked: 0 };
    // slot numbering: the compiler gives the variable bound by a `Store` the index `local_count`
    // it has at that point; the VM appends at the runtime count. They agree only if every
    // execution of a given `Store` happens at the same frame-relative count.
    let mut store_count: HashMap<(usize, usize), usize> = HashMap::new();
    // pops exhausted frames; returns false if the shadow stack ran out
    fn settle(shadow: &mut Vec<Shadow>, functions: &[Function]) {
        while let Some(top) = shadow.last() {
            if top.pc < functions[top.f].instructions.len() {
                break;
            }
            shadow.pop();
            if let Some(c) = shadow.last_mut() {
                if c.sel != 2 {
                    c.pc += 1;
                }
            }
        }
    }
    for (k, &(f, pc, s, l)) in trace.iter().enumerate() {
        if k == 0 {
            if s == 0 {
                res.mismatch = Some((0, "empty stack at process entry".into()));
                return res;
            }
            shadow.push(Shadow { f, base: s - 1, pc: 0, sel: 0 });
        } else {
            // the previous point executed the instruction at the top shadow frame
            let (pf, ppc, _ps, _pl) = trace[k - 1];
            let pinstr = functions[pf].instructions[ppc];
            let n = functions[pf].instructions.len() as isize;
            let target = |off: isize| -> usize {
                let t = ppc as isize + off + 1;
                if t < 0 || t > n { usize::MAX } else { t as usize }
            };
            match pinstr {
                Instruction::Call => {
                    if pc == 0 && s > 0 {
                        // new frame (a function value was called): its argument is on top
                        shadow.push(Shadow { f, base: s - 1, pc: 0, sel: 0 });
                    } else {
                        // builtin, or a callee with an empty body
                        shadow.last_mut().unwrap().pc = ppc + 1;
                        settle(&mut shadow, functions);
                    }
                }
                Instruction::TailCall(_) => {
                    let base = shadow.last().unwrap().base;
                    if pc == 0 {
                        *shadow.last_mut().unwrap() = Shadow { f, base, pc: 0, sel: 0 };
                    } else {
                        // tail-called function has an empty body: frame exhausted at once
                        let top = shadow.last_mut().unwrap();
                        top.pc = usize::MAX;
                        let fl = functions[top.f].instructions.len();
                        top.pc = fl;
                        settle(&mut shadow, functions);
                    }
                }
                Instruction::Select => {
                    let top = shadow.last_mut().unwrap();
                    if f == pf && pc == ppc {
                        // initialised (or a verdict was consumed) and the Select runs again
                        top.sel = 1;
                    } else if pc == 0 && s > 0 {
                        // a filter function was called on a message
                        top.sel = 2;
                        shadow.push(Shadow { f, base: s - 1, pc: 0, sel: 0 });
                    } else {
                        top.sel = 0;
                        top.pc = ppc + 1;
                        settle(&mut shadow, functions);
                    }
                }
                Instruction::Jump(off) => {
                    shadow.last_mut().unwrap().pc = target(off);
                    settle(&mut shadow, functions);
                }
                Instruction::JumpIf(off) => {
                    // either successor; take the one the trace shows
                    let mut a = shadow.clone();
                    a.last_mut().unwrap().pc = ppc + 1;
                    settle(&mut a, functions);
                    let mut b2 = shadow.clone();
                    b2.last_mut().unwrap().pc = target(off);
                    if target(off) != usize::MAX {
                        settle(&mut b2, functions);
                    }
                    let matches = |sh: &Vec<Shadow>| sh.last().map(|t| t.f == f && t.pc == pc).unwrap_or(false);
                    shadow = if matches(&a) { a } else { b2 };
                }
                _ => {
                    shadow.last_mut().unwrap().pc = ppc + 1;
                    settle(&mut shadow, functions);
                }
            }
        }
        res.max_depth = res.max_depth.max(shadow.len());
        let Some(top) = shadow.last() else {
            res.mismatch = Some((k, format!("trace continues at f{f} pc{pc} after the reconstructed frame stack emptied")));
            return res;
        };
        if top.f != f || top.pc != pc {
            res.mismatch = Some((k, format!("control flow: reconstructed frame is at f{} pc{}, executor is at f{f} pc{pc}", top.f, top.pc)));
            return res;
        }
        let Some(Some(a)) = anns.get(f).and_then(|v| v.get(pc)) else {
            res.mismatch = Some((k, format!("executor reached f{f} pc{pc}, which the inferred annotations mark unreachable")));
            return res;
        };
        let expect_h = if top.sel == 1 { a.h.saturating_sub(1) } else { a.h };
        if s < top.base || s - top.base != expect_h {
            res.mismatch = Some((k, format!("height: f{f} pc{pc} stack_len={s} entry_base={} => relative {} but ann.height={} (select phase {})", top.base, s as isize - top.base as isize, a.h, top.sel)));
            return res;
        }
        if l < a.l {
            res.mismatch = Some((k, format!("locals: f{f} pc{pc} frame-relative locals={l} < ann.locals={}", a.l)));
            return res;
        }
        if matches!(functions[f].instructions[pc], Instruction::Store) {
            res.stores_checked += 1;
            match store_count.get(&(f, pc)) {
                None => {
                    store_count.insert((f, pc), l);
                }
                Some(&first) if first != l && res.misaligned.is_none() => {
                    res.misaligned = Some((f, pc, first, l, k));
                }
                _ => {}
            }
        }
        res.points += 1;
    }
    res
}

// ---------------------------------------------------------------------------------------------
// merged packaging: a worker handle that swallows commands

struct NullWorker;
impl quiver_environment::WorkerHandle<NativeEffect> for NullWorker {
    fn send(&mut self, _c: quiver_environment::Command<NativeEffect>) -> Result<(), quiver_environment::EnvironmentError> {
        Ok(())
    }
    fn try_recv(&mut self) -> Result<Option<quiver_environment::Event<NativeEffect>>, quiver_environment::EnvironmentError> {
        Ok(None)
    }
}

/// Merge `prefix` programs then `bc` into a fresh Environment; returns the merged program's
/// bytecode view.
fn merged(prefix: &[&Bytecode], bc: &Bytecode) -> Result<Bytecode, String> {
    let prefix: Vec<Bytecode> = prefix.iter().map(|b| (*b).clone()).collect();
    let bc = bc.clone();
    catch(move || {
        let mut env: quiver_environment::Environment<NativeEffect> =
            quiver_environment::Environment::new(vec![Box::new(NullWorker)]);
        for p in prefix {
            env.start_process(Some(p)).map_err(|e| format!("{e:?}"))?;
        }
        env.start_process(Some(bc)).map_err(|e| format!("{e:?}"))?;
        Ok::<Bytecode, String>(env.get_program().to_bytecode(None))
    })
    .unwrap_or_else(|p| Err(format!("panic: {p}")))
}

// ---------------------------------------------------------------------------------------------

struct Source {
    origin: String,
    text: String,
}

fn corpus_sources() -> Vec<Source> {
    let mut v = vec![];
    for (name, _) in qverif::corpus::std_modules() {
        v.push(Source { origin: format!("std/{name}.qv"), text: format!("%{name}") });
    }
    for (i, b) in qverif::corpus::spec_blocks().into_iter().enumerate() {
        v.push(Source { origin: format!("spec#{i}"), text: b });
    }
    for (name, text) in qverif::corpus::examples() {
        v.push(Source { origin: format!("examples/{name}"), text });
    }
    for (i, (file, text)) in qverif::corpus::test_sources().into_iter().enumerate() {
        v.push(Source { origin: format!("tests/{file}#{i}"), text });
    }
    v
}

fn regression_sources() -> Vec<Source> {
    let mut v = vec![];
    let dir = "/verif/corpus/C07";
    let mut files: Vec<_> = std::fs::read_dir(dir).map(|d| d.filter_map(|e| e.ok()).map(|e| e.path()).collect()).unwrap_or_default();
    files.sort();
    for f in files {
        if f.extension().and_then(|e| e.to_str()) == Some("qv") {
            if let Ok(t) = std::fs::read_to_string(&f) {
                v.push(Source { origin: format!("corpus/{}", f.file_name().unwrap().to_string_lossy()), text: t });
            }
        }
    }
    v
}

struct Ctx {
    b: Builtins,
    model: Model,
    programs: u64,
    functions: u64,
    instructions: u64,
    trace_points: u64,
    /// a few small compiled programs kept as merge prefixes
    prefixes: Vec<Bytecode>,
}

fn report_reject(ev: &mut Ev, src: &Source, packaging: &str, t: &Tables, c: &Cert) {
    let (f, pc, why) = c.reject.clone().unwrap();
    let kind = why.split(|ch: char| ch == ' ' || ch == ':').next().unwrap_or("rejected").to_string();
    let sig = format!("packaging={packaging} kind={kind}");
    let code = t.functions.get(f).map(dump_function).unwrap_or_default();
    ev.violation(
        &sig,
        &format!("checkAnn rejects function {f} at pc {pc} ({why}) of {} [{packaging}]", src.origin),
        json!({
            "broken": "certification by the verified checker (C07.checkAnn_sound no longer applies to this program)",
            "origin": src.origin, "source": src.text, "packaging": packaging,
            "function": f, "pc": pc, "reason": why, "captures": t.functions.get(f).map(|x| x.captures),
            "code": code,
        }),
        false,
    );
}

/// Certify + trace one source in all packagings. Returns false if the source does not compile.
fn process_source(cx: &mut Ctx, ev: &mut Ev, src: &Source, rng: &mut Rng, run_it: bool) -> bool {
    let unit: Unit = match compile_source(&src.text, &HashMap::new(), &cx.b) {
        Ok(u) => u,
        Err(FrontError::Parse(_)) => {
            ev.hit("front:parse-error");
            return false;
        }
        Err(FrontError::Compile(_)) => {
            ev.hit("front:compile-error");
            return false;
        }
        Err(FrontError::Panic(p)) => {
            ev.hit("front:panic");
            let _ = p;
            return false;
        }
    };
    ev.hit("front:accepted");
    let bc = unit.program.to_bytecode(Some(unit.entry));
    cx.programs += 1;

    // (a) as compiled
    let t = tables_of(&bc);
    let c = certify(&mut cx.model, &t);
    cx.functions += c.functions as u64;
    cx.instructions += c.instructions as u64;
    ev.add("certified-functions:as-compiled", c.functions as u64);
    for f in &bc.functions {
        for i in &f.instructions {
            ev.hit(&format!("op:{}", instr_token(i).split(':').next().unwrap()));
        }
    }
    let as_compiled_ok = c.reject.is_none();
    if !as_compiled_ok {
        report_reject(ev, src, "as-compiled", &t, &c);
    }

    // trace tie on the as-compiled program
    let mut result_fn: Option<(usize, usize)> = None;
    if run_it && as_compiled_ok {
        let anns_answer = cx.model.ask("(annotations)");
        if let Some(anns) = parse_anns(&anns_answer) {
            let (end, trace) = run_traced(&bc, &cx.b, 400);
            ev.hit(&format!("run:{}", match &end { RunEnd::Value => "value".to_string(), RunEnd::Error(c) => format!("error:{c}"), RunEnd::Panic(_) => "panic".into(), RunEnd::Parked => "parked".into(), RunEnd::Budget => "budget".into() }));
            let tc = check_trace(&bc.functions, &anns, &trace);
            cx.trace_points += tc.points as u64;
            ev.add("trace-points", tc.points as u64);
            ev.hit(&format!("trace-depth:{}", tc.max_depth.min(8)));
            if let Some((k, what)) = tc.mismatch {
                let (f, pc, _, _) = trace[k];
                ev.violation(
                    "trace kind=shape-mismatch",
                    &format!("executor trace leaves the annotated shape in {}: {what}", src.origin),
                    json!({"broken": "correspondence M-VM/M-Check <-> executor (instruction trace vs inferred annotations)",
                           "origin": src.origin, "source": src.text, "trace_index": k, "what": what,
                           "function": f, "pc": pc, "code": dump_function(&bc.functions[f]),
                           "trace_tail": trace[k.saturating_sub(12)..=k].to_vec()}),
                    false,
                );
            }
            ev.add("stores-checked", tc.stores_checked as u64);
            if let Some((f, pc, first, now, k)) = tc.misaligned {
                ev.violation(
                    "run kind=misaligned-local",
                    &format!("{}: the Store at f{f} pc{pc} binds local slot {first} on one execution and slot {now} on another — compile-time slot numbers cannot match both", src.origin),
                    json!({"origin": src.origin, "source": src.text, "function": f, "pc": pc,
                           "locals_at_first_visit": first, "locals_at_this_visit": now, "trace_index": k,
                           "code": dump_function(&bc.functions[f])}),
                    true,
                );
            }
            match &end {
                RunEnd::Error(class) if is_structural(class) => {
                    ev.violation(
                        &format!("run kind=structural-error class={class}"),
                        &format!("{} ends in the structural error {class} on the real VM", src.origin),
                        json!({"origin": src.origin, "source": src.text, "error": class, "last_trace": trace.last()}),
                        true,
                    );
                }
                // (IO builtins have no implementation in this in-process host: not a VM behaviour;
                //  refcount-invariant panics are C06's)
                RunEnd::Panic(p) if !p.contains("refcount") && !p.contains("no implementation in this host") => {
                    ev.violation(
                        "run kind=panic",
                        &format!("{} panics on the real VM: {p}", src.origin),
                        json!({"origin": src.origin, "source": src.text, "panic": p, "last_trace": trace.last()}),
                        true,
                    );
                }
                _ => {}
            }
            // does the program evaluate to a function? (the `quiv run` entry)
            if matches!(end, RunEnd::Value) {
                if let (qverif::run::RunOutcome::Value(Value::Function(fi, caps)), _) =
                    qverif::run::run_sync(bc.clone(), &cx.b, false)
                {
                    result_fn = Some((fi, caps.len()));
                }
            }
        } else {
            ev.violation("driver kind=bad-annotations", "model driver returned unparsable annotations",
                json!({"broken": "qm_c07 (annotations) answer", "answer": anns_answer.chars().take(300).collect::<String>()}), false);
        }
    }

    // (b) tree-shaken from the wrapper entry
    let shaken = catch(|| quiver_core::optimisation::tree_shake(bc.clone(), unit.entry));
    match shaken {
        Ok(sb) => {
            let t = tables_of(&sb);
            let c = certify(&mut cx.model, &t);
            ev.add("certified-functions:tree-shaken", c.functions as u64);
            cx.functions += c.functions as u64;
            if c.reject.is_some() {
                report_reject(ev, src, "tree-shaken", &t, &c);
            } else if run_it && rng.chance(1, 3) {
                // the shaken program must run through the same shapes
                if let Some(anns) = parse_anns(&cx.model.ask("(annotations)")) {
                    let (end, trace) = run_traced(&sb, &cx.b, 400);
                    let tc = check_trace(&sb.functions, &anns, &trace);
                    ev.add("trace-points", tc.points as u64);
                    cx.trace_points += tc.points as u64;
                    if let Some((k, what)) = tc.mismatch {
                        ev.violation("trace kind=shape-mismatch packaging=tree-shaken",
                            &format!("executor trace of the tree-shaken program leaves the annotated shape in {}: {what}", src.origin),
                            json!({"broken": "correspondence M-VM/M-Check <-> executor on tree-shaken bytecode", "origin": src.origin, "source": src.text, "trace_index": k, "what": what}), false);
                    }
                    if let RunEnd::Error(class) = &end {
                        if is_structural(class) {
                            ev.violation(&format!("run kind=structural-error class={class} packaging=tree-shaken"),
                                &format!("{} (tree-shaken) ends in the structural error {class} on the real VM", src.origin),
                                json!({"origin": src.origin, "source": src.text, "error": class}), true);
                        }
                    }
                }
            }
        }
        Err(p) => {
            ev.violation("packaging=tree-shaken kind=panic", &format!("tree_shake panics on {}: {p}", src.origin),
                json!({"origin": src.origin, "source": src.text, "panic": p}), true);
        }
    }

    // (b') tree-shaken from the function the program evaluates to (`quiv run` recipe)
    if let Some((fi, ncaps)) = result_fn {
        if ncaps == 0 {
            match catch(|| quiver_core::optimisation::tree_shake(bc.clone(), fi)) {
                Ok(sb) => {
                    let t = tables_of(&sb);
                    let c = certify(&mut cx.model, &t);
                    ev.add("certified-functions:tree-shaken-entry", c.functions as u64);
                    cx.functions += c.functions as u64;
                    if c.reject.is_some() {
                        report_reject(ev, src, "tree-shaken-entry", &t, &c);
                    }
                }
                Err(p) => ev.violation("packaging=tree-shaken-entry kind=panic", &format!("tree_shake panics on {}: {p}", src.origin),
                    json!({"origin": src.origin, "source": src.text, "panic": p}), true),
            }
        } else {
            ev.hit("entry-function-with-captures");
        }
    }

    // (c) merged into a running environment behind 0–3 other programs
    let k = rng.usize(4).min(cx.prefixes.len());
    let mut idx: Vec<usize> = (0..cx.prefixes.len()).collect();
    rng.shuffle(&mut idx);
    let prefix: Vec<&Bytecode> = idx[..k].iter().map(|&i| &cx.prefixes[i]).collect();
    match merged(&prefix, &bc) {
        Ok(mb) => {
            let t = tables_of(&mb);
            let c = certify(&mut cx.model, &t);
            ev.add("certified-functions:merged", c.functions as u64);
            ev.hit(&format!("merge-prefix:{k}"));
            cx.functions += c.functions as u64;
            if c.reject.is_some() {
                report_reject(ev, src, "merged", &t, &c);
            }
        }
        Err(e) => {
            ev.violation("packaging=merged kind=merge-failed", &format!("merging {} into an Environment fails: {e}", src.origin),
                json!({"origin": src.origin, "source": src.text, "error": e}), true);
        }
    }
    if cx.prefixes.len() < 12 && bc.functions.len() >= 2 && bc.functions.len() <= 40 {
        cx.prefixes.push(bc);
    } else if !cx.prefixes.is_empty() && bc.functions.len() <= 60 && rng.chance(1, 20) {
        let i = rng.usize(cx.prefixes.len());
        cx.prefixes[i] = bc;
    }
    true
}

fn main() {
    qverif::quiet_panics();
    let opts = Opts::parse();
    let mut ev = Ev::new("C07", &opts);
    ev.rule = "one case = one accepted source program (corpus or generated), certified function by function by \
               the Lean checker in each packaging (as compiled, tree-shaken, merged) and run on the real VM with \
               the instruction trace; non-trivial when it compiles and has at least one function with a jump; \
               distinct by source text"
        .into();
    let b = qverif::run::builtins();
    let model = Model::spawn(opts.model.as_ref().expect("--model"));
    let mut cx = Ctx { b, model, programs: 0, functions: 0, instructions: 0, trace_points: 0, prefixes: vec![] };

    let mut sources = regression_sources();
    let n_regress = sources.len();
    sources.extend(corpus_sources());
    let n_corpus = sources.len() - n_regress;
    let mut rng = Rng::for_case(opts.seed ^ 0xC07, 0);

    // quick: all of std/spec/examples, a seeded subset of the test sources; thorough: all
    let quick = opts.tier == qverif::Tier::Quick;
    let mut accepted = 0u64;
    for (i, src) in sources.iter().enumerate() {
        let is_test = src.origin.starts_with("tests/");
        if quick && is_test && !rng.chance(19, 20) {
            ev.hit("corpus:skipped-in-quick");
            continue;
        }
        let ok = process_source(&mut cx, &mut ev, src, &mut rng, true);
        if ok {
            accepted += 1;
        }
        ev.case(&src.text, ok);
        ev.sample_sparse(i as u64, 400, || json!({"origin": src.origin, "accepted": ok, "source": src.text.chars().take(200).collect::<String>()}));
    }
    ev.set_extra("corpus_sources", json!(n_corpus));
    ev.set_extra("regression_sources", json!(n_regress));
    ev.set_extra("corpus_accepted", json!(accepted));

    // generated programs
    let n_gen = opts.tier.pick(1500u64, 40000u64);
    let mut gen_accepted = 0u64;
    for i in 0..n_gen {
        let mut r = Rng::for_case(opts.seed ^ 0x6E07, i);
        let text = cgen::program(&mut r, &mut ev);
        let src = Source { origin: format!("generated#{i}"), text };
        let ok = process_source(&mut cx, &mut ev, &src, &mut r, true);
        if ok {
            gen_accepted += 1;
        }
        ev.case(&src.text, ok);
        ev.sample_sparse(i, 150, || json!({"origin": src.origin, "accepted": ok, "source": src.text}));
    }
    ev.set_extra("generated", json!(n_gen));
    ev.set_extra("generated_accepted", json!(gen_accepted));
    ev.set_extra("programs", json!(cx.programs));
    ev.set_extra("functions_certified", json!(cx.functions));
    ev.set_extra("instructions_as_compiled", json!(cx.instructions));
    ev.set_extra("trace_points_checked", json!(cx.trace_points));
    ev.set_extra("model_requests", json!(cx.model.requests));
    println!(
        "C07: {} programs ({} corpus accepted, {} generated accepted), {} function certifications, {} trace points",
        cx.programs, accepted, gen_accepted, cx.functions, cx.trace_points
    );
    std::process::exit(ev.finish());
}
