//! Shared by the C07 and C16 harness binaries (included with `#[path]`): serialisation of
//! `Bytecode` to the M-VM wire format, certification through the model driver, real runs with the
//! `verif` instruction trace, and the trace replay against the inferred annotations.
#![allow(dead_code)]
use qverif::run::Builtins;
use qverif::{Model, catch};
use quiver_core::bytecode::{Bytecode, Function, Instruction};
use quiver_core::compatibility::{
    CompatibilityInput, compute_canonical_tuples, compute_param_compatibility, compute_type_compatibility,
};
use quiver_core::executor::{Executor, ProgramUpdate};
use quiver_core::value::Value;
use quiver_io::NativeEffect;
use std::collections::HashMap;

// ---------------------------------------------------------------------------------------------
// serialisation for the model

pub fn instr_token(i: &Instruction) -> String {
    use Instruction::*;
    match i {
        Constant(a) => format!("Constant:{a}"),
        Pop => "Pop".into(),
        Duplicate => "Duplicate".into(),
        Pick(a) => format!("Pick:{a}"),
        Rotate(a) => format!("Rotate:{a}"),
        Reset(a) => format!("Reset:{a}"),
        Load(a) => format!("Load:{a}"),
        Store => "Store".into(),
        Tuple(a) => format!("Tuple:{a}"),
        Get(a) => format!("Get:{a}"),
        IsType(a) => format!("IsType:{a}"),
        Jump(a) => format!("Jump:{a}"),
        JumpIf(a) => format!("JumpIf:{a}"),
        Call => "Call".into(),
        TailCall(r) => format!("TailCall:{}", if *r { 1 } else { 0 }),
        Function(a) => format!("Function:{a}"),
        Builtin(a) => format!("Builtin:{a}"),
        Equal(a) => format!("Equal:{a}"),
        Not => "Not".into(),
        Spawn => "Spawn".into(),
        Send => "Send".into(),
        Self_ => "Self_".into(),
        Select => "Select".into(),
        Process(a, b) => format!("Process:{a}:{b}"),
    }
}

/// The tables of a program as the checker sees them.
pub struct Tables<'a> {
    pub constants: usize,
    pub tuples: Vec<usize>,
    pub types: usize,
    pub builtins: usize,
    pub functions: &'a [Function],
}

pub fn tables_of(bc: &Bytecode) -> Tables<'_> {
    Tables {
        constants: bc.constants.len(),
        tuples: bc.tuples.iter().map(|t| t.fields.len()).collect(),
        types: bc.types.len(),
        builtins: bc.builtins.len(),
        functions: &bc.functions,
    }
}

pub fn prog_lines(t: &Tables) -> Vec<String> {
    let mut lines = Vec::with_capacity(t.functions.len() + 1);
    let mut head = format!("(prog (consts {}) (tuples", t.constants);
    for a in &t.tuples {
        head.push(' ');
        head.push_str(&a.to_string());
    }
    head.push_str(&format!(") (types {}) (builtins {}))", t.types, t.builtins));
    lines.push(head);
    for f in t.functions {
        let mut s = format!("(fn {}", f.captures);
        for i in &f.instructions {
            s.push(' ');
            s.push_str(&instr_token(i));
        }
        s.push(')');
        lines.push(s);
    }
    lines
}

#[derive(Clone, Copy, Debug, PartialEq)]
pub struct Ann {
    pub h: usize,
    pub l: usize,
}

pub fn parse_anns(answer: &str) -> Option<Vec<Vec<Option<Ann>>>> {
    // "anns (h:l _ ...) (...)"
    let rest = answer.strip_prefix("anns")?;
    let mut out = vec![];
    let mut cur: Option<Vec<Option<Ann>>> = None;
    let mut tok = String::new();
    let flush = |tok: &mut String, cur: &mut Option<Vec<Option<Ann>>>| -> Option<()> {
        if tok.is_empty() {
            return Some(());
        }
        let c = cur.as_mut()?;
        if tok == "_" {
            c.push(None);
        } else {
            // `h:l` or `h:l:<guard>` (the nil guard is the model's business; the trace check uses
            // height and the unconditional locals bound)
            let mut parts = tok.split(':');
            let (h, l) = (parts.next()?, parts.next()?);
            c.push(Some(Ann { h: h.parse().ok()?, l: l.parse().ok()? }));
        }
        tok.clear();
        Some(())
    };
    for ch in rest.chars() {
        match ch {
            '(' => cur = Some(vec![]),
            ')' => {
                flush(&mut tok, &mut cur)?;
                out.push(cur.take()?);
            }
            ' ' => flush(&mut tok, &mut cur)?,
            c => tok.push(c),
        }
    }
    Some(out)
}

// ---------------------------------------------------------------------------------------------
// certification

pub struct Cert {
    pub functions: usize,
    pub instructions: usize,
    /// None = certified; Some((f, pc, reason))
    pub reject: Option<(usize, usize, String)>,
}

pub fn certify(model: &mut Model, t: &Tables) -> Cert {
    let mut lines = prog_lines(t);
    lines.push("(certify)".into());
    let answers = model.ask_all(&lines);
    let last = answers.last().cloned().unwrap_or_default();
    let instructions = t.functions.iter().map(|f| f.instructions.len()).sum();
    for (i, a) in answers[..answers.len() - 1].iter().enumerate() {
        if !a.starts_with("ok") {
            return Cert { functions: t.functions.len(), instructions, reject: Some((i.saturating_sub(1), 0, format!("model driver refused the program line {i}: {a}"))) };
        }
    }
    let reject = if last.starts_with("ok") {
        None
    } else if let Some(r) = last.strip_prefix("reject ") {
        let mut it = r.splitn(3, ' ');
        let f = it.next().and_then(|x| x.parse().ok()).unwrap_or(0);
        let pc = it.next().and_then(|x| x.parse().ok()).unwrap_or(0);
        Some((f, pc, it.next().unwrap_or("").to_string()))
    } else {
        Some((0, 0, format!("unexpected model answer: {last}")))
    };
    Cert { functions: t.functions.len(), instructions, reject }
}

pub fn dump_function(f: &Function) -> Vec<String> {
    f.instructions.iter().enumerate().map(|(pc, i)| format!("{pc}: {}", instr_token(i))).collect()
}

// ---------------------------------------------------------------------------------------------
// real runs with the instruction trace

#[derive(Debug)]
pub enum RunEnd {
    Value,
    Error(String),
    Panic(String),
    Parked,
    Budget,
}

pub type Trace = Vec<(usize, usize, usize, usize)>;

/// `execute_bytecode_sync` with a step budget and the instruction trace switched on. Stops when
/// the process parks (an action was returned that nobody routes on the sync path).
pub fn run_traced(bc: &Bytecode, b: &Builtins, max_slices: usize) -> (RunEnd, Trace) {
    let (end, trace, _) = run_budgeted(bc, b, false, true, max_slices, 200);
    (end, trace)
}

/// The sync-path loop of `execute_bytecode_sync` with a slice budget (a run that does not finish is
/// an outcome, not a hang), optional profiling and optional instruction trace. Returns the
/// executor when the process produced a value.
pub fn run_budgeted(
    bc: &Bytecode,
    b: &Builtins,
    profile: bool,
    trace_on: bool,
    max_slices: usize,
    slice_units: usize,
) -> (RunEnd, Trace, Option<Executor<NativeEffect>>) {
    let (a, b2, c, _) = run_budgeted_heap(bc, b, profile, trace_on, max_slices, slice_units, false);
    (a, b2, c)
}

/// Peak heap occupancy sampled after every `step` (where `process_pending_free` has just run and
/// one slice of garbage has been produced): slots in use (allocated, not in the reuse pool) and
/// length of the deferred-free queue.
#[derive(Clone, Copy, Debug, Default)]
pub struct HeapPeaks {
    pub in_use: usize,
    pub pending: usize,
}

pub fn run_budgeted_heap(
    bc: &Bytecode,
    b: &Builtins,
    profile: bool,
    trace_on: bool,
    max_slices: usize,
    slice_units: usize,
    sample_heap: bool,
) -> (RunEnd, Trace, Option<Executor<NativeEffect>>, HeapPeaks) {
    let Some(entry) = bc.entry else { return (RunEnd::Error("no entry".into()), vec![], None, HeapPeaks::default()) };
    // a panic inside a simulator run may have left the per-thread controls set
    quiver_core::executor::verif::set_quantum_override(None);
    quiver_core::executor::verif::set_trace(None);
    if trace_on {
        quiver_core::executor::verif::set_trace(Some(vec![]));
    }
    let bc2 = bc.clone();
    let r = catch(move || {
        let mut ex: Executor<NativeEffect> = Executor::new(b.clone(), profile, 0);
        let input = CompatibilityInput {
            types: &bc2.types,
            tuples: &bc2.tuples,
            functions: &bc2.functions,
            builtins: &bc2.builtins,
            resource_names: &bc2.resources,
        };
        let type_compatibility = compute_type_compatibility(&input);
        let canonical_tuples = compute_canonical_tuples(&bc2.tuples);
        let (fpc, bpc) = compute_param_compatibility(&input);
        ex.update_program(ProgramUpdate {
            constants: bc2.constants.clone(),
            functions: bc2.functions.clone(),
            tuples: bc2.tuples[2..].to_vec(),
            types: bc2.types.clone(),
            builtins: bc2.builtins.clone(),
            resources: bc2.resources.clone(),
            type_compatibility,
            function_param_compatibility: fpc,
            builtin_param_compatibility: bpc,
            canonical_tuples,
        });
        let mut hp = HeapPeaks::default();
        if let Err(e) = ex.spawn_process(0, Some(entry), vec![], Value::nil(), vec![], false) {
            return (RunEnd::Error(qverif::canon::error_class(&e)), None, hp);
        }
        for _ in 0..max_slices {
            let (did, action) = ex.step(slice_units, 0);
            if sample_heap {
                let hv = ex.verif_heap_view();
                hp.in_use = hp.in_use.max(hv.freed.iter().filter(|f| !**f).count());
                hp.pending = hp.pending.max(hv.pending_free.len());
            }
            let Some(p) = ex.get_process(0) else { return (RunEnd::Error("process disappeared".into()), None, hp) };
            if let Some(res) = &p.result {
                return match res {
                    Ok(_) => (RunEnd::Value, Some(ex), hp),
                    Err(e) => (RunEnd::Error(error_detail(e)), None, hp),
                };
            }
            if action.is_some() || !did {
                return (RunEnd::Parked, None, hp);
            }
        }
        (RunEnd::Budget, None, hp)
    });
    let trace = if trace_on {
        let t = quiver_core::executor::verif::take_trace().unwrap_or_default();
        quiver_core::executor::verif::set_trace(None);
        t
    } else {
        vec![]
    };
    match r {
        Ok((e, ex, hp)) => (e, trace, ex, hp),
        Err(p) => (RunEnd::Panic(p.lines().next().unwrap_or("").to_string()), trace, None, HeapPeaks::default()),
    }
}

/// Does the program contain process instructions (which park the process on the sync path)?
pub fn has_process_ops(bc: &Bytecode) -> bool {
    bc.functions.iter().any(|f| {
        f.instructions.iter().any(|i| {
            matches!(i, Instruction::Spawn | Instruction::Send | Instruction::Select | Instruction::Self_ | Instruction::Process(_, _))
        })
    })
}

pub struct SystemRun {
    /// the program the worker's executor runs: `Environment::get_program()` after the last line
    /// was merged
    pub program: Bytecode,
    /// the REPL process: one trace per submitted line that ran (each line is a fresh entry on the
    /// persistent process)
    pub repl_lines: Vec<Trace>,
    /// every other process: its instruction trace (continuing across lines)
    pub traces: std::collections::BTreeMap<usize, Trace>,
    /// outcome of the last line that ran
    pub outcome: String,
    pub lines_run: usize,
    /// lines the front end rejected (the session continued)
    pub lines_rejected: usize,
    /// trace segments that could not be attributed to a process
    pub unattributed: usize,
}

/// Evaluate `src` as a REPL line in the full system (see `run_session_traced`).
pub fn run_system_traced(src: &str, b: &Builtins, max_rounds: usize) -> Result<SystemRun, String> {
    run_session_traced_on(&[src.to_string()], b, max_rounds, 1)
}

pub fn run_session_traced(lines: &[String], b: &Builtins, max_rounds: usize) -> Result<SystemRun, String> {
    run_session_traced_on(lines, b, max_rounds, 1)
}

/// Evaluate `lines` one after the other as REPL lines in the full system (real `Environment` + one
/// real `Worker`, single-threaded deterministic simulator `qverif::sim`), recording the
/// instruction trace *per process*: every worker step is split into "handle commands, execute
/// nothing" (time slice 0) and "execute the front of the run queue" (no command visible), so the
/// process that runs is known before the step. The next line is submitted only when no process is
/// runnable (the REPL's own bookkeeping rounds then execute nothing untraced).
///
/// With `n_workers > 1` processes live on different executors (pid round-robin) and values cross
/// between them by copy; the instruction trace is thread-local and the simulator single-threaded,
/// so every traced worker step is attributed to `(worker, front of that worker's run queue)`; pids
/// are global, so a process's trace is still one sequence.
pub fn run_session_traced_on(lines: &[String], b: &Builtins, max_rounds: usize, n_workers: usize) -> Result<SystemRun, String> {
    run_session_traced_with(lines, &HashMap::new(), b, max_rounds, n_workers)
}

/// As above, with in-memory modules (`%name` imports). A line the front end rejects is skipped
/// (counted in `lines_rejected`) and the session goes on — the REPL keeps its state across a failed
/// line, which is exactly what has to stay consistent.
pub fn run_session_traced_with(
    lines: &[String],
    modules: &HashMap<Vec<String>, String>,
    b: &Builtins,
    max_rounds: usize,
    n_workers: usize,
) -> Result<SystemRun, String> {
    use qverif::sim::{Choice, Sim};
    let lines = lines.to_vec();
    let b = b.clone();
    let modules = modules.clone();
    catch(move || {
        let mut sim = Sim::new(n_workers, None, b, false).with_repl(modules);
        let mut traces: std::collections::BTreeMap<usize, Trace> = Default::default();
        let mut repl_lines: Vec<Trace> = vec![];
        let mut unattributed = 0usize;
        let mut outcome = "budget".to_string();
        let mut lines_run = 0usize;
        let mut lines_rejected = 0usize;
        for (li, src) in lines.iter().enumerate() {
            if li > 0 {
                // let pending commands / events drain without executing any instruction
                sim.quantum = Some(0);
                for _ in 0..4 {
                    sim.fair_round();
                }
                sim.quantum = None;
                if !sim.idle() {
                    break;
                }
            }
            let req = match sim.submit(src) {
                Ok(Some(id)) => id,
                Ok(None) => continue,
                Err(e) => {
                    lines_rejected += 1;
                    if std::env::var("C07_DEBUG_REJECTED").is_ok() {
                        eprintln!("rejected line {li}: {src}  -- {}", format!("{e:?}").chars().take(160).collect::<String>());
                    }
                    continue;
                }
            };
            let repl_pid = sim.repl.as_ref().map(|r| r.process_id()).unwrap_or(0);
            repl_lines.push(vec![]);
            lines_run += 1;
            outcome = "budget".to_string();
            let mut idle_rounds = 0;
            for _ in 0..max_rounds {
                if let Some(r) = sim.poll_result(req) {
                    outcome = match r {
                        Ok(_) => "value".to_string(),
                        Err(e) => format!("error:{}", error_detail(&e)),
                    };
                    break;
                }
                sim.step(Choice::Env { visible: vec![usize::MAX; n_workers] });
                for w in 0..n_workers {
                    // commands only
                    sim.quantum = Some(0);
                    sim.step(Choice::Worker { i: w, visible: usize::MAX });
                    // settle expired time-outs into the queue
                    sim.step(Choice::Worker { i: w, visible: 0 });
                    sim.quantum = None;
                    let pid = sim.workers[w].verif_executor().verif_queue().first().copied();
                    quiver_core::executor::verif::set_trace(Some(vec![]));
                    sim.step(Choice::Worker { i: w, visible: 0 });
                    let seg = quiver_core::executor::verif::take_trace().unwrap_or_default();
                    quiver_core::executor::verif::set_trace(None);
                    if !seg.is_empty() {
                        match pid {
                            Some(pid) if pid == repl_pid => repl_lines.last_mut().unwrap().extend(seg),
                            Some(pid) => traces.entry(pid).or_default().extend(seg),
                            None => unattributed += 1,
                        }
                    }
                }
                if !sim.faults.is_empty() {
                    outcome = format!("fault:{}", sim.faults[0].2.lines().next().unwrap_or(""));
                    break;
                }
                if sim.idle() {
                    match sim.next_timeout() {
                        Some(t) => {
                            let ms = t.saturating_sub(sim.time_ms).max(1);
                            sim.step(Choice::Tick { ms });
                            idle_rounds = 0;
                        }
                        None => {
                            idle_rounds += 1;
                            if idle_rounds > 6 {
                                outcome = "quiescent".to_string();
                                break;
                            }
                        }
                    }
                } else {
                    idle_rounds = 0;
                }
            }
            if outcome != "value" {
                break;
            }
        }
        quiver_core::executor::verif::set_quantum_override(None);
        if lines_run == 0 {
            return Err(if lines_rejected > 0 { "rejected".to_string() } else { "no code".to_string() });
        }
        let program = sim.env.get_program().to_bytecode(None);
        Ok(SystemRun { program, repl_lines, traces, outcome, lines_run, lines_rejected, unattributed })
    })
    .unwrap_or_else(|p| {
        quiver_core::executor::verif::set_quantum_override(None);
        quiver_core::executor::verif::set_trace(None);
        Err(format!("panic: {}", p.lines().next().unwrap_or("")))
    })
}

pub fn error_detail(e: &quiver_core::Error) -> String {
    match e {
        quiver_core::Error::TypeMismatch { expected, .. } if expected == "known tuple type" => "TupleUndefined".into(),
        other => qverif::canon::error_class(other),
    }
}

pub fn is_structural(class: &str) -> bool {
    matches!(
        class,
        "StackUnderflow" | "VariableUndefined" | "ConstantUndefined" | "FunctionUndefined" | "BuiltinUndefined"
            | "FrameUnderflow" | "TupleUndefined"
    )
}

/// Shadow frame while replaying a trace.
#[derive(Clone, Debug)]
pub struct Shadow {
    pub f: usize,
    pub base: usize,
    pub pc: usize,
    /// 0 = not evaluating a Select; 1 = Select initialised (sources popped: height is
    /// ann.height - 1); 2 = a filter function was called from the Select (its verdict will be on
    /// the stack when it returns: height is ann.height again, counter not incremented)
    pub sel: u8,
    /// frame-relative locals count M-VM predicts at `pc` (exact: `Store` +1, `Reset(n)` = n,
    /// entry / tail call = captures, a return truncates to the callee's base)
    pub l: usize,
    /// (stack length, frame-relative locals) when this frame slot was first entered
    pub entry: (usize, usize),
    /// function first entered in this slot
    pub entry_f: usize,
    /// stack length the caller must see when this frame returns (Call: the two operands replaced
    /// by exactly one result); None for the bottom frame and for filter frames of a Select
    pub ret_s: Option<usize>,
}

pub struct TraceCheck {
    pub points: usize,
    pub max_depth: usize,
    /// (index in trace, description)
    pub mismatch: Option<(usize, String)>,
    /// a `Store` executed with different frame-relative locals counts on different visits:
    /// (function, pc, count seen first, count seen now, trace index)
    pub misaligned: Option<(usize, usize, usize, usize, usize)>,
    pub stores_checked: usize,
    /// observed `TailCall` steps (capped): state before / after, used by C16
    pub tailcalls: Vec<TailCallObs>,
    /// sampled points with the reconstructed frame list (current frame first), used by C16
    pub samples: Vec<FrameSample>,
    /// loop heads: a frame slot re-entered through a tail call with sizes different from those at
    /// its first entry: (trace index, function, first (stack, locals), now (stack, locals))
    pub loop_head_drift: Option<(usize, usize, (usize, usize), (usize, usize))>,
    pub reentries: usize,
    /// distinct observed steps that stay in / push / replace the current frame:
    /// request `(step f pc s l variant)` → the answer the executor's behaviour corresponds to
    pub steps: HashMap<String, String>,
    /// `Select` ran a filter function on a message (frame pushed from the select, verdict returned
    /// without incrementing the counter)
    pub select_filter_calls: usize,
}

#[derive(Clone, Debug)]
pub struct TailCallObs {
    pub index: usize,
    pub recurse: bool,
    /// function / stack length / frame-relative locals / reconstructed depth before the step
    pub f: usize,
    pub s: usize,
    pub l: usize,
    pub depth: usize,
    /// the next traced point, if it is the entry of the target: (function, stack len, locals)
    pub after: Option<(usize, usize, usize)>,
    /// suspended frames (innermost first) as (function, pc)
    pub rest: Vec<(usize, usize)>,
}

#[derive(Clone, Debug)]
pub struct FrameSample {
    pub index: usize,
    pub stack_len: usize,
    /// current frame first
    pub frames: Vec<(usize, usize)>,
}

/// Replays the trace against the inferred annotations, reconstructing each frame's entry base
/// (stack length at function entry minus the argument).
pub fn check_trace(functions: &[Function], anns: &[Vec<Option<Ann>>], trace: &Trace) -> TraceCheck {
    check_trace_from(functions, anns, trace, None)
}

/// `entry_locals`: locals count the first frame starts with (a REPL continuation line starts with
/// the session's variables; everything else with its captures).
pub fn check_trace_from(
    functions: &[Function],
    anns: &[Vec<Option<Ann>>],
    trace: &Trace,
    entry_locals: Option<usize>,
) -> TraceCheck {
    let mut shadow: Vec<Shadow> = vec![];
    let mut res = TraceCheck { points: 0, max_depth: 0, mismatch: None, misaligned: None, stores_checked: 0, tailcalls: vec![], samples: vec![], loop_head_drift: None, reentries: 0, steps: HashMap::new(), select_filter_calls: 0 };
    let sample_every = (trace.len() / 150).max(1);
    // slot numbering: the compiler gives the variable bound by a `Store` the index `local_count`
    // it has at that point; the VM appends at the runtime count. They agree only if every
    // execution of a given `Store` happens at the same frame-relative count.
    let mut store_count: HashMap<(usize, usize), usize> = HashMap::new();
    // pops exhausted frames; returns false if the shadow stack ran out
    fn settle(shadow: &mut Vec<Shadow>, functions: &[Function], expect: &mut Vec<usize>) {
        while let Some(top) = shadow.last() {
            if top.pc < functions[top.f].instructions.len() {
                break;
            }
            if let Some(r) = top.ret_s {
                expect.push(r);
            }
            shadow.pop();
            if let Some(c) = shadow.last_mut() {
                if c.sel != 2 {
                    c.pc += 1;
                }
            }
        }
    }
    // (depth, base) of the frame that executed the previous traced instruction
    let mut prev_frame: Option<(usize, usize)> = None;
    // stack lengths the callers of the frames that just returned expect to see
    let mut ret_expect: Vec<usize> = vec![];
    let have_anns = !anns.is_empty();
    // without annotations (a program the checker rejected): relative height first seen at each pc
    let mut seen_height: HashMap<(usize, usize), usize> = HashMap::new();
    for (k, &(f, pc, s, l)) in trace.iter().enumerate() {
        if k == 0 {
            if s == 0 {
                res.mismatch = Some((0, "empty stack at process entry".into()));
                return res;
            }
            shadow.push(Shadow { f, base: s - 1, pc: 0, sel: 0, l: entry_locals.unwrap_or(functions[f].captures), entry: (s, l), entry_f: f, ret_s: None });
        } else {
            // the previous point executed the instruction at the top shadow frame
            ret_expect.clear();
            let (pf, ppc, _ps, _pl) = trace[k - 1];
            let pinstr = functions[pf].instructions[ppc];
            let n = functions[pf].instructions.len() as isize;
            let target = |off: isize| -> usize {
                let t = ppc as isize + off + 1;
                if t < 0 || t > n { usize::MAX } else { t as usize }
            };
            match pinstr {
                Instruction::Call => {
                    if pc == 0 && s > 0 {
                        // new frame (a function value was called): its argument is on top; when it
                        // returns, exactly one value has replaced the two operands of the Call
                        shadow.push(Shadow { f, base: s - 1, pc: 0, sel: 0, l: functions[f].captures, entry: (s, l), entry_f: f, ret_s: Some(_ps.saturating_sub(1)) });
                    } else {
                        // builtin, or a callee with an empty body
                        shadow.last_mut().unwrap().pc = ppc + 1;
                        settle(&mut shadow, functions, &mut ret_expect);
                    }
                }
                Instruction::TailCall(_) => {
                    let base = shadow.last().unwrap().base;
                    let (entry, entry_f) = {
                        let t = shadow.last().unwrap();
                        (t.entry, t.entry_f)
                    };
                    if let Some(obs) = res.tailcalls.last_mut() {
                        if obs.index == k - 1 && pc == 0 {
                            obs.after = Some((f, s, l));
                        }
                    }
                    if pc == 0 {
                        // re-entry of the frame slot: sizes must be those of its first entry
                        res.reentries += 1;
                        let expect_l = if f == entry_f { entry.1 } else { functions[f].captures };
                        if (s != entry.0 || l != expect_l) && res.loop_head_drift.is_none() {
                            res.loop_head_drift = Some((k, f, entry, (s, l)));
                        }
                        *shadow.last_mut().unwrap() =
                            Shadow { f, base, pc: 0, sel: 0, l: functions[f].captures, entry, entry_f, ret_s: shadow.last().unwrap().ret_s };
                    } else {
                        // tail-called function has an empty body: frame exhausted at once
                        let top = shadow.last_mut().unwrap();
                        top.pc = usize::MAX;
                        let fl = functions[top.f].instructions.len();
                        top.pc = fl;
                        settle(&mut shadow, functions, &mut ret_expect);
                    }
                }
                Instruction::Select => {
                    let top = shadow.last_mut().unwrap();
                    if f == pf && pc == ppc {
                        // initialised (or a verdict was consumed) and the Select runs again
                        top.sel = 1;
                    } else if pc == 0 && s > 0 {
                        // a filter function was called on a message
                        res.select_filter_calls += 1;
                        top.sel = 2;
                        shadow.push(Shadow { f, base: s - 1, pc: 0, sel: 0, l: functions[f].captures, entry: (s, l), entry_f: f, ret_s: None });
                    } else {
                        top.sel = 0;
                        top.pc = ppc + 1;
                        settle(&mut shadow, functions, &mut ret_expect);
                    }
                }
                Instruction::Jump(off) => {
                    shadow.last_mut().unwrap().pc = target(off);
                    settle(&mut shadow, functions, &mut ret_expect);
                }
                Instruction::JumpIf(off) => {
                    // either successor; take the one the trace shows
                    let mut ret_a = vec![];
                    let mut ret_b = vec![];
                    let mut a = shadow.clone();
                    a.last_mut().unwrap().pc = ppc + 1;
                    settle(&mut a, functions, &mut ret_a);
                    let mut b2 = shadow.clone();
                    b2.last_mut().unwrap().pc = target(off);
                    if target(off) != usize::MAX {
                        settle(&mut b2, functions, &mut ret_b);
                    }
                    let matches = |sh: &Vec<Shadow>| sh.last().map(|t| t.f == f && t.pc == pc).unwrap_or(false);
                    if matches(&a) {
                        shadow = a;
                        ret_expect = ret_a;
                    } else {
                        shadow = b2;
                        ret_expect = ret_b;
                    }
                }
                other => {
                    let top = shadow.last_mut().unwrap();
                    match other {
                        Instruction::Store => top.l += 1,
                        Instruction::Reset(n) => top.l = n,
                        _ => {}
                    }
                    top.pc = ppc + 1;
                    settle(&mut shadow, functions, &mut ret_expect);
                }
            }
        }
        res.max_depth = res.max_depth.max(shadow.len());
        let Some(top) = shadow.last() else {
            res.mismatch = Some((k, format!("trace continues at f{f} pc{pc} after the reconstructed frame stack emptied")));
            return res;
        };
        if top.f != f || top.pc != pc {
            res.mismatch = Some((k, format!("control flow: reconstructed frame is at f{} pc{}, executor is at f{f} pc{pc}", top.f, top.pc)));
            return res;
        }
        // a frame that returned must have replaced its argument by exactly one result
        if let Some(&want) = ret_expect.iter().find(|&&w| w != s) {
            res.mismatch = Some((k, format!("return: a callee returned to f{f} pc{pc} leaving stack_len={s}, its caller's Call expects {want} (argument not replaced by exactly one result)")));
            return res;
        }
        if have_anns {
            let Some(Some(a)) = anns.get(f).and_then(|v| v.get(pc)) else {
                res.mismatch = Some((k, format!("executor reached f{f} pc{pc}, which the inferred annotations mark unreachable")));
                return res;
            };
            let expect_h = if top.sel == 1 { a.h.saturating_sub(1) } else { a.h };
            if s < top.base || s - top.base != expect_h {
                res.mismatch = Some((k, format!("height: f{f} pc{pc} stack_len={s} entry_base={} => relative {} but ann.height={} (select phase {})", top.base, s as isize - top.base as isize, a.h, top.sel)));
                return res;
            }
            if l < a.l {
                res.mismatch = Some((k, format!("locals: f{f} pc{pc} frame-relative locals={l} < ann.locals={}", a.l)));
                return res;
            }
        } else {
            // no certificate: look for a concrete witness of ill-formedness on this run
            if s < top.base {
                res.mismatch = Some((k, format!("witness: f{f} pc{pc} runs with stack_len={s} below its frame's base {}", top.base)));
                return res;
            }
            let rel = s - top.base;
            let instr = functions[f].instructions[pc];
            match instr {
                Instruction::TailCall(true) if rel != 1 => {
                    res.mismatch = Some((k, format!("witness: TailCall(true) at f{f} pc{pc} executes with {rel} cells over the frame's base: {} cell(s) are abandoned on the operand stack at every iteration", rel - 1)));
                    return res;
                }
                Instruction::TailCall(false) if rel != 2 => {
                    res.mismatch = Some((k, format!("witness: TailCall(false) at f{f} pc{pc} executes with {rel} cells over the frame's base (needs exactly function + argument)")));
                    return res;
                }
                _ => {}
            }
            if !matches!(instr, Instruction::Select) {
                match seen_height.get(&(f, pc)) {
                    Some(&h0) if h0 != rel => {
                        res.mismatch = Some((k, format!("witness: f{f} pc{pc} is reached with relative stack heights {h0} and {rel} on different paths")));
                        return res;
                    }
                    None => {
                        seen_height.insert((f, pc), rel);
                    }
                    _ => {}
                }
            }
        }
        if l != top.l {
            res.mismatch = Some((k, format!("locals: f{f} pc{pc} frame-relative locals={l} but M-VM's Store/Reset/call/return rules predict exactly {}", top.l)));
            return res;
        }
        if matches!(functions[f].instructions[pc], Instruction::Store) {
            res.stores_checked += 1;
            match store_count.get(&(f, pc)) {
                None => {
                    store_count.insert((f, pc), l);
                }
                Some(&first) if first != l && res.misaligned.is_none() => {
                    res.misaligned = Some((f, pc, first, l, k));
                }
                _ => {}
            }
        }
        // per-step observation for the model replay (`stepInstr` on a state of this shape)
        if let (Some((pd, pbase)), true) = (prev_frame, k > 0) {
            let (pf, ppc, ps, pl) = trace[k - 1];
            let pinstr = functions[pf].instructions[ppc];
            let d = shadow.len();
            let same = d == pd && top.f == pf && !matches!(pinstr, Instruction::TailCall(_));
            let pushed = d == pd + 1 && pc == 0;
            let replaced = d == pd && matches!(pinstr, Instruction::TailCall(_)) && pc == 0;
            // a step that returned to a caller is not compared (the exit rule covers it); nor are
            // Select (two-phase) and steps that parked
            if (same || pushed || replaced) && !matches!(pinstr, Instruction::Select) && ps >= pbase && res.steps.len() < 3000 {
                let variant = match pinstr {
                    Instruction::JumpIf(_) => if same && pc == ppc + 1 { "nil".to_string() } else { "plain".to_string() },
                    Instruction::Get(i) => format!("tup:{}", i + 1),
                    Instruction::Call => if pushed { format!("fn:{f}") } else { "builtin".to_string() },
                    Instruction::TailCall(false) => format!("fn:{f}"),
                    Instruction::Send => "proc".to_string(),
                    Instruction::Spawn => "fn:0".to_string(),
                    _ => "plain".to_string(),
                };
                let req = format!("(step {pf} {ppc} {} {pl} {variant})", ps - pbase);
                // model frames: the synthetic process has 2 frames before the step
                let depth_after = if pushed { 3 } else { 2 };
                let expect = if matches!(pinstr, Instruction::Spawn) {
                    // the executor parks with both operands popped (not traced); `notify_spawn`
                    // then pushes the pid and increments the counter: the next traced point
                    // (pc + 1, one cell less) is the model's parked state + 1 cell
                    format!("ok 2 {pf} {ppc} {} {pl} spawning", (s - pbase).saturating_sub(1))
                } else {
                    format!("ok {depth_after} {f} {pc} {} {l} none", s - pbase)
                };
                res.steps.entry(req).or_insert(expect);
            }
        }
        prev_frame = Some((shadow.len(), top.base));
        if let Instruction::TailCall(r) = functions[f].instructions[pc] {
            if res.tailcalls.len() < 4000 {
                res.tailcalls.push(TailCallObs {
                    index: k,
                    recurse: r,
                    f,
                    s,
                    l,
                    depth: shadow.len(),
                    after: None,
                    rest: shadow.iter().rev().skip(1).map(|t| (t.f, t.pc)).collect(),
                });
            }
        }
        if k % sample_every == 0 && shadow.last().map(|t| t.sel == 0).unwrap_or(false) {
            res.samples.push(FrameSample {
                index: k,
                stack_len: s,
                frames: shadow.iter().rev().map(|t| (t.f, t.pc)).collect(),
            });
        }
        res.points += 1;
    }
    res
}
