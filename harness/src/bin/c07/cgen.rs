//! Generator of core-language programs for C07 (mostly valid; deterministic given the Rng).
//!
//! Tracks a tiny type discipline so that most programs are accepted: every generated expression
//! is an *int chain* (definitely an integer), a *maybe chain* (integer or nil — only used where
//! nil is absorbed: block branches with a fallback, conditions), or a tuple of known shape.
//! Crosses the constructs whose code generation C07 is about: nested blocks / branches /
//! condition-consequence, failing mid-sequence matches followed by loads, destructuring and
//! literal / pin / type / alternation / partial / star patterns, tuples with ripple `~` (also
//! nested), field access, spreads, closures capturing pattern bindings, calls, self / named /
//! ripple tail calls from nested branches, a few process templates (spawn / send / select / self).
use qverif::{Ev, Rng};

#[derive(Clone)]
struct Var {
    name: String,
    kind: Kind,
}

#[derive(Clone, PartialEq)]
enum Kind {
    Int,
    /// unnamed tuple of n ints
    Tup(usize),
    /// #'int -> 'int
    FnInt,
    /// #['int, 'int] -> 'int
    FnPair,
    /// nilary -> int
    FnNil,
}

struct G<'a> {
    r: &'a mut Rng,
    vars: Vec<Var>,
    next: usize,
    /// inside a function whose parameter is an int / a pair (for `$`)
    param: Option<Kind>,
    /// name usable for a self tail call: kind of the enclosing function's parameter
    feats: Vec<&'static str>,
}

const ARITH: [&str; 6] = [
    "__integer_add__",
    "__integer_subtract__",
    "__integer_multiply__",
    "__integer_and__",
    "__integer_or__",
    "__integer_xor__",
];

impl<'a> G<'a> {
    fn fresh(&mut self, p: &str) -> String {
        self.next += 1;
        format!("{p}{}", self.next)
    }
    fn feat(&mut self, f: &'static str) {
        self.feats.push(f);
    }
    fn vars_of(&self, k: &Kind) -> Vec<String> {
        self.vars.iter().filter(|v| &v.kind == k).map(|v| v.name.clone()).collect()
    }
    fn lit(&mut self) -> String {
        match self.r.below(6) {
            0 => "0".into(),
            1 => "1".into(),
            2 => format!("{}", self.r.range(-3, 12)),
            3 => format!("{}", self.r.range(0, 5)),
            _ => format!("{}", self.r.range(0, 100)),
        }
    }

    /// A chain that evaluates to an integer whatever flows in.
    fn int(&mut self, d: usize) -> String {
        let ints = self.vars_of(&Kind::Int);
        if d == 0 {
            return if !ints.is_empty() && self.r.chance(1, 2) { self.r.pick(&ints).clone() } else { self.lit() };
        }
        match self.r.below(44) {
            41..=43 => {
                // strings with holes — a sole hole, hole + text, several holes — as tuple fields in
                // non-first position, in branch bodies, as call arguments, with a value flowing
                self.feat("string-holes");
                let (a, b2) = (self.int(d - 1), self.int(d - 1));
                let words = ["a", "xy", "quiver"];
                let (w1, w2) = (*self.r.pick(&words), *self.r.pick(&words));
                let s = match self.r.below(6) {
                    0 => "\"{sx}\"".to_string(),
                    1 => "\"{~}\"".to_string(),
                    2 => format!("\"{w1}{{sx}}\""),
                    3 => format!("\"{{sx}}{w2}{{sy}}\""),
                    4 => "\"{sx}{sy}\"".to_string(),
                    _ => format!("\"{{sy}}{w1}\""),
                };
                let len = "{ =Str[sb] => sb __binary_length__ }";
                match self.r.below(6) {
                    // non-first tuple field, the flowing value used after it
                    0 => format!("{{ sx = \"{w1}\", sy = \"{w2}\", \"q\" [{a}, {s}, ~] {{ =[sn, Str[sb], Str[sq]] => [sn, [sb __binary_length__, sq __binary_length__] __integer_add__] __integer_add__ }} | 0 }}"),
                    1 => format!("{{ sx = \"{w1}\", sy = \"{w2}\", \"q\" [{s}, {a}, {s}] {{ =[Str[s1], sn, Str[s2]] => [sn, [s1 __binary_length__, s2 __binary_length__] __integer_add__] __integer_add__ }} | 0 }}"),
                    // branch body
                    2 => format!("{{ sx = \"{w1}\", sy = \"{w2}\", \"r\" {{ | {a} =0 => {s} | {s} }} {len} | 0 }}"),
                    // call argument (written as a tuple) and argument of a closure
                    3 => format!("{{ sx = \"{w1}\", sy = \"{w2}\", sf = #[Str['bin], Str['bin]] {{ =[Str[p], Str[q]] => [p __binary_length__, q __binary_length__] __integer_add__ }}, \"t\" [sy, {s}] sf | 0 }}"),
                    4 => format!("{{ sx = \"{w1}\", sy = \"{w2}\", \"u\" [{b2}, [{a}, {s}] .1 {len}, ~ {len}] {{ =[p, q, r] => [p, [q, r] __integer_add__] __integer_add__ }} | 0 }}"),
                    // as a chain term on its own, then more steps of the sequence
                    _ => format!("{{ sx = \"{w1}\", sy = \"{w2}\", \"v\" {s} =sz, sw = {a}, [sw, sz {len}] __integer_add__ | 0 }}"),
                }
            }
            39 | 40 => {
                // a repeated identifier whose two occurrences sit in the same nested tuple (common
                // path prefix): the equality check usually FAILS at run time
                self.feat("repeated-identifier-shared-prefix");
                let (a, b2, c) = (self.int(d - 1), self.int(d - 1), self.int(d - 1));
                match self.r.below(5) {
                    0 => format!("[[{a}, {b2}], {c}] {{ =[[ra, ra], rb] => rb | 0 }}"),
                    1 => format!("[{c}, [[{a}, {b2}], 4]] {{ =[_, [[rp, rp], rq]] => [rp, rq] __integer_add__ | 0 }}"),
                    2 => format!("{{ rg = #[['int, 'int], 'int] {{ =[[ra, ra], rb] => rb | 0 }}, {c} ~> [[[{a}, {b2}], 3] rg, ~] .1 | 0 }}"),
                    3 => format!("[[{a}, {a}], [{b2}, {c}]] {{ | =[[ra, ra], [rb, rb]] => ra | =[[ra, ra], [rb, rc]] => [ra, rc] __integer_add__ | 0 }}"),
                    _ => format!("[[{a}, {b2}, {a}], {c}] {{ =[[rx, _, rx], ry] => [rx, ry] __integer_add__ | {c} }}"),
                }
            }
            37 | 38 => {
                // a branch CONDITION that is a multi-step sequence: a step that may be nil (so the
                // condition short-circuits to its end with fewer locals), then a binding, and the
                // CONSEQUENCE loads that binding (directly, from a closure, before a tail call)
                self.feat("cond-binding-after-nil-step");
                let (a, b2, c, e) = (self.int(d - 1), self.int(d - 1), self.int(d - 1), self.int(d - 1));
                let (k, k2) = (self.lit(), self.lit());
                match self.r.below(6) {
                    0 => format!("[{a}, {b2}] {{ =[gx, gy], [gx, gy] __integer_add__ =gz => [gz, gx] __integer_multiply__ | 0 }}"),
                    1 => format!("{a} {{ =ga, ga {{ | ={k} => [] | {b2} }}, [ga, {c}] __integer_add__ =gc => [ga, gc] __integer_multiply__ | {e} }}"),
                    2 => format!("{a} {{ =ha, ha {{ ={k} => [] | ~ }}, [ha, 1] __integer_add__ =hb, #'int {{ [~, hb] __integer_add__ }} =hf => {c} hf | {e} }}"),
                    3 => format!("{a} {{ | =ia, ia ={k}, [ia, 2] __integer_add__ =ib => [ia, ib] __integer_add__ | =ic, [ic, 1] __integer_add__ =id => id }}"),
                    4 => format!("{a} {{ =ja, ja {{ ={k} => [] | ~ }}, {b2} =jb, jb {{ ={k2} => [] | ~ }}, {c} =jc => [ja, jb, jc] .2 | {e} }}"),
                    _ => format!("{{ lf = #'int {{ | =0 => 0 | =ln, ln {{ =1 => [] | ~ }}, [ln, 2] __integer_subtract__ =lm => lm {{ | [~, 0] __integer_compare__ =1 => lm ^ | 0 }} | 7 }}, {a} lf | 0 }}"),
                }
            }
            35 => {
                // generic functions instantiated at several types
                self.feat("generic");
                let (a, b2) = (self.int(d - 1), self.int(d - 1));
                match self.r.below(3) {
                    0 => format!("{{ gid = #<'t>'t {{ $ }}, [{a} gid, 0x01 gid] .0 | 0 }}"),
                    1 => format!("{{ gsw = #<'a, 'b>['a, 'b] {{ [$1, $0] }}, [0x02, {a}] gsw .0 | 0 }}"),
                    _ => format!("{{ gap = #<'t>['t, #'t -> 'int] {{ =[gv, gf], gv gf }}, [{a}, #'int {{ [~, {b2}] __integer_add__ }}] gap | 0 }}"),
                }
            }
            36 => {
                // closures created inside a branch, capturing pattern bindings, a derived local and
                // another closure
                self.feat("closure-in-branch");
                let (a, b2, c) = (self.int(d - 1), self.int(d - 1), self.int(d - 1));
                match self.r.below(2) {
                    0 => format!("[{a}, {b2}] {{ =[bu, bv] => {{ bw = [bu, bv] __integer_add__, bf = #'int {{ [~, bu, bw] .2 }}, {c} bf }} }}"),
                    _ => format!("{{ ba = {a}, bf = #'int {{ [~, ba] __integer_add__ }}, bg = #'int {{ [~ bf, ba] __integer_multiply__ }}, bh = #'int {{ ~ bg bf }}, {b2} bh | 0 }}"),
                }
            }
            33 | 34 => {
                // a closure that uses the same outer variable both whole and through a field / index
                // path (two captures with a common base)
                self.feat("capture-whole-and-path");
                let (a, b2, c) = (self.int(d - 1), self.int(d - 1), self.int(d - 1));
                match self.r.below(7) {
                    5 => format!("{{ cp = O[in: P[x: {a}, y: {b2}], k: {c}], cf = #'int {{ [[~, cp.in.x] __integer_add__, cp.k, cp] .0 }}, {c} cf | 0 }}"),
                    6 => format!("{{ cp = O[in: P[x: {a}, y: {b2}], k: {c}], cf = #'int {{ =cv, #{{ [cv, cp.in.y, cp.in, cp] .1 }} }}, 1 cf =cg, cg | 0 }}"),
                    0 => format!("{{ cp = P[x: {a}, y: {b2}], cf = #'int {{ [~, cp.x] __integer_add__ =cs => [cs, cp] }}, {c} cf .0 | 0 }}"),
                    1 => format!("{{ ct = [{a}, {b2}], cf = #'int {{ [[~, ct.0] __integer_add__, ct] .0 }}, {c} cf | 0 }}"),
                    2 => format!("{{ cp = P[x: {a}, y: {b2}], ck = {c}, cf = #'int {{ =cv, #'int {{ [~, ck, cp.y, cp] }} }}, 1 cf =cg, 7 cg .2 | 0 }}"),
                    3 => format!("{{ cp = P[x: {a}, y: {b2}], cf = #'int {{ [~, cp.y] __integer_multiply__ [~, cp] .1 .x }}, {c} cf | 0 }}"),
                    _ => format!("[{c}, 9] {{ =[wa, wb] => {{ cp = P[x: {a}, y: wa], cf = #'int {{ [[~, cp.y] __integer_add__, [cp, wb] .0 .x] __integer_subtract__ }}, wb cf }} }}"),
                }
            }
            30 => {
                // spread / partial / star patterns over a value whose type is a union of tuples
                self.feat("union-spread");
                let a = self.int(d - 1);
                let (k, c) = (self.lit(), self.int(d - 1));
                let u = format!("{a} {{ | ={k} => A[a: {}] | B[a: {}, b: {}] }}", self.int(d - 1), self.int(d - 1), self.int(d - 1));
                match self.r.below(5) {
                    0 => format!("{{ uv = {u}, uv[..., c: {c}] {{ =(a, c) => [a, c] __integer_add__ | 0 }} | 0 }}"),
                    1 => format!("{{ uv = {u}, [...uv, c: {c}] {{ =(a, c) => [a, c] __integer_subtract__ | 0 }} | 0 }}"),
                    2 => format!("{{ uv = {u}, uw = [q: {c}], [...uw, ...uv] {{ =(q, a) => [q, a] __integer_add__ | 0 }} | 0 }}"),
                    3 => format!("{u} ~[..., z: {c}] {{ =(a, z) => [a, z] __integer_multiply__ | 0 }}"),
                    _ => format!("{u} {{ | =A(a: ua) => ua | =B(a: ua, b: ub) => [ua, ub] __integer_add__ }}"),
                }
            }
            31 => {
                // star and partial patterns over a union whose variants share field names
                self.feat("union-star");
                let a = self.int(d - 1);
                let k = self.lit();
                let u = format!("{a} {{ | ={k} => A[a: {}, k: {}] | B[a: {}, k: {}] }}", self.int(d - 1), self.int(d - 1), self.int(d - 1), self.int(d - 1));
                match self.r.below(3) {
                    0 => format!("{u} {{ =* => [a, k] __integer_add__ | 0 }}"),
                    1 => format!("{u} {{ =(a: pq) => pq | 0 }}"),
                    _ => format!("{u} {{ | =A* => a | =B* => k }}"),
                }
            }
            32 => {
                // a variable holding one of two closures
                self.feat("union-callable");
                let a = self.int(d - 1);
                let (k, b2) = (self.lit(), self.int(d - 1));
                format!("{{ uf = {a} {{ | ={k} => #'int {{ [~, 1] __integer_add__ }} | #'int {{ [~, {}] __integer_multiply__ }} }}, {b2} uf | 0 }}", self.lit())
            }
            22 => {
                // string interpolation, then the byte length of the result
                self.feat("string-interpolation");
                let words = ["a", "xy", "quiver", ""];
                let w1 = *self.r.pick(&words);
                let w2 = *self.r.pick(&words);
                let inner = if self.r.chance(1, 2) { format!("\"{w2}\"") } else { format!("{} {{ | =0 => \"z\" | \"{w2}\" }}", self.int(d - 1)) };
                format!("\"{w1}{{{inner}}}!\" {{ =Str[sb] => sb __binary_length__ }}")
            }
            23 => {
                // callable in a tuple field is called with the flowing value
                let f1 = self.vars_of(&Kind::FnInt);
                if f1.is_empty() {
                    self.lit()
                } else {
                    self.feat("field-call");
                    let f = self.r.pick(&f1).clone();
                    format!("{} [{f}, {}] __integer_add__", self.int(d - 1), self.int(d - 1))
                }
            }
            24 => {
                // alternation whose alternatives bind the same variable
                self.feat("alternation-binding");
                let a = self.int(d - 1);
                let (k1, k2) = (self.r.range(0, 2), self.r.range(3, 5));
                let e = self.int(d - 1);
                format!("{a} {{ | ={k1} => L[{}] | ={k2} => M[{}] | R }} {{ | =(L[r] | M[r]) => [r, 1] __integer_add__ | =R => {e} }}", self.int(d - 1), self.int(d - 1))
            }
            25 => {
                // named partial / named star patterns
                self.feat("partial-star");
                let (a, b2, c) = (self.int(d - 1), self.int(d - 1), self.int(d - 1));
                match self.r.below(3) {
                    0 => format!("Q[x: {a}, y: {b2}, z: {c}] {{ =Q(y: py) => py | 0 }}"),
                    1 => format!("Q[x: {a}, y: {b2}, z: {c}] {{ =Q* => [x, [y, z] __integer_add__] __integer_add__ | 0 }}"),
                    _ => format!("{{ ta = A[x: {a}, y: {b2}], tb = [z: {c}], [...ta, ...tb] {{ =(x, z) => [x, z] __integer_add__ | 0 }} | 0 }}"),
                }
            }
            26 => {
                // three levels of destructuring, guard after the pattern in a condition
                self.feat("deep-destructure");
                let (a, b2, c, e) = (self.int(d - 1), self.int(d - 1), self.int(d - 1), self.int(d - 1));
                match self.r.below(2) {
                    0 => format!("[{a}, [{b2}, [{c}, {e}]]] {{ =[da, [db, [dc, dd]]] => [[da, db] __integer_add__, [dc, dd] __integer_add__] __integer_add__ | 0 }}"),
                    _ => format!("[{a}, {b2}] {{ | =[ga, gb] [ga, gb] __integer_compare__ =1 => ga | =[_, gb] => gb }}"),
                }
            }
            27 => {
                // closure calling a closure, both capturing
                self.feat("closure-chain");
                let (k, a) = (self.int(d - 1), self.int(d - 1));
                format!("{{ ck = {k}, cg = #'int {{ [~, ck] __integer_add__ }}, ch = #'int {{ [~ cg, ck] __integer_multiply__ }}, {a} ch cg | 0 }}")
            }
            28 => {
                // nested labelled tuples and chained field access
                self.feat("nested-field-access");
                let (a, b2, c) = (self.int(d - 1), self.int(d - 1), self.int(d - 1));
                format!("{{ nt = [a: {a}, b: [c: {b2}, d: {c}]], [nt.b.d, nt.a] __integer_subtract__ | 0 }}")
            }
            29 => {
                // ripple into a nested tuple, then destructure
                self.feat("ripple-nested");
                let a = self.int(d - 1);
                format!("{a} [~, [~, {}] __integer_add__] {{ =[rp, rq] => [rp, rq] __integer_multiply__ }}", self.lit())
            }
            0 | 1 => self.lit(),
            2 | 3 => {
                if ints.is_empty() {
                    self.lit()
                } else {
                    self.r.pick(&ints).clone()
                }
            }
            4 | 5 => {
                let op = *self.r.pick(&ARITH);
                format!("[{}, {}] {op}", self.int(d - 1), self.int(d - 1))
            }
            6 => {
                // ripple, possibly nested
                self.feat("ripple");
                let a = self.int(d - 1);
                match self.r.below(3) {
                    0 => format!("{a} [~, ~] __integer_multiply__"),
                    1 => format!("{a} [[~, {}] __integer_add__, ~] __integer_subtract__", self.lit()),
                    _ => format!("{a} [~, {}] __integer_add__", self.int(d - 1)),
                }
            }
            7 | 8 => self.switch_block(d),
            9 => self.compare_block(d),
            10 => {
                // field access on a fresh tuple
                self.feat("field-access");
                let n = 2 + self.r.usize(2);
                let fields: Vec<String> = (0..n).map(|_| self.int(d - 1)).collect();
                format!("[{}] .{}", fields.join(", "), self.r.usize(n))
            }
            11 => self.destructure_block(d),
            12 => self.call(d),
            13 => self.closure_block(d),
            14 => self.point_block(d),
            15 => self.union_block(d),
            16 => self.pin_block(d),
            17 => self.fallback_block(d),
            18 => self.spread_block(d),
            19 => self.type_pattern_block(d),
            20 => {
                let tups = self.vars_of(&Kind::Tup(2));
                if tups.is_empty() {
                    self.lit()
                } else {
                    format!("{}.{}", self.r.pick(&tups), self.r.usize(2))
                }
            }
            _ => {
                if let Some(Kind::Int) = self.param {
                    "$".into()
                } else if let Some(Kind::Tup(2)) = self.param {
                    format!("${}", self.r.usize(2))
                } else {
                    self.lit()
                }
            }
        }
    }

    /// A chain that may evaluate to nil or to an integer (single-branch blocks, failing matches).
    fn maybe(&mut self, d: usize) -> String {
        self.feat("maybe");
        let a = self.int(d.saturating_sub(1));
        match self.r.below(7) {
            5 => format!("{a} {{ | ={} => [] | {} }}", self.lit(), self.int(d.saturating_sub(1))),
            6 => format!("{a} {{ =('int)mm [mm, {}] __integer_compare__ =1 => [mm, 1] __integer_add__ {{ ={} => [] | ~ }} }}", self.lit(), self.lit()),
            0 => format!("{a} {{ ={} => {} }}", self.lit(), self.int(d.saturating_sub(1))),
            1 => {
                let v = self.fresh("m");
                format!("{a} {{ =('int){v} [{v}, {}] __integer_compare__ =1 => {v} }}", self.lit())
            }
            2 => format!("{a} {{ =({} | {}) => {} }}", self.lit(), self.lit(), self.int(d.saturating_sub(1))),
            3 => {
                // a failing mid-sequence match followed by loads
                let x = self.fresh("q");
                let y = self.fresh("q");
                format!(
                    "{{ {x} = {a}, {x} ={}, {y} = {}, [{x}, {y}] __integer_add__ }}",
                    self.lit(),
                    self.int(d.saturating_sub(1))
                )
            }
            _ => format!("{a} {{ | ={} => {} | ={} => [] }}", self.lit(), self.int(d.saturating_sub(1)), self.lit()),
        }
    }

    fn switch_block(&mut self, d: usize) -> String {
        self.feat("switch");
        let a = self.int(d - 1);
        let n = 1 + self.r.usize(3);
        let mut s = format!("{a} {{");
        for _ in 0..n {
            let pat = match self.r.below(4) {
                0 => format!("=({} | {})", self.lit(), self.lit()),
                _ => format!("={}", self.lit()),
            };
            s.push_str(&format!(" | {pat} => {}", self.int(d - 1)));
        }
        // exhaustive fallback keeps the block an int
        if self.r.chance(1, 3) {
            let v = self.fresh("w");
            let saved = self.vars.len();
            self.vars.push(Var { name: v.clone(), kind: Kind::Int });
            let body = self.int(d - 1);
            self.vars.truncate(saved);
            s.push_str(&format!(" | ={v} => {body} }}"));
        } else {
            s.push_str(&format!(" | {} }}", self.int(d - 1)));
        }
        s
    }

    fn compare_block(&mut self, d: usize) -> String {
        self.feat("guard");
        let a = self.int(d - 1);
        let k = self.lit();
        let t = self.int(d - 1);
        let e = self.int(d - 1);
        match self.r.below(3) {
            0 => format!("{a} {{ | [~, {k}] __integer_compare__ =1 => {t} | {e} }}"),
            1 => {
                let v = self.fresh("c");
                format!("{a} {{ | ={v} [{v}, {k}] __integer_compare__ =-1 => [{v}, {t}] __integer_add__ | {e} }}")
            }
            _ => format!("{a} {{ | [~, {k}] __integer_compare__ {{ | =0 => Ok | =1 => Ok }} => {t} | {e} }}"),
        }
    }

    fn destructure_block(&mut self, d: usize) -> String {
        self.feat("destructure");
        let x = self.fresh("a");
        let y = self.fresh("b");
        let l = self.int(d - 1);
        let rr = self.int(d - 1);
        let saved = self.vars.len();
        self.vars.push(Var { name: x.clone(), kind: Kind::Int });
        self.vars.push(Var { name: y.clone(), kind: Kind::Int });
        let body = self.int(d - 1);
        self.vars.truncate(saved);
        match self.r.below(4) {
            0 => format!("{{ [{l}, {rr}] =[{x}, {y}], {body} | 0 }}"),
            1 => format!("[{l}, {rr}] {{ | =[0, {y}] => {y} | =[{x}, {y}] => {body} }}"),
            2 => {
                let z = self.fresh("t");
                format!("{{ {z} = [{l}, [{rr}, {}]], {z} =[{x}, [{y}, _]], {body} | 1 }}", self.lit())
            }
            _ => format!("{{ [{x}, {y}] = [{l}, {rr}], {body} | 0 }}"),
        }
    }

    fn call(&mut self, d: usize) -> String {
        let f1 = self.vars_of(&Kind::FnInt);
        let f2 = self.vars_of(&Kind::FnPair);
        let f0 = self.vars_of(&Kind::FnNil);
        match self.r.below(3) {
            0 if !f1.is_empty() => {
                self.feat("call");
                format!("{} {}", self.int(d - 1), self.r.pick(&f1))
            }
            1 if !f2.is_empty() => {
                self.feat("call");
                format!("[{}, {}] {}", self.int(d - 1), self.int(d - 1), self.r.pick(&f2))
            }
            2 if !f0.is_empty() => {
                self.feat("call-nilary");
                self.r.pick(&f0).clone()
            }
            _ => self.lit(),
        }
    }

    fn closure_block(&mut self, d: usize) -> String {
        self.feat("closure");
        let k = self.fresh("k");
        let h = self.fresh("h");
        let kv = self.int(d - 1);
        let saved = self.vars.len();
        let saved_param = self.param.clone();
        self.vars.push(Var { name: k.clone(), kind: Kind::Int });
        self.param = Some(Kind::Int);
        let body = self.int(d - 1);
        self.param = saved_param;
        self.vars.push(Var { name: h.clone(), kind: Kind::FnInt });
        let arg = self.int(d - 1);
        let use_ = match self.r.below(3) {
            0 => format!("{arg} {h}"),
            1 => format!("[{arg} {h}, {}] __integer_add__", self.int(d - 1)),
            _ => format!("{arg} {h} {h}"),
        };
        self.vars.truncate(saved);
        format!("{{ {k} = {kv}, {h} = #'int {{ [~, {k}] __integer_add__ [~, {body}] __integer_subtract__ }}, {use_} | 0 }}")
    }

    fn point_block(&mut self, d: usize) -> String {
        self.feat("named-tuple");
        let x = self.fresh("x");
        let y = self.fresh("y");
        let a = self.int(d - 1);
        let b2 = self.int(d - 1);
        let saved = self.vars.len();
        self.vars.push(Var { name: x.clone(), kind: Kind::Int });
        self.vars.push(Var { name: y.clone(), kind: Kind::Int });
        let body = self.int(d - 1);
        self.vars.truncate(saved);
        match self.r.below(5) {
            0 => format!("P[x: {a}, y: {b2}] {{ | =P[x: 0, y: {y}] => {y} | =P[x: {x}, y: {y}] => {body} }}"),
            1 => format!("P[x: {a}, y: {b2}] {{ =(x: {x}, y: {y}) => {body} | 0 }}"),
            2 => format!("{{ P[x: {a}, y: {b2}] =P(y: {y}), {x} = {y}, {body} | 0 }}"),
            3 => format!("{{ * = P[x: {a}, y: {b2}], [x, y] __integer_add__ | 0 }}"),
            _ => format!("P[x: {a}, y: {b2}] .{}", if self.r.chance(1, 2) { "x" } else { "y" }),
        }
    }

    fn union_block(&mut self, d: usize) -> String {
        self.feat("union");
        let v = self.fresh("v");
        let a = self.int(d - 1);
        let k = self.lit();
        let saved = self.vars.len();
        self.vars.push(Var { name: v.clone(), kind: Kind::Int });
        let body = self.int(d - 1);
        self.vars.truncate(saved);
        let e = self.int(d - 1);
        format!("{a} {{ | ={k} => L[{}] | R }} {{ | =L[{v}] => {body} | =R => {e} }}", self.int(d - 1))
    }

    fn pin_block(&mut self, d: usize) -> String {
        self.feat("pin");
        let y = self.fresh("p");
        let a = self.int(d - 1);
        let b2 = self.int(d - 1);
        let t = self.int(d - 1);
        let e = self.int(d - 1);
        match self.r.below(2) {
            0 => format!("{{ {y} = {a}, {b2} {{ | =&{y} => {t} | {e} }} | 0 }}"),
            _ => {
                let x = self.fresh("a");
                format!("{{ {y} = {a}, [{b2}, {t}] {{ | =[{x}, &{y}] => {x} | =[_, {x}] => {x} }} | 0 }}")
            }
        }
    }

    fn fallback_block(&mut self, d: usize) -> String {
        self.feat("fallback");
        let m = self.maybe(d - 1);
        let e = self.int(d - 1);
        match self.r.below(3) {
            0 => format!("{{ {m} | {e} }}"),
            1 => format!("{{ | {m} | {} | {e} }}", self.maybe(d - 1)),
            _ => {
                let v = self.fresh("n");
                format!("{{ {v} = {m}, {v} {{ | =[] => {e} | =('int){v} => {v} }} | 0 }}")
            }
        }
    }

    fn spread_block(&mut self, d: usize) -> String {
        self.feat("spread");
        let a = self.int(d - 1);
        let b2 = self.int(d - 1);
        let c = self.int(d - 1);
        match self.r.below(3) {
            0 => format!("{{ s = P[x: {a}, y: {b2}], s[..., y: {c}] .y | 0 }}"),
            1 => format!("{{ s = [x: {a}], t = [y: {b2}], [...s, ...t] {{ =(x, y) => [x, y] __integer_add__ }} | 0 }}"),
            _ => format!("P[x: {a}, y: {b2}] ~[..., z: {c}] .z"),
        }
    }

    fn type_pattern_block(&mut self, d: usize) -> String {
        self.feat("type-pattern");
        let a = self.int(d - 1);
        let v = self.fresh("u");
        let saved = self.vars.len();
        self.vars.push(Var { name: v.clone(), kind: Kind::Int });
        let body = self.int(d - 1);
        self.vars.truncate(saved);
        match self.r.below(3) {
            0 => format!("{a} {{ | =('int){v} => {body} | 0 }}"),
            1 => format!("{a} {{ | ='bin => 0 | ={v} => {body} }}"),
            _ => format!("[{a}, 0x00ff] {{ | =['bin, _] => 1 | =[('int){v}, _] => {body} | 2 }}"),
        }
    }

    /// Top-level function definitions (returns the statements).
    fn functions(&mut self) -> Vec<String> {
        let mut out = vec![];
        let n = self.r.usize(4);
        for _ in 0..n {
            match self.r.below(13) {
                0 | 1 => {
                    let f = self.fresh("f");
                    let saved_param = self.param.clone();
                    self.param = Some(Kind::Int);
                    let body = self.int(2);
                    self.param = saved_param;
                    let form = match self.r.below(3) {
                        0 => format!("{f} = #'int {{ [~, {body}] __integer_add__ }}"),
                        1 => format!("{f} = #'int {{ =v0, [v0, {body}] __integer_multiply__ }}"),
                        _ => format!("{f} = #'int {{ | =0 => {body} | [$, 1] __integer_subtract__ }}"),
                    };
                    out.push(form);
                    self.vars.push(Var { name: f, kind: Kind::FnInt });
                }
                2 => {
                    let f = self.fresh("g");
                    let saved_param = self.param.clone();
                    self.param = Some(Kind::Tup(2));
                    let body = self.int(2);
                    self.param = saved_param;
                    out.push(format!("{f} = #['int, 'int] {{ =[pa, pb], [[pa, pb] __integer_add__, {body}] __integer_xor__ }}"));
                    self.vars.push(Var { name: f, kind: Kind::FnPair });
                }
                3 => {
                    let f = self.fresh("z");
                    let body = self.int(2);
                    out.push(format!("{f} = #{{ {body} }}"));
                    self.vars.push(Var { name: f, kind: Kind::FnNil });
                }
                4 => {
                    // self tail recursion, countdown with accumulator
                    self.feat("tail-self");
                    let f = self.fresh("loop");
                    let step = self.int(1);
                    let form = match self.r.below(4) {
                        0 => format!("{f} = #['int, 'int] {{ | =[0, acc] => acc | =[n, acc] => [[n, 1] __integer_subtract__, [acc, {step}] __integer_add__] ^ }}"),
                        1 => {
                            self.feat("tail-nested-branch");
                            format!("{f} = #['int, 'int] {{ | =[0, acc] => acc | =[n, acc] => n {{ | =1 => [0, [acc, 1] __integer_add__] ^ | [[n, 1] __integer_subtract__, [acc, {step}] __integer_add__] ^ }} }}")
                        }
                        2 => {
                            self.feat("tail-nested-block");
                            format!("{f} = #['int, 'int] {{ =[n, acc], n {{ | =0 => acc | {{ m = [n, 1] __integer_subtract__, t = {step}, [m, [acc, t] __integer_add__] ^ }} }} }}")
                        }
                        _ => format!("{f} = #['int, 'int] {{ | =[0, acc] => acc | =[n, acc] => {{ d = [n, 1] __integer_subtract__, [d, acc] }} ^ }}"),
                    };
                    out.push(form);
                    self.vars.push(Var { name: f, kind: Kind::FnPair });
                }
                5 => {
                    // mutual tail recursion through named tail calls
                    self.feat("tail-named");
                    let a = self.fresh("ev");
                    let b2 = self.fresh("od");
                    // forward references are not allowed: define b2 in terms of a function taking the other as a capture
                    out.push(format!("{a} = #'int {{ | =0 => 1 | [~, 1] __integer_subtract__ ^ }}"));
                    out.push(format!("{b2} = #'int {{ | =0 => 0 | [~, 1] __integer_subtract__ ^{a} }}"));
                    self.vars.push(Var { name: a, kind: Kind::FnInt });
                    self.vars.push(Var { name: b2, kind: Kind::FnInt });
                }
                6 => {
                    self.feat("tail-ripple");
                    let g = self.fresh("nz");
                    let f = self.fresh("rt");
                    let body = self.int(1);
                    out.push(format!("{g} = #{{ {body} }}"));
                    out.push(format!("{f} = #'int {{ | =0 => 7 | &{g} ^~ }}"));
                    self.vars.push(Var { name: g, kind: Kind::FnNil });
                    self.vars.push(Var { name: f, kind: Kind::FnInt });
                }
                11 | 12 => {
                    // loops that re-enter through a named / ripple tail call written inside a
                    // nested block (self handed to itself: the std/iter.qv idiom)
                    self.feat("tail-named-in-block");
                    let f = self.fresh("sl");
                    let step = self.int(1);
                    match self.r.below(4) {
                        0 => out.push(format!("{f} = #[#^ -> 'int, 'int, 'int] {{ | =[_, 0, acc] => acc | =[self, n, acc] => {{ m = [n, 1] __integer_subtract__, [&self, m, [acc, {step}] __integer_add__] ^self }} }}")),
                        1 => out.push(format!("{f} = #[#^ -> 'int, 'int, 'int] {{ | =[_, 0, acc] => acc | =[self, n, acc] => {{ | n =1 => [&self, 0, acc] ^self | [&self, [n, 1] __integer_subtract__, [acc, {step}] __integer_add__] ^self }} }}")),
                        2 => out.push(format!("{f} = #[#^ -> (#[] -> 'int), 'int, 'int] {{ =[self, n, acc], #{{ | n =0 => acc | {{ [n, acc] =[a, b], [&self, [a, 1] __integer_subtract__, [b, {step}] __integer_add__] self ^~ }} }} }}")),
                        _ => out.push(format!("{f} = #[#^ -> 'int, #^ -> 'int, 'int, 'int] {{ =[me, other, n, acc], {{ | n =0 => acc | [&other, &me, [n, 1] __integer_subtract__, [acc, {step}] __integer_add__] ^other }} }}")),
                    }
                }
                8 | 9 => {
                    // nil-parameter function that recurses with a bare `^` after a non-nil step (the
                    // server-loop idiom): defined, certified, never called on the sync path
                    self.feat("nilary-tail-after-step");
                    let f = self.fresh("nl");
                    let step = self.int(1);
                    let form = match self.r.below(7) {
                        0 => format!("{f} = #{{ !#'int, ^ }}"),
                        1 => format!("{f} = #{{ {step}, ^ }}"),
                        2 => format!("{f} = #{{ !#'int =sv, [sv, {step}] __integer_add__, ^ }}"),
                        3 => format!("{f} = #{{ {step} {{ | =0 => 1 | ~ }}, [~, 1] __integer_add__ ^ }}"),
                        4 => format!("{f} = #{{ ! [#'int, #'bin] {{ | ='int => 1 | ='bin => 2 }}, ^ }}"),
                        5 => format!("{f} = #{{ !#'int =sm, [sm, {step}] __integer_add__ =sq, @#{{ 7 }}, ^ }}"),
                        _ => format!("{f} = #{{ {{ !#'int =sm, sm {{ | =0 => Stop | Go }} }} {{ | =Stop => 0 | ^ }} }}"),
                    };
                    out.push(form);
                }
                _ => {
                    // a captured closure factory
                    self.feat("closure-factory");
                    let mk = self.fresh("mk");
                    let c = self.fresh("cl");
                    out.push(format!("{mk} = #'int {{ =base, #'int {{ [~, base] __integer_add__ }} }}"));
                    out.push(format!("{c} = {} {mk}", self.lit()));
                    self.vars.push(Var { name: c, kind: Kind::FnInt });
                }
            }
        }
        out
    }

    /// Functions whose blocks fall through in different ways, called on several arguments so that
    /// the same `Store` is reached along different paths (slot-alignment probes).
    fn probe(&mut self) -> Vec<String> {
        self.feat("alignment-probe");
        let f = self.fresh("pb");
        let k1 = self.r.range(0, 3);
        let k2 = k1 + 1 + self.r.range(0, 2);
        let x = self.int(1);
        let y = self.int(1);
        let z = self.int(1);
        match self.r.below(4) {
            0 => vec![
                // last branch has a consequence and can fail: block falls through with nil
                format!("{f} = #'int {{ a = ~ {{ | ={k1} => {x} | ={k2} => {y} }}, b = {z}, c = [b, 1] __integer_add__, [a, b, c] }}"),
                format!("[{k1} {f}, {k2} {f}, {} {f}]", k2 + 1),
            ],
            1 => vec![
                // a branch that binds, then evaluates to nil at run time, followed by a binding branch
                format!("{f} = #['int, 'int] {{ | =[a, 0] a {{ ={k2} => {x} }} | =[b, c] [b, c] __integer_add__ }}"),
                format!("[[{k2}, 0] {f}, [{k1}, 0] {f}, [{k1}, {k2}] {f}]"),
            ],
            2 => vec![
                // nested: the falling-through block sits inside a tuple field inside a block
                format!("{f} = #'int {{ =n, t = [n {{ ={k1} => {x} }}, n {{ | ={k2} => {y} | ={k1} => [] }}], u = {z}, [t, u, n] }}"),
                format!("[{k1} {f}, {k2} {f}, {} {f}]", k2 + 3),
            ],
            _ => vec![
                // mid-sequence failing typed match, then bindings
                format!("{f} = #'int {{ =n, m = n {{ | ={k1} => 0x00 | ~ }}, m =('int)i, j = {z}, [i, j] }}"),
                format!("[{k1} {f}, {k2} {f}]"),
            ],
        }
    }

    fn process_template(&mut self) -> Vec<String> {
        self.feat("process");
        let a = self.int(1);
        let k = self.lit();
        match self.r.below(12) {
            11 => vec![
                // spawned closures capturing a record whole and through a path
                format!("rec = P[x: {a}, y: {k}]"),
                "w1 = @#{ [rec.x, rec] .0 }".into(),
                "w2 = 2 @#'int { [~, rec.y, rec] .1 }".into(),
                "[!w1, !w2]".into(),
            ],
            9 => vec![
                // nilary server loop driven by messages
                "srv = @#{ !#'int, ^ }".into(),
                format!("{a} srv, {k} srv, 3 srv"),
            ],
            10 => vec![
                // stateful server loop
                "acc = 0 @#'int { =t, !#'int =m, [t, m] __integer_add__ ^ }".into(),
                format!("{a} acc, {k} acc"),
            ],
            5 => vec![
                // filter function with a body: skips messages until the wanted one
                format!("me = &., {a} me, {k} me, 42 me"),
                "! [#'int { =42 => Ok }]".into(),
            ],
            6 => vec![
                // filter that calls a helper and binds locals; then the remaining messages
                "big = #'int { [~, 10] __integer_compare__ =1 }".into(),
                format!("me = &., 3 me, {a} me, 50 me"),
                "! [#'int { =m, n = [m, 1] __integer_add__, n big }]".into(),
                "!#'int".into(),
            ],
            7 => vec![
                // child selects with a filter, parent sends several messages and awaits
                "ch = @#{ ! [#'int { =v [v, 5] __integer_compare__ =1 => Ok }] }".into(),
                format!("1 ch, {a} ch, 9 ch"),
                "!ch".into(),
            ],
            8 => vec![
                // two sources: filter receive and a time-out
                format!("me = &., {k} me"),
                "! [#'int { =1000 => Ok }, 5]".into(),
            ],
            0 => vec![format!("pr = @#'int {{ [~, 1] __integer_add__ }}"), format!("{a} pr"), "!pr".into()],
            1 => vec!["echo = #{ !#'int }".into(), "pe = @echo".into(), format!("{a} pe"), "!pe".into()],
            2 => vec![format!("me = &., {a} me, !#'int")],
            3 => vec![format!("w = @{{ {a} }}"), "! [w, 50]".into()],
            _ => vec![
                "srv = #{ !#'int =v, [v, 1] __integer_add__ }".into(),
                "ps = @srv".into(),
                format!("{a} ps"),
                "!ps".into(),
            ],
        }
    }
}

/// A REPL session over in-memory modules, with lines that fail to compile after importing a module
/// for the first time. The modules have the same shape (same sequence of types / tuples) but their
/// exported functions differ in capture count and body.
pub fn module_session(r: &mut Rng, ev: &mut Ev) -> (Vec<(String, String)>, Vec<String>) {
    ev.hit("gen:module-session");
    let names = ["shapes", "squares", "cubes", "plain"];
    let mut modules = vec![];
    let nm = 2 + r.usize(3);
    for (i, name) in names.iter().take(nm).enumerate() {
        let k = r.range(2, 30);
        let k2 = r.range(2, 9);
        let text = match (i + r.usize(4)) % 4 {
            0 => format!("scale = {k}, [area: #'int {{ [~, scale] __integer_multiply__ }}]"),
            1 => format!("scale = {k}, [area: #'int {{ [~, ~] __integer_multiply__ }}]"),
            2 => format!("scale = {k}, other = {k2}, [area: #'int {{ [[~, scale] __integer_add__, other] __integer_multiply__ }}]"),
            _ => format!("scale = {k}, [area: #'int {{ | =0 => scale | [~, 1] __integer_subtract__ }}]"),
        };
        modules.push((name.to_string(), text));
    }
    let mut lines = vec![];
    let nl = 3 + r.usize(4);
    let mut bound = 0;
    for li in 0..nl {
        let m = &modules[r.usize(modules.len())].0;
        let a = r.range(1, 9);
        match r.below(7) {
            // a line that imports and then fails to compile
            0 | 1 => lines.push(format!("{a} %{m}.area oops{li}")),
            2 => lines.push(format!("[{a}] %{m}.area")),
            3 => {
                let m2 = &modules[r.usize(modules.len())].0;
                bound += 1;
                lines.push(format!("a{bound} = {a} %{m}.area, b{bound} = {a} %{m2}.area, [a{bound}, b{bound}]"));
            }
            4 => lines.push(format!("{a} %{m}.area %{m}.area")),
            5 => {
                bound += 1;
                lines.push(format!("f{bound} = &%{m}.area, {a} f{bound}"));
            }
            _ => lines.push(format!("{a} %{m}.area")),
        }
    }
    (modules, lines)
}

/// A REPL session: a line of bindings, then lines that use them (and `@N` process references).
pub fn session(r: &mut Rng, ev: &mut Ev) -> Vec<String> {
    let mut g = G { r, vars: vec![], next: 0, param: None, feats: vec![] };
    g.feat("session");
    let mut lines = vec![];
    // line 1: function definitions and value bindings
    let mut first: Vec<String> = g.functions();
    let nb = 1 + g.r.usize(3);
    for _ in 0..nb {
        let v = g.fresh("s");
        let dd = 1 + g.r.usize(2);
        let e = g.int(dd);
        first.push(format!("{v} = {e}"));
        g.vars.push(Var { name: v, kind: Kind::Int });
    }
    if g.r.chance(1, 2) {
        let v = g.fresh("st");
        first.push(format!("{v} = [{}, {}]", g.int(1), g.int(1)));
        g.vars.push(Var { name: v, kind: Kind::Tup(2) });
    }
    let with_proc = g.r.chance(1, 2);
    lines.push(first.join(", "));
    if with_proc {
        g.feat("session-process");
        lines.push("@#{ !#'int =v, [v, 1] __integer_add__ }".to_string());
    }
    // continuation lines
    let nl = 1 + g.r.usize(3);
    for _ in 0..nl {
        let d = 1 + g.r.usize(3);
        match g.r.below(4) {
            0 => {
                let v = g.fresh("s");
                let e = g.int(d);
                lines.push(format!("{v} = {e}"));
                g.vars.push(Var { name: v, kind: Kind::Int });
            }
            1 => {
                // the previous result flows into the line
                lines.push(format!("{{ =('int)pr => [pr, {}] __integer_add__ | {} }}", g.int(d), g.int(d)));
            }
            _ => lines.push(g.int(d)),
        }
    }
    if with_proc {
        lines.push(format!("{} @1", g.int(1)));
        lines.push("!@1".to_string());
    }
    for f in &g.feats {
        ev.hit(&format!("gen:{f}"));
    }
    lines
}

/// One program. Records the constructs used as `gen:<feature>` counters.
pub fn program(r: &mut Rng, ev: &mut Ev) -> String {
    let mut g = G { r, vars: vec![], next: 0, param: None, feats: vec![] };
    let mut steps: Vec<String> = vec![];
    if g.r.chance(1, 4) {
        // partial types that stay reachable, registered AFTER types only unused code mentions (so a
        // tree shake renumbers the types the partial type's fields refer to)
        g.feat("partial-type-after-unused-types");
        let k = g.r.range(1, 9);
        match g.r.below(3) {
            0 => {
                steps.push("'pu1 = Foo['bin, Bar['int]]".into());
                steps.push("'phx = (x: Cel['int])".into());
                steps.push("ppf = #(A[x: Cel['int]] | A[x: 'bin]) { ='phx => 1 | 0 }".into());
                steps.push(format!("pr1 = [A[x: Cel[{k}]] ppf, A[x: 0xff] ppf] .0"));
            }
            1 => {
                steps.push("pun = #Foo['bin, Bar['int]] { 1 }".into());
                steps.push("ppg = #(x: Cel['int]) { $.x.0 }".into());
                steps.push(format!("pr1 = A[x: Cel[{k}]] ppg"));
            }
            _ => {
                // (type aliases come before the first expression statement)
                steps.push("'pu2 = Baz[Qux['bin], 'int] | Quux['bin]".into());
                steps.push("'phy = (y: Cel['int])".into());
                steps.push("pun = #'pu2 { 2 }".into());
                steps.push("pph = #(P[x: 'int, y: Cel['int]] | P[x: 'int, y: 'bin]) { | ='phy => $.x | 0 }".into());
                steps.push(format!("pr1 = [P[x: {k}, y: Cel[3]] pph, P[x: 1, y: 0x00] pph] .0"));
            }
        }
        g.vars.push(Var { name: "pr1".into(), kind: Kind::Int });
    }
    steps.extend(g.functions());
    let n = 1 + g.r.usize(4);
    for i in 0..n {
        let d = 1 + g.r.usize(3);
        let last = i + 1 == n;
        match g.r.below(10) {
            0..=4 if !last => {
                let v = g.fresh("v");
                let e = g.int(d);
                steps.push(format!("{v} = {e}"));
                g.vars.push(Var { name: v, kind: Kind::Int });
            }
            5 if !last => {
                let v = g.fresh("t");
                let e = format!("[{}, {}]", g.int(d - 1), g.int(d - 1));
                steps.push(format!("{v} = {e}"));
                g.vars.push(Var { name: v, kind: Kind::Tup(2) });
            }
            6 if !last => {
                // in-chain destructuring at the top level
                let x = g.fresh("a");
                let y = g.fresh("b");
                let e = format!("[{}, {}]", g.int(d - 1), g.int(d - 1));
                steps.push(format!("{e} =[{x}, {y}]"));
                g.vars.push(Var { name: x, kind: Kind::Int });
                g.vars.push(Var { name: y, kind: Kind::Int });
            }
            7 if !last => {
                let t = if g.r.chance(1, 2) { g.process_template() } else { g.probe() };
                steps.extend(t);
            }
            _ => {
                let e = g.int(d);
                steps.push(e);
            }
        }
    }
    // sometimes make the program evaluate to a function (the `quiv run` packaging)
    if g.r.chance(1, 5) {
        g.feat("entry-function");
        let body = g.int(2);
        if g.r.chance(1, 2) {
            steps.push(format!("#{{ {body} }}"));
        } else {
            // with captures
            let k = g.fresh("cap");
            steps.push(format!("{k} = {body}"));
            steps.push(format!("#{{ [{k}, 1] __integer_add__ }}"));
        }
    }
    for f in &g.feats {
        ev.hit(&format!("gen:{f}"));
    }
    steps.join(",\n")
}
