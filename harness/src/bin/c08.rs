//! C08 — runtime type tests accept only members and never reject known members, identically when
//! the program runs directly, tree-shaken, or merged behind other programs.
//!
//! The runtime test is a table lookup (`Executor::check_type_compatible`): the tables are computed
//! by `quiver_core::compatibility::{compute_type_compatibility, compute_param_compatibility,
//! compute_canonical_tuples}` when a program is loaded / merged. This binary
//!   * compares those Rust-computed tables, as sorted sets, with the model's (`qm_c08`,
//!     Core/Types/Compat.lean) — on generated compatibility inputs (type tables from the C09
//!     generator + functions with IsType instructions, builtins, resources) and on the tables of
//!     COMPILED programs in three configurations: direct (`Program::to_bytecode`), tree-shaken
//!     (`optimisation::tree_shake`), merged behind other programs (the real `Environment`/`Repl`
//!     merge path under the deterministic simulator; the tables are the ones the workers are told
//!     in `Command::UpdateProgram`);
//!   * evaluates the property on the implementation's tables: acceptance ⇒ inhabitation
//!     (enumerated values of the tag's type, `inhB`), static containment (`is_compatible(S, t)` for
//!     a union `S`) ⇒ acceptance of every tag whose type is a variant of `S`, identical verdicts
//!     across the three configurations (compared structurally: pattern and tags rendered as terms).
//! The Rust computation runs in a child process (`c08 --impl-server`): `is_compatible` may not
//! terminate on recursive callables (C09 R4).
use qverif::{Ev, Opts, Rng, catch};
use quiver_core::bytecode::{Bytecode, ConcreteType, Function, Instruction};
use quiver_core::compatibility::{CompatibilityInput, compute_canonical_tuples, compute_param_compatibility, compute_type_compatibility};
use quiver_core::program::Program;
use quiver_core::types::{BuiltinInfo, Type};
use serde_json::{Value as J, json};
use std::collections::{BTreeMap, BTreeSet, HashSet};

#[path = "../tygen.rs"]
mod tygen;
use tygen::*;

const EFUEL: usize = 10;
const WIDTH: usize = 3;

/// A compatibility input in plain form.
#[derive(Clone, Debug, Default)]
struct Input {
    tbl: Tbl,
    /// (type_id, IsType ids)
    functions: Vec<(usize, Vec<usize>)>,
    /// (name, param_type, result_type)
    builtins: Vec<(String, usize, usize)>,
    resources: Vec<String>,
}

impl Input {
    fn of_bytecode(bc: &Bytecode) -> Input {
        Input {
            tbl: Tbl { types: bc.types.clone(), tuples: bc.tuples.clone() },
            functions: bc.functions.iter().map(|f| (f.type_id, is_types(f))).collect(),
            builtins: bc.builtins.iter().map(|b| (b.name.clone(), b.param_type, b.result_type)).collect(),
            resources: bc.resources.clone(),
        }
    }
    fn of_program(p: &Program) -> Input {
        Input {
            tbl: Tbl::of_program(p),
            functions: p.get_functions().iter().map(|f| (f.type_id, is_types(f))).collect(),
            builtins: p.get_builtins().iter().map(|b| (b.name.clone(), b.param_type, b.result_type)).collect(),
            resources: p.collect_resource_names(),
        }
    }
    /// `(program (table …) (functions …) (builtins …) (resources …))` + the names used
    fn sx(&self) -> (String, Names) {
        let mut names = Names::new();
        let t = self.tbl.sx(&mut names);
        let mut s = format!("(program {t} (functions");
        for (ty, is) in &self.functions {
            s.push_str(&format!(" ({ty}"));
            for i in is {
                s.push_str(&format!(" {i}"));
            }
            s.push(')');
        }
        s.push_str(") (builtins");
        for (_, p, r) in &self.builtins {
            s.push_str(&format!(" ({p} {r})"));
        }
        s.push_str(") (resources");
        for r in &self.resources {
            s.push_str(&format!(" {}", names.id(r)));
        }
        s.push_str("))");
        (s, names)
    }
    fn to_json(&self) -> J {
        let (sx, names) = self.sx();
        json!({"program": sx, "names": names.names, "builtin_names": self.builtins.iter().map(|b| b.0.clone()).collect::<Vec<_>>()})
    }
    fn of_json(j: &J) -> Option<Input> {
        let mut names = Names::new();
        for n in j["names"].as_array()? {
            names.id(n.as_str()?);
        }
        let xs = Sx::parse(j["program"].as_str()?)?;
        let l = xs.first()?.list()?;
        let tl = l.get(1)?.list()?;
        let (types, tuples) = entries_of_sx(tl, 1, &names)?;
        let mut functions = vec![];
        for f in &l.get(2)?.list()?[1..] {
            let f = f.list()?;
            functions.push((f.first()?.nat()?, f[1..].iter().filter_map(|x| x.nat()).collect()));
        }
        let bn: Vec<String> = j["builtin_names"].as_array().map(|a| a.iter().map(|x| x.as_str().unwrap_or("").to_string()).collect()).unwrap_or_default();
        let mut builtins = vec![];
        for (i, b) in l.get(3)?.list()?[1..].iter().enumerate() {
            let b = b.list()?;
            builtins.push((bn.get(i).cloned().unwrap_or(format!("b{i}")), b.first()?.nat()?, b.get(1)?.nat()?));
        }
        let mut resources = vec![];
        for r in &l.get(4)?.list()?[1..] {
            resources.push(names.name(r.nat()?));
        }
        Some(Input { tbl: Tbl { types, tuples }, functions, builtins, resources })
    }
}

fn is_types(f: &Function) -> Vec<usize> {
    f.instructions.iter().filter_map(|i| if let Instruction::IsType(t) = i { Some(*t) } else { None }).collect()
}

/// canonical order of tags (the order the computation iterates in)
fn tag_key(c: &ConcreteType) -> (u8, usize) {
    match c {
        ConcreteType::Integer => (0, 0),
        ConcreteType::Binary => (1, 0),
        ConcreteType::Reference => (2, 0),
        ConcreteType::Tuple(i) => (3, *i),
        ConcreteType::Function(i) => (4, *i),
        ConcreteType::Builtin(i) => (5, *i),
        ConcreteType::Process(i) => (6, *i),
        ConcreteType::Resource(i) => (7, *i),
    }
}

fn tag_sx(c: &ConcreteType) -> String {
    match c {
        ConcreteType::Integer => "i".into(),
        ConcreteType::Binary => "b".into(),
        ConcreteType::Reference => "r".into(),
        ConcreteType::Tuple(i) => format!("(t {i})"),
        ConcreteType::Function(i) => format!("(f {i})"),
        ConcreteType::Builtin(i) => format!("(u {i})"),
        ConcreteType::Process(i) => format!("(p {i})"),
        ConcreteType::Resource(i) => format!("(x {i})"),
    }
}

fn sets_sx(sets: &[HashSet<ConcreteType>]) -> String {
    sets.iter()
        .map(|s| {
            let mut v: Vec<&ConcreteType> = s.iter().collect();
            v.sort_by_key(|c| tag_key(c));
            format!("({})", v.iter().map(|c| tag_sx(c)).collect::<Vec<_>>().join(" "))
        })
        .collect::<Vec<_>>()
        .join(" ")
}

/// The three tables as the model renders them.
#[derive(Clone, Debug, PartialEq, Eq)]
struct Tables {
    tc: String,
    pc: String,
    canon: String,
}

fn compute_impl(inp: &Input) -> Tables {
    let functions: Vec<Function> = inp
        .functions
        .iter()
        .map(|(ty, is)| Function { instructions: is.iter().map(|i| Instruction::IsType(*i)).collect(), captures: 0, type_id: *ty })
        .collect();
    let builtins: Vec<BuiltinInfo> = inp.builtins.iter().map(|(n, p, r)| BuiltinInfo { name: n.clone(), param_type: *p, result_type: *r }).collect();
    let ci = CompatibilityInput { types: &inp.tbl.types, tuples: &inp.tbl.tuples, functions: &functions, builtins: &builtins, resource_names: &inp.resources };
    let tc = compute_type_compatibility(&ci);
    let (fp, bp) = compute_param_compatibility(&ci);
    let canon = compute_canonical_tuples(&inp.tbl.tuples);
    Tables {
        tc: format!("(tc {})", sets_sx(&tc)),
        pc: format!("(fp {}) (bp {})", sets_sx(&fp), sets_sx(&bp)),
        canon: format!("(canon{})", canon.iter().map(|i| format!(" {i}")).collect::<String>()),
    }
}

/// Execute `<push a value of tag>; IsType(pattern)` on the real VM (sync path). `inp` must already
/// contain the probing function as its LAST function (so that the model sees the same input).
/// Answers `ok` / `nil` / `error:<class>` / `unsupported`.
fn execute_is_type(inp: &Input, pattern: usize, tag: &str) -> String {
    use quiver_core::bytecode::Constant;
    let Some(t) = Sx::parse(tag).and_then(|x| x.into_iter().next()) else { return "unsupported".into() };
    let mut code: Vec<Instruction> = vec![];
    match &t {
        Sx::A(a) if a == "i" => code.push(Instruction::Constant(0)),
        Sx::A(a) if a == "b" => code.push(Instruction::Constant(1)),
        Sx::L(v) => {
            let n = v.get(1).and_then(|x| x.nat()).unwrap_or(0);
            match v.first().and_then(|x| x.atom()) {
                Some("t") => {
                    let Some(info) = inp.tbl.tuples.get(n) else { return "unsupported".into() };
                    for _ in 0..info.fields.len() {
                        code.push(Instruction::Constant(0));
                    }
                    code.push(Instruction::Tuple(n));
                }
                Some("f") => code.push(Instruction::Function(n)),
                Some("p") => code.push(Instruction::Process(7, n)),
                _ => return "unsupported".into(),
            }
        }
        _ => return "unsupported".into(),
    }
    code.push(Instruction::IsType(pattern));
    let mut functions: Vec<Function> = inp
        .functions
        .iter()
        .map(|(ty, is)| Function { instructions: is.iter().map(|i| Instruction::IsType(*i)).collect(), captures: 0, type_id: *ty })
        .collect();
    let entry = functions.len() - 1;
    functions[entry].instructions = code;
    let bc = Bytecode {
        constants: vec![Constant::Integer(0.into()), Constant::Binary(vec![0])],
        functions,
        builtins: vec![],
        entry: Some(entry),
        tuples: inp.tbl.tuples.clone(),
        types: inp.tbl.types.clone(),
        resources: inp.resources.clone(),
    };
    let b = qverif::run::builtins();
    match quiver_core::execute_bytecode_sync(bc, &b, false) {
        Ok((v, _)) => match v {
            quiver_core::value::Value::Tuple(1, _) => "ok".into(),
            quiver_core::value::Value::Tuple(0, _) => "nil".into(),
            other => format!("value:{}", other.type_name()),
        },
        Err(e) => format!("error:{}", qverif::canon::error_class(&e)),
    }
}

// ---------------------------------------------------------------------------------------------
// implementation server (child process): `C <input json>` → three lines joined by tabs
// ---------------------------------------------------------------------------------------------

fn impl_server_main() {
    use std::io::{BufRead, Write};
    qverif::quiet_panics();
    let stdin = std::io::stdin();
    let mut out = std::io::stdout();
    for line in stdin.lock().lines() {
        let Ok(line) = line else { break };
        let j = serde_json::from_str::<J>(&line).ok();
        let ans = match j.as_ref().and_then(Input::of_json) {
            None => "bad-request".to_string(),
            Some(inp) => {
                if let Some(pr) = j.as_ref().and_then(|j| j.get("probe")) {
                    // run a real `IsType` instruction on a value of the given tag
                    let p = pr["pattern"].as_u64().unwrap_or(0) as usize;
                    let tag = pr["tag"].as_str().unwrap_or("");
                    match catch(|| execute_is_type(&inp, p, tag)) {
                        Ok(s) => s,
                        Err(m) => format!("P {}", m.lines().next().unwrap_or("")),
                    }
                } else {
                    match catch(|| compute_impl(&inp)) {
                        Ok(t) => format!("{}\t{}\t{}", t.tc, t.pc, t.canon),
                        Err(p) => format!("P {}", p.lines().next().unwrap_or("")),
                    }
                }
            }
        };
        let _ = writeln!(out, "{ans}");
        let _ = out.flush();
    }
}

struct ImplServer {
    child: std::process::Child,
    stdin: std::process::ChildStdin,
    rx: std::sync::mpsc::Receiver<String>,
    restarts: u64,
}

impl ImplServer {
    fn start() -> (std::process::Child, std::process::ChildStdin, std::sync::mpsc::Receiver<String>) {
        use std::io::BufRead;
        let exe = std::env::current_exe().expect("current_exe");
        let mut child = std::process::Command::new(exe)
            .arg("--impl-server")
            .stdin(std::process::Stdio::piped())
            .stdout(std::process::Stdio::piped())
            .stderr(std::process::Stdio::null())
            .spawn()
            .expect("spawn impl server");
        let stdin = child.stdin.take().unwrap();
        let stdout = child.stdout.take().unwrap();
        let (tx, rx) = std::sync::mpsc::channel();
        std::thread::spawn(move || {
            for l in std::io::BufReader::new(stdout).lines() {
                let Ok(l) = l else { break };
                if tx.send(l).is_err() {
                    break;
                }
            }
        });
        (child, stdin, rx)
    }
    fn new() -> ImplServer {
        let (child, stdin, rx) = Self::start();
        ImplServer { child, stdin, rx, restarts: 0 }
    }
    /// `Err(why)` when the child aborted (stack overflow) or did not answer in time
    fn compute(&mut self, inp: &Input) -> Result<Tables, String> {
        use std::io::Write;
        let line = inp.to_json().to_string();
        let sent = self.stdin.write_all(line.as_bytes()).is_ok() && self.stdin.write_all(b"\n").is_ok() && self.stdin.flush().is_ok();
        let ans = if sent { self.rx.recv_timeout(std::time::Duration::from_secs(20)) } else { Err(std::sync::mpsc::RecvTimeoutError::Disconnected) };
        match ans {
            Ok(l) if l.starts_with("P ") => Err(format!("panic: {l}")),
            Ok(l) => {
                let f: Vec<&str> = l.split('\t').collect();
                if f.len() == 3 {
                    Ok(Tables { tc: f[0].into(), pc: f[1].into(), canon: f[2].into() })
                } else {
                    Err(format!("malformed answer `{l}`"))
                }
            }
            Err(e) => {
                let why = match e {
                    std::sync::mpsc::RecvTimeoutError::Timeout => "no answer within 20 s",
                    _ => "the process aborted (stack overflow)",
                };
                let _ = self.child.kill();
                let _ = self.child.wait();
                let (child, stdin, rx) = Self::start();
                self.child = child;
                self.stdin = stdin;
                self.rx = rx;
                self.restarts += 1;
                Err(why.to_string())
            }
        }
    }
}

impl ImplServer {
    /// run a real IsType instruction in the child; `Err` when the child died
    fn probe(&mut self, inp: &Input, pattern: usize, tag: &str) -> Result<String, String> {
        use std::io::Write;
        let mut j = inp.to_json();
        j["probe"] = json!({"pattern": pattern, "tag": tag});
        let line = j.to_string();
        let sent = self.stdin.write_all(line.as_bytes()).is_ok() && self.stdin.write_all(b"\n").is_ok() && self.stdin.flush().is_ok();
        let ans = if sent { self.rx.recv_timeout(std::time::Duration::from_secs(20)) } else { Err(std::sync::mpsc::RecvTimeoutError::Disconnected) };
        match ans {
            Ok(l) => Ok(l),
            Err(_) => {
                let _ = self.child.kill();
                let _ = self.child.wait();
                let (child, stdin, rx) = Self::start();
                self.child = child;
                self.stdin = stdin;
                self.rx = rx;
                self.restarts += 1;
                Err("the process aborted or did not answer".into())
            }
        }
    }
}

impl Drop for ImplServer {
    fn drop(&mut self) {
        let _ = self.child.kill();
        let _ = self.child.wait();
    }
}

// ---------------------------------------------------------------------------------------------
// structural view of a table set (for the cross-configuration oracle)
// ---------------------------------------------------------------------------------------------

fn parse_sets(s: &str) -> Vec<Vec<Sx>> {
    // `(tc (..) (..))` → per entry the list of tag s-expressions
    Sx::parse(s)
        .and_then(|xs| {
            let l = xs.first()?.list()?.to_vec();
            Some(l[1..].iter().map(|e| e.list().map(|x| x.to_vec()).unwrap_or_default()).collect())
        })
        .unwrap_or_default()
}

/// structural name of a tag in a given input
fn tag_canon(inp: &Input, tag: &Sx) -> String {
    match tag {
        Sx::A(a) => a.clone(),
        Sx::L(v) => {
            let k = v.first().and_then(|x| x.atom()).unwrap_or("?");
            let n = v.get(1).and_then(|x| x.nat()).unwrap_or(usize::MAX);
            match k {
                "t" => match inp.tbl.tuples.get(n) {
                    Some(info) => format!(
                        "tuple:{}[{}]",
                        info.name.clone().unwrap_or("_".into()),
                        info.fields.iter().map(|(l, t)| format!("{}:{}", l.clone().unwrap_or("_".into()), inp.tbl.canon(*t))).collect::<Vec<_>>().join(",")
                    ),
                    None => format!("tuple?{n}"),
                },
                "f" => format!("fn:{}", inp.functions.get(n).map(|f| inp.tbl.canon(f.0)).unwrap_or("?".into())),
                "p" => format!("proc:{}", inp.functions.get(n).map(|f| inp.tbl.canon(f.0)).unwrap_or("?".into())),
                "u" => format!("builtin:{}", inp.builtins.get(n).map(|b| b.0.clone()).unwrap_or("?".into())),
                "x" => format!("res:{}", inp.resources.get(n).cloned().unwrap_or("?".into())),
                _ => "?".into(),
            }
        }
    }
}

/// every tag that exists in a configuration, structurally named
fn present_tags(inp: &Input) -> BTreeSet<String> {
    let mut s: BTreeSet<String> = ["i", "b", "r"].iter().map(|x| x.to_string()).collect();
    for i in 0..inp.tbl.tuples.len() {
        s.insert(tag_canon(inp, &Sx::L(vec![Sx::A("t".into()), Sx::A(i.to_string())])));
    }
    for i in 0..inp.functions.len() {
        s.insert(tag_canon(inp, &Sx::L(vec![Sx::A("f".into()), Sx::A(i.to_string())])));
        s.insert(tag_canon(inp, &Sx::L(vec![Sx::A("p".into()), Sx::A(i.to_string())])));
    }
    for i in 0..inp.builtins.len() {
        s.insert(tag_canon(inp, &Sx::L(vec![Sx::A("u".into()), Sx::A(i.to_string())])));
    }
    for i in 0..inp.resources.len() {
        s.insert(tag_canon(inp, &Sx::L(vec![Sx::A("x".into()), Sx::A(i.to_string())])));
    }
    s
}

/// pattern term ↦ accepted tags (structural), over the IsType patterns of the configuration and
/// the parameter types of its functions (mailbox filtering of typed receives)
fn acceptance_view(inp: &Input, t: &Tables) -> BTreeMap<String, BTreeSet<String>> {
    let sets = parse_sets(&t.tc);
    let mut out: BTreeMap<String, BTreeSet<String>> = BTreeMap::new();
    // `(fp …) (bp …)`: two top-level lists
    if let Some(xs) = Sx::parse(&t.pc) {
        if let Some(fp) = xs.first().and_then(|x| x.list()) {
            for (f, set) in fp[1..].iter().enumerate() {
                let Some((ty, _)) = inp.functions.get(f) else { continue };
                // only functions whose type is a callable have a parameter of their own
                if inp.tbl.kind(*ty) != "fn" {
                    continue;
                }
                let e = out.entry(format!("param-of:{}", inp.tbl.canon(*ty))).or_default();
                for tag in set.list().unwrap_or(&[]) {
                    e.insert(tag_canon(inp, tag));
                }
            }
        }
    }
    let patterns: BTreeSet<usize> = inp.functions.iter().flat_map(|f| f.1.iter().copied()).collect();
    for p in patterns {
        if let Some(set) = sets.get(p) {
            let e = out.entry(inp.tbl.canon(p)).or_default();
            for tag in set {
                e.insert(tag_canon(inp, tag));
            }
        }
    }
    out
}

// ---------------------------------------------------------------------------------------------
// generated inputs
// ---------------------------------------------------------------------------------------------

fn gen_input(r: &mut Rng) -> (Input, Vec<usize>, &'static str) {
    let k = r.below(100);
    let (stream, cfg) = if k < 60 {
        ("closed", GenCfg { open: false, higher: true, cycles: true })
    } else if k < 90 {
        ("first-order", GenCfg { open: false, higher: false, cycles: false })
    } else {
        ("open", GenCfg { open: true, higher: true, cycles: true })
    };
    let mut program = Program::new();
    let n_roots = [1usize, 2, 3, 4, 5, 6, 6, 7, 8][r.usize(9)];
    let mut pool: Vec<(usize, Tm)> = vec![];
    let mut tries = 0;
    while pool.len() < n_roots && tries < 60 {
        tries += 1;
        let tm = if !pool.is_empty() && r.chance(45, 100) {
            mutate(&pool[r.usize(pool.len())].1.clone(), r)
        } else if cfg.cycles && r.chance(1, 5) {
            gen_recursive_template(r)
        } else {
            let d = [1usize, 2, 2, 3, 3][r.usize(5)];
            gen_tm(r, d, &mut vec![], &cfg)
        };
        if tm.size() > 30 || (tm.has_dup_labels() && stream != "open") {
            continue;
        }
        let id = tm.register(&mut program);
        if !pool.iter().any(|(i, _)| *i == id) {
            pool.push((id, tm));
        }
    }
    // make sure the primitive types are usually present (the index needs an entry to accept them)
    if r.chance(4, 5) {
        program.register_type(Type::Integer);
        program.register_type(Type::Binary);
    }
    let never = if r.chance(4, 5) { Some(program.register_type(Type::Union(vec![]))) } else { None };
    // functions: a callable type each (mostly), with IsType instructions on pool / random ids
    let mut functions = vec![];
    let n_fn = r.usize(6);
    for _ in 0..n_fn {
        let n_types = program.get_types().len();
        let ty = if r.chance(3, 4) {
            let p = pool[r.usize(pool.len())].0;
            let q = pool[r.usize(pool.len())].0;
            let rc = if r.chance(3, 4) { never.unwrap_or(q) } else { pool[r.usize(pool.len())].0 };
            let id = program.register_type(Type::Callable { parameter: p, result: q, receive: rc });
            // the compiler registers the process type of a spawned function at the spawn site
            if r.chance(1, 2) {
                program.register_type(Type::Process { send: Some(rc), receive: Some(q) });
            }
            id
        } else if r.chance(1, 8) {
            n_types + 3
        } else {
            r.usize(n_types.max(1))
        };
        let mut is = vec![];
        for _ in 0..r.usize(4) {
            let n_types = program.get_types().len();
            is.push(if r.chance(3, 4) { pool[r.usize(pool.len())].0 } else if r.chance(1, 10) { n_types + 1 } else { r.usize(n_types.max(1)) });
        }
        functions.push((ty, is));
    }
    let mut builtins = vec![];
    for i in 0..r.usize(3) {
        let n_types = program.get_types().len();
        let (p, q) = (pool[r.usize(pool.len())].0, r.usize(n_types.max(1)));
        if r.chance(1, 2) {
            if let Some(nv) = never {
                program.register_type(Type::Callable { parameter: p, result: q, receive: nv });
            }
        }
        builtins.push((format!("builtin_{i}"), p, q));
    }
    let mut resources = program.collect_resource_names();
    if r.chance(1, 4) {
        resources.push("absent".into());
    }
    if r.chance(1, 4) {
        resources.reverse();
    }
    let pool_ids = pool.iter().map(|p| p.0).collect();
    (Input { tbl: Tbl::of_program(&program), functions, builtins, resources }, pool_ids, stream)
}

thread_local! {
    static COUNT_REPORTS: std::cell::RefCell<u64> = std::cell::RefCell::new(0);
}

fn report(ev: &mut Ev, sig: &str, what: &str, replay: J, found: bool) {
    if std::env::var("C08_DUMP").is_ok() && !ev.counters.contains_key(&format!("report:{sig}")) {
        eprintln!("[{sig}] {what}");
    }
    ev.hit(&format!("report:{sig}"));
    ev.violation(sig, what, replay, found);
}

/// model vs implementation on one input; returns the implementation's tables when available
fn correspond(ev: &mut Ev, model: &mut TModel, srv: &mut ImplServer, inp: &Input, what: &str, key: &str) -> Option<Tables> {
    let (sx, _) = inp.sx();
    let ans = model.ask(&sx);
    if !ans.starts_with("ok ") {
        report(ev, "driver=program-rejected", &format!("model driver rejected an input: {ans}"), json!({"broken": "driver protocol", "input": inp.to_json()}), false);
        return None;
    }
    let m = Tables { tc: model.ask_t("(type-compat)", 30), pc: model.ask_t("(param-compat)", 30), canon: model.ask("(canonical)") };
    ev.case(&(key, what), true);
    let model_fuel_out = m.tc == "fuel-out" || m.pc == "fuel-out";
    if m.tc == "model-timeout" || m.pc == "model-timeout" {
        report(ev, "model-timeout:compat-tables", "the model driver did not compute the tables in time", json!({"broken": "correspondence: model timed out", "input": inp.to_json()}), false);
        return None;
    }
    let i = match srv.compute(inp) {
        Ok(t) => t,
        Err(why) => {
            if model_fuel_out {
                ev.hit(&format!("{what}:impl-does-not-return (model: fuel-out)"));
                report(ev, "compat=callable-arm-no-assumption-nontermination",
                    &format!("computing the compatibility tables does not return ({why}); the model runs out of fuel — is_compatible loops on a recursive callable (C09 R4)"),
                    json!({"input": inp.to_json(), "impl": why, "model": "fuel-out"}), true);
            } else {
                report(ev, "impl-no-answer:compat-tables", &format!("computing the compatibility tables does not return ({why}); the model of the code has an answer"),
                    json!({"input": inp.to_json(), "impl": why, "broken": "correspondence model<->impl on compute_*_compatibility"}), true);
            }
            return None;
        }
    };
    if model_fuel_out {
        report(ev, "corr=tables model-fuel-out", "the model ran out of fuel but the implementation computed the tables", json!({"broken": "correspondence (model fuel)", "input": inp.to_json()}), false);
        return Some(i);
    }
    ev.hit(&format!("{what}:tables-compared"));
    for (name, a, b) in [("type_compatibility", &i.tc, &m.tc), ("param_compatibility", &i.pc, &m.pc), ("canonical_tuples", &i.canon, &m.canon)] {
        if a != b {
            // find the first differing entry for the report
            let (sa, sb) = (parse_sets(&format!("({a})")), parse_sets(&format!("({b})")));
            let _ = (sa, sb);
            report(ev, &format!("corr={name} ({what})"), &format!("{name} differs between the implementation and the model ({what}): impl {} / model {}", &a[..a.len().min(300)], &b[..b.len().min(300)]),
                json!({"broken": format!("correspondence model<->impl on {name}"), "input": inp.to_json(), "impl": a, "model": b}), false);
        }
    }
    Some(i)
}

/// the property on the implementation's tables of one input
fn oracle(ev: &mut Ev, model: &mut TModel, inp: &Input, t: &Tables, what: &str) {
    let classes: Vec<char> = model.ask("(classes)").chars().collect();
    let sets = parse_sets(&t.tc);
    let patterns: BTreeSet<usize> = inp.functions.iter().flat_map(|f| f.1.iter().copied()).filter(|p| *p < inp.tbl.types.len()).collect();
    let mut budget = 40;
    for &p in &patterns {
        if classes.get(p) == Some(&'x') || classes.get(p).is_none() {
            continue;
        }
        let Some(set) = sets.get(p) else { continue };
        // (1) acceptance ⇒ inhabitation: every enumerated value of the tag's type inhabits p
        for tag in set {
            if budget == 0 {
                break;
            }
            budget -= 1;
            let ty = model.ask(&format!("(tag-type {})", tag.render()));
            let Ok(tid) = ty.parse::<usize>() else { continue };
            if classes.get(tid) == Some(&'x') {
                ev.hit("oracle:tag-type-not-closed (skipped)");
                continue;
            }
            let ans = model.ask(&format!("(sound {p} {} {EFUEL} {WIDTH})", tag.render()));
            if ans.starts_with("(bad") {
                ev.hit("oracle:accepted-nonmember");
                let fo = classes.get(tid) == Some(&'f') && classes.get(p) == Some(&'f');
                let sig = if fo {
                    format!("istype-unsound:{}-vs-{}", inp.tbl.kind(tid), inp.tbl.kind(p))
                } else {
                    format!("istype-unsound:{}-vs-{} (recursive/higher-order)", inp.tbl.kind(tid), inp.tbl.kind(p))
                };
                report(ev, &sig, &format!("({what}) the pattern {} accepts the tag {} (type {}) but the value {ans} of that type does not inhabit the pattern", inp.tbl.show(p), tag.render(), inp.tbl.show(tid)),
                    json!({"input": inp.to_json(), "pattern": p, "tag": tag.render(), "tag_type": tid, "value": ans}), true);
            } else if ans.starts_with("ok") {
                ev.hit("oracle:acceptance-confirmed");
            }
        }
        // (2) static containment ⇒ acceptance: is_compatible(S, p) for a union S ⇒ every tag whose
        //     type is a variant of S is accepted
        for (s, ty) in inp.tbl.types.iter().enumerate() {
            let Type::Union(vs) = ty else { continue };
            if vs.is_empty() || classes.get(s) == Some(&'x') || budget == 0 {
                continue;
            }
            budget -= 1;
            if model.ask(&format!("(compat {s} {p})")) != "true" {
                continue;
            }
            ev.hit("oracle:static-containment-cases");
            // tags whose type id is a variant of S
            let mut tags: Vec<String> = vec!["i".into(), "b".into(), "r".into()];
            tags.extend((0..inp.tbl.tuples.len()).map(|i| format!("(t {i})")));
            tags.extend((0..inp.resources.len()).map(|i| format!("(x {i})")));
            for tag in tags {
                let ty = model.ask(&format!("(tag-type {tag})"));
                let Ok(tid) = ty.parse::<usize>() else { continue };
                if !vs.contains(&tid) {
                    continue;
                }
                let accepted = set.iter().any(|x| x.render() == tag);
                if !accepted {
                    ev.hit("oracle:known-member-rejected");
                    let fo = classes.get(s) == Some(&'f') && classes.get(p) == Some(&'f');
                    report(ev, &format!("istype-rejects-known-member:{}{}", inp.tbl.kind(p), if fo { "" } else { " (recursive/higher-order)" }),
                        &format!("({what}) {} is assignable to the pattern {} but the tag {tag} of its variant {} is rejected at runtime", inp.tbl.show(s), inp.tbl.show(p), inp.tbl.show(tid)),
                        json!({"input": inp.to_json(), "pattern": p, "static": s, "tag": tag}), true);
                } else {
                    ev.hit("oracle:known-member-accepted");
                }
            }
        }
    }
}

// ---------------------------------------------------------------------------------------------
// compiled programs in three configurations
// ---------------------------------------------------------------------------------------------

fn last_update(sim: &qverif::sim::Sim) -> Option<quiver_core::executor::ProgramUpdate> {
    let c = sim.chans[0].chan.lock().unwrap();
    c.cmd_log.iter().rev().find_map(|(_, cmd)| if let quiver_environment::Command::UpdateProgram(u) = cmd { Some(u.clone()) } else { None })
}

fn run_program(ev: &mut Ev, model: &mut TModel, srv: &mut ImplServer, b: &qverif::run::Builtins, name: &str, src: &str, before: &[String], expect_sig: Option<&str>) {
    let modules = std::collections::HashMap::new();
    let unit = match qverif::run::compile_source(src, &modules, b) {
        Ok(u) => u,
        Err(e) => {
            if std::env::var("C08_DUMP").is_ok() && (name.starts_with("F13") || name == "replay") {
                eprintln!("front end rejects {name}: {e:?}");
            }
            ev.hit("program:rejected-by-front-end");
            return;
        }
    };
    ev.hit("program:compiled");
    let bc = unit.program.to_bytecode(Some(unit.entry));
    let direct = Input::of_bytecode(&bc);
    let shaken_bc = match catch(|| quiver_core::optimisation::tree_shake(bc.clone(), unit.entry)) {
        Ok(x) => x,
        Err(p) => {
            report(ev, "tree_shake=panic", &format!("tree_shake panics on {name}: {p}"), json!({"source": src}), true);
            return;
        }
    };
    let shaken = Input::of_bytecode(&shaken_bc);
    // merged: the real REPL / Environment merge path behind other programs
    let mut merged: Option<(Input, Tables)> = None;
    let sim_res = catch(|| {
        let mut sim = qverif::sim::Sim::new(1, None, b.clone(), true).with_repl(modules.clone());
        for s in before {
            let _ = qverif::sim::eval_in(&mut sim, s, None, 300);
        }
        match sim.submit(src) {
            Ok(_) => {}
            Err(_) => return None,
        }
        let u = last_update(&sim)?;
        let inp = Input::of_program(sim.env.get_program());
        let t = Tables {
            tc: format!("(tc {})", sets_sx(&u.type_compatibility)),
            pc: format!("(fp {}) (bp {})", sets_sx(&u.function_param_compatibility), sets_sx(&u.builtin_param_compatibility)),
            canon: format!("(canon{})", u.canonical_tuples.iter().map(|i| format!(" {i}")).collect::<String>()),
        };
        Some((inp, t))
    });
    match sim_res {
        Ok(Some(x)) => merged = Some(x),
        Ok(None) => ev.hit("program:merge-path-not-available"),
        Err(_) => ev.hit("program:merge-path-panicked"),
    }
    let mut views: Vec<(&str, Input, Tables)> = vec![];
    // tags of the DIRECT configuration that can occur at run time there: the index has a type
    // entry for them (the compiler registers the Process / never-receiving Callable / primitive
    // entry where such a value is created). Other configurations are compared on these.
    let mut realizable: BTreeSet<String> = BTreeSet::new();
    for (cfg, inp) in [("direct", &direct), ("tree-shaken", &shaken)] {
        if let Some(t) = correspond(ev, model, srv, inp, cfg, name) {
            if cfg == "direct" {
                if let Some(xs) = Sx::parse(&model.ask_t("(tag-types)", 30)) {
                    for e in xs.first().and_then(|x| x.list()).map(|l| l[1..].to_vec()).unwrap_or_default() {
                        if let Some(l) = e.list() {
                            if l.get(1).and_then(|x| x.atom()) != Some("_") {
                                realizable.insert(tag_canon(inp, &l[0]));
                            }
                        }
                    }
                }
            }
            oracle(ev, model, inp, &t, cfg);
            views.push((cfg, inp.clone(), t));
        }
    }
    if let Some((inp, told)) = merged {
        // what the workers were told must be what compute_* gives on the merged program, and what
        // the model gives
        if let Some(t) = correspond(ev, model, srv, &inp, "merged", name) {
            if t != told {
                report(ev, "merge=tables-told-differ-from-recomputed", &format!("{name}: the tables in Command::UpdateProgram differ from compute_* on Environment::get_program()"),
                    json!({"source": src, "before": before}), false);
            }
            views.push(("merged", inp, told));
        }
    }
    // identical verdicts across configurations (structurally)
    for x in 0..views.len() {
        for y in (x + 1)..views.len() {
            let (cx, ix, tx) = (&views[x].0, &views[x].1, &views[x].2);
            let (cy, iy, ty) = (&views[y].0, &views[y].1, &views[y].2);
            let (ax, ay) = (acceptance_view(ix, tx), acceptance_view(iy, ty));
            let (px, py) = (present_tags(ix), present_tags(iy));
            for (pat, sx) in &ax {
                let Some(sy) = ay.get(pat) else { continue };
                ev.hit("oracle:cross-configuration-patterns");
                let vx: BTreeSet<&String> = sx.iter().filter(|t| py.contains(*t) && realizable.contains(*t)).collect();
                let vy: BTreeSet<&String> = sy.iter().filter(|t| px.contains(*t) && realizable.contains(*t)).collect();
                if vx != vy {
                    let only_x: Vec<&&String> = vx.difference(&vy).collect();
                    let only_y: Vec<&&String> = vy.difference(&vx).collect();
                    let kind = only_x.iter().chain(only_y.iter()).next().map(|t| t.split(':').next().unwrap_or("?").to_string()).unwrap_or_default();
                    let sig = expect_sig.map(|s| s.to_string()).unwrap_or(format!("config-verdicts-differ:{cx}-vs-{cy}:{kind}"));
                    report(ev, &sig,
                        &format!("{name}: the pattern {pat} accepts {only_x:?} only in the {cx} configuration and {only_y:?} only in the {cy} configuration (tags present in both)"),
                        json!({"source": src, "before": before, "pattern": pat, "configs": [cx, cy], "only_first": only_x, "only_second": only_y}), true);
                }
            }
        }
    }
}

// ---------------------------------------------------------------------------------------------
// generated type-test scripts: real `IsType` on real values, alone and merged with same-shape scripts
// ---------------------------------------------------------------------------------------------

/// the atoms of the little type language of the scripts
#[derive(Clone, Copy, PartialEq, Eq, Debug, PartialOrd, Ord)]
enum Atom {
    Int,
    Bin,
    Nil,
}

impl Atom {
    fn ty(self) -> &'static str {
        match self {
            Atom::Int => "'int",
            Atom::Bin => "'bin",
            Atom::Nil => "[]",
        }
    }
    fn lit(self, k: usize) -> String {
        match self {
            Atom::Int => format!("{}", 1 + k),
            Atom::Bin => format!("0x{:02x}", 0xa0 + k),
            Atom::Nil => "[]".to_string(),
        }
    }
    /// the other primitive (the sibling script has the same shape with the primitives exchanged)
    fn swap(self) -> Atom {
        match self {
            Atom::Int => Atom::Bin,
            Atom::Bin => Atom::Int,
            Atom::Nil => Atom::Nil,
        }
    }
}

fn atoms_ty(set: &[Atom]) -> String {
    if set.len() == 1 { set[0].ty().to_string() } else { format!("({})", set.iter().map(|a| a.ty()).collect::<Vec<_>>().join(" | ")) }
}

/// what a script tests: tuples `N[fields]`, functions `#'int -> R`, or processes receiving `M`
#[derive(Clone, Debug)]
enum Family {
    /// tuple name, patterns (one atom set per field), values (one atom per field)
    Tuples { name: &'static str, labels: Vec<Option<&'static str>>, patterns: Vec<Vec<Vec<Atom>>>, values: Vec<Vec<Atom>> },
    /// patterns = result types, values = the exact result sets of the function literals
    Functions { patterns: Vec<Vec<Atom>>, values: Vec<Vec<Atom>> },
    /// patterns = receive types, values = receive types of the spawned processes
    Processes { patterns: Vec<Vec<Atom>>, values: Vec<Vec<Atom>> },
}

fn subset(a: &[Atom], b: &[Atom]) -> bool {
    a.iter().all(|x| b.contains(x))
}

impl Family {
    fn swap(&self) -> Family {
        let sw = |v: &Vec<Atom>| -> Vec<Atom> { v.iter().map(|a| a.swap()).collect() };
        match self {
            Family::Tuples { name, labels, patterns, values } => Family::Tuples {
                name, labels: labels.clone(),
                patterns: patterns.iter().map(|p| p.iter().map(sw).collect()).collect(),
                values: values.iter().map(sw).collect(),
            },
            Family::Functions { patterns, values } => Family::Functions { patterns: patterns.iter().map(sw).collect(), values: values.iter().map(sw).collect() },
            Family::Processes { patterns, values } => Family::Processes { patterns: patterns.iter().map(sw).collect(), values: values.iter().map(sw).collect() },
        }
    }
    /// index (from 1) of the first pattern the k-th value is a member of, 0 when none — membership
    /// as the property reads it: a tuple value is a member when each field is in the field's type; a
    /// function / process value when its declared type is assignable to the pattern type (result
    /// sets resp. receive sets contained)
    fn expected(&self) -> Vec<usize> {
        let first = |ok: &dyn Fn(usize) -> bool, n: usize| (0..n).find(|i| ok(*i)).map(|i| i + 1).unwrap_or(0);
        match self {
            Family::Tuples { patterns, values, .. } => values.iter().map(|v| first(&|i| patterns[i].iter().zip(v.iter()).all(|(set, a)| set.contains(a)), patterns.len())).collect(),
            Family::Functions { patterns, values } | Family::Processes { patterns, values } => values.iter().map(|v| first(&|i| subset(v, &patterns[i]), patterns.len())).collect(),
        }
    }
    /// the script; function / process values are defined first
    fn source(&self) -> String {
        self.source_marked().replace(SPLIT, "")
    }
    /// the same as two REPL lines (definitions, then the tests), when the family has definitions
    fn repl_lines(&self) -> Option<(String, String)> {
        let m = self.source_marked();
        let (defs, test) = m.split_once(SPLIT)?;
        Some((defs.trim_end().trim_end_matches(',').to_string(), test.to_string()))
    }
    fn source_marked(&self) -> String {
        match self {
            Family::Tuples { name, labels, patterns, values } => {
                let field = |l: &Option<&str>, t: String| match l { Some(l) => format!("{l}: {t}"), None => t };
                let pat_ty = |p: &Vec<Vec<Atom>>| format!("{name}[{}]", p.iter().zip(labels.iter()).map(|(set, l)| field(l, atoms_ty(set))).collect::<Vec<_>>().join(", "));
                let val_ty = |v: &Vec<Atom>| format!("{name}[{}]", v.iter().zip(labels.iter()).map(|(a, l)| field(l, a.ty().to_string())).collect::<Vec<_>>().join(", "));
                let mut param: Vec<String> = patterns.iter().map(pat_ty).collect();
                for v in values {
                    let t = val_ty(v);
                    if !param.contains(&t) {
                        param.push(t);
                    }
                }
                let arms: String = patterns.iter().enumerate().map(|(i, p)| format!(" | ={} => {}", pat_ty(p), i + 1)).collect();
                let calls: Vec<String> = values.iter().enumerate().map(|(k, v)| format!("{name}[{}] c", v.iter().zip(labels.iter()).map(|(a, l)| field(l, a.lit(k))).collect::<Vec<_>>().join(", "))).collect();
                format!("c = #({}) {{{arms} | 0 }}, [{}]", param.join(" | "), calls.join(", "))
            }
            Family::Functions { patterns, values } => {
                let mut wide: Vec<Atom> = vec![];
                for v in values.iter().chain(patterns.iter()) {
                    for a in v {
                        if !wide.contains(a) {
                            wide.push(*a);
                        }
                    }
                }
                let arms: String = patterns.iter().enumerate().map(|(i, p)| format!(" | =(#'int -> {}) => {}", atoms_ty(p), i + 1)).collect();
                // a function literal whose result set is exactly `v`
                let lit = |v: &Vec<Atom>| -> String {
                    let out = |a: &Atom| match a { Atom::Int => "$".to_string(), Atom::Bin => "0xbb".to_string(), Atom::Nil => "[]".to_string() };
                    if v.len() == 1 {
                        match v[0] { Atom::Int => "#'int { [~, 1] __integer_add__ }".to_string(), a => format!("#'int {{ {} }}", out(&a)) }
                    } else {
                        let mut arms = String::new();
                        for (k, a) in v.iter().enumerate() {
                            if k + 1 < v.len() { arms.push_str(&format!(" | ={k} => {}", out(a))); } else { arms.push_str(&format!(" | {}", out(a))); }
                        }
                        format!("#'int {{{arms} }}")
                    }
                };
                let defs: String = values.iter().enumerate().map(|(k, v)| format!("f{k} = {}, ", lit(v))).collect();
                let calls: Vec<String> = (0..values.len()).map(|k| format!("&f{k} c")).collect();
                format!("{defs}{SPLIT}c = #(#'int -> {}) {{{arms} | 0 }}, [{}]", atoms_ty(&wide), calls.join(", "))
            }
            Family::Processes { patterns, values } => {
                let mut wide: Vec<Atom> = vec![];
                for v in values.iter().chain(patterns.iter()) {
                    for a in v {
                        if !wide.contains(a) {
                            wide.push(*a);
                        }
                    }
                }
                let arms: String = patterns.iter().enumerate().map(|(i, p)| format!(" | =(@{}) => {}", atoms_ty(p), i + 1)).collect();
                let defs: String = values.iter().enumerate().map(|(k, v)| format!("p{k} = @{{ !{} }}, ", atoms_ty(v))).collect();
                let calls: Vec<String> = (0..values.len()).map(|k| format!("&p{k} c")).collect();
                format!("{defs}{SPLIT}c = #(@{}) {{{arms} | 0 }}, [{}]", atoms_ty(&wide), calls.join(", "))
            }
        }
    }
}

/// marks the end of the definitions in `source_marked`
const SPLIT: &str = "/*--*/";

fn gen_atom_set(r: &mut Rng, allow_nil: bool) -> Vec<Atom> {
    let pool: &[Atom] = if allow_nil { &[Atom::Int, Atom::Bin, Atom::Nil] } else { &[Atom::Int, Atom::Bin] };
    loop {
        let mut v: Vec<Atom> = pool.iter().copied().filter(|_| r.chance(1, 2)).collect();
        if !v.is_empty() {
            if r.chance(1, 2) {
                v.reverse();
            }
            return v;
        }
    }
}

fn gen_family(r: &mut Rng) -> Family {
    let n_pat = 1 + r.usize(3);
    let n_val = 2 + r.usize(3);
    match r.below(10) {
        0..=4 => {
            let name = ["T", "U", "Ok"][r.usize(3)];
            let n_fields = 1 + r.usize(2);
            let labels: Vec<Option<&'static str>> = (0..n_fields).map(|k| if r.chance(1, 3) { Some(["x", "y"][k]) } else { None }).collect();
            let patterns = (0..n_pat).map(|_| (0..n_fields).map(|_| if r.chance(2, 3) { vec![[Atom::Int, Atom::Bin, Atom::Nil][r.usize(3)]] } else { gen_atom_set(r, true) }).collect()).collect();
            let values = (0..n_val).map(|_| (0..n_fields).map(|_| [Atom::Int, Atom::Bin, Atom::Nil][r.usize(3)]).collect()).collect();
            Family::Tuples { name, labels, patterns, values }
        }
        5..=7 => Family::Functions { patterns: (0..n_pat).map(|_| gen_atom_set(r, true)).collect(), values: (0..n_val).map(|_| gen_atom_set(r, true)).collect() },
        _ => Family::Processes { patterns: (0..n_pat).map(|_| gen_atom_set(r, false)).collect(), values: (0..n_val.min(3)).map(|_| gen_atom_set(r, false)).collect() },
    }
}

/// compile `src` on its own (own `Program`, own id space) and run it as a new process of `sim`'s
/// environment, which merges its bytecode with what is already there; canonical result
fn run_script_in(sim: &mut qverif::sim::Sim, b: &qverif::run::Builtins, src: &str, shake: bool) -> Result<String, String> {
    let unit = qverif::run::compile_source(src, &std::collections::HashMap::new(), b).map_err(|e| format!("rejected:{e:?}"))?;
    let mut bc = unit.program.to_bytecode(Some(unit.entry));
    if shake {
        bc = catch(|| quiver_core::optimisation::tree_shake(bc.clone(), unit.entry)).map_err(|p| format!("tree_shake panics: {p}"))?;
    }
    let out = catch(std::panic::AssertUnwindSafe(|| {
        let pid = sim.env.start_process(Some(bc)).map_err(|e| format!("start_process: {e:?}"))?;
        let req = sim.env.request_result(pid, None).map_err(|e| format!("request_result: {e:?}"))?;
        let mut result = None;
        let finished = sim.run_fair(400, |s| {
            if result.is_none() {
                result = s.poll_result(req);
            }
            result.is_some()
        });
        if !finished {
            return Err("no result".to_string());
        }
        match result.unwrap() {
            Ok((v, heap)) => Ok(sim.canon(&v, &heap)),
            Err(e) => Err(format!("runtime error: {e:?}")),
        }
    }));
    match out {
        Ok(x) => x,
        Err(p) => Err(format!("panic: {p}")),
    }
}

/// the canonical rendering (`qverif::canon`) of the list of verdicts `[e1, e2, …]`
fn expected_render(e: &[usize]) -> String {
    format!("t(_;{})", e.iter().map(|i| format!("_=i{i}")).collect::<Vec<_>>().join(","))
}

/// One generated script `S` and its same-shape sibling `S'` (primitives exchanged, so the two type
/// tables coincide index for index while the entries mean different types): `S` alone (plain and
/// tree-shaken), then both in ONE environment in both orders. Every result must be the list of
/// verdicts that membership gives.
fn run_type_test_scripts(ev: &mut Ev, b: &qverif::run::Builtins, r: &mut Rng, k: u64) {
    let fam = gen_family(r);
    let sib = if r.chance(4, 5) { fam.swap() } else { gen_family(r) };
    let (src, want) = (fam.source(), expected_render(&fam.expected()));
    let (src2, want2) = (sib.source(), expected_render(&sib.expected()));
    let kind = match fam { Family::Tuples { .. } => "tuples", Family::Functions { .. } => "functions", Family::Processes { .. } => "processes" };
    ev.hit(&format!("script-family:{kind}"));
    let fresh = || qverif::sim::Sim::new(1, None, b.clone(), false);
    let check = |ev: &mut Ev, cfg: &str, got: Result<String, String>, src: &str, want: &str, before: &[&str]| {
        ev.case(&("script", k, cfg, src), true);
        match got {
            Ok(g) if g == want => ev.hit(&format!("script:{cfg}:verdicts-as-membership")),
            Err(e) if e.starts_with("rejected:") => ev.hit(&format!("script:{cfg}:rejected-by-front-end")),
            Ok(g) => {
                let sig = if before.is_empty() { format!("script-verdicts:{kind}:{cfg}") } else { format!("script-verdicts-after-merge:{kind}") };
                report(ev, &sig,
                    &format!("({cfg}) the type tests of `{src}` give {g}, membership gives {want}{}", if before.is_empty() { String::new() } else { format!(" — after {} other script(s) had been merged into the environment: {before:?}", before.len()) }),
                    json!({"script": src, "before_scripts": before, "configuration": cfg, "got": g, "membership": want}), true);
            }
            Err(e) => report(ev, &format!("script-run:{kind}:{cfg}"), &format!("({cfg}) `{src}` does not produce a result: {e}"), json!({"script": src, "before_scripts": before, "configuration": cfg, "error": e}), true),
        }
    };
    let mut sim = fresh();
    let got = run_script_in(&mut sim, b, &src, false);
    if matches!(&got, Err(e) if e.starts_with("rejected:")) {
        ev.hit("script:rejected-by-front-end");
        if std::env::var("C08_DUMP").is_ok() {
            eprintln!("rejected: {src}: {got:?}");
        }
        return;
    }
    check(ev, "alone", got, &src, &want, &[]);
    let mut sim = fresh();
    check(ev, "alone-tree-shaken", run_script_in(&mut sim, b, &src, true), &src, &want, &[]);
    // both orders in one environment
    let mut sim = fresh();
    let first = run_script_in(&mut sim, b, &src2, false);
    if !matches!(&first, Err(e) if e.starts_with("rejected:")) {
        check(ev, "sibling-first", first, &src2, &want2, &[]);
        check(ev, "after-sibling", run_script_in(&mut sim, b, &src, r.chance(1, 3)), &src, &want, &[&src2]);
        let mut sim = fresh();
        let _ = run_script_in(&mut sim, b, &src, false);
        check(ev, "sibling-after", run_script_in(&mut sim, b, &src2, r.chance(1, 3)), &src2, &want2, &[&src]);
    }
    // a REPL session: the function / process values are bound on one line and tested on the next
    // (they come back as literals of the session's program), alone and after an independent script
    // has been merged into the same environment (so the session's indices are shifted)
    if let Some((defs, test)) = fam.repl_lines() {
        for after_script in [false, true] {
            let cfg = if after_script { "repl-two-lines-after-script" } else { "repl-two-lines" };
            let mut sim = fresh().with_repl(std::collections::HashMap::new());
            let mut before: Vec<&str> = vec![];
            if after_script {
                let _ = run_script_in(&mut sim, b, &src2, false);
                before.push(&src2);
            }
            let out = catch(std::panic::AssertUnwindSafe(|| {
                let d = qverif::sim::eval_in(&mut sim, &defs, None, 400);
                let t = qverif::sim::eval_in(&mut sim, &test, None, 400);
                (d.render(), t)
            }));
            let got = match out {
                Ok((_, qverif::sim::EvalOutcome::Value(v))) => Ok(v),
                Ok((_, qverif::sim::EvalOutcome::Rejected(e))) => Err(format!("rejected:{e}")),
                Ok((d, other)) => Err(format!("{} (definitions line: {d})", other.render())),
                Err(p) => Err(format!("panic: {p}")),
            };
            let shown = format!("{defs} ⏎ {test}");
            check(ev, cfg, got, &shown, &want, &before);
        }
    }
}

fn main() {
    let argv: Vec<String> = std::env::args().collect();
    if argv.get(1).map(|s| s.as_str()) == Some("--impl-server") {
        impl_server_main();
        return;
    }
    qverif::quiet_panics();
    let opts = Opts::parse();
    let mut ev = Ev::new("C08", &opts);
    ev.rule = "(a) generated compatibility inputs: a type table from the C09 generator (streams closed / first-order / open) plus 0-5 functions \
               (callable type, 0-3 IsType instructions), 0-2 builtins, resource names; (b) compiled programs (test-suite sources, std modules, \
               regression corpus) in three configurations: direct, tree-shaken, merged behind 0-2 other programs through the real REPL merge path; \
               one case per (input, configuration); every case is non-trivial (three tables compared entry by entry); distinct by input"
        .into();
    let mut model = TModel::spawn(opts.model.as_ref().expect("--model"));
    let mut srv = ImplServer::new();
    let b = qverif::run::builtins();

    if let Some(p) = &opts.replay {
        let j: J = serde_json::from_str(&std::fs::read_to_string(p).expect("replay file")).expect("replay json");
        println!("replay: {}", j["what"].as_str().unwrap_or(""));
        let rp = &j["replay"];
        let mut bad = false;
        if let Some(src) = rp["source"].as_str() {
            let before: Vec<String> = rp["before"].as_array().map(|a| a.iter().filter_map(|x| x.as_str().map(|s| s.to_string())).collect()).unwrap_or_default();
            let mut ev2 = Ev::new("C08", &opts);
            run_program(&mut ev2, &mut model, &mut srv, &b, "replay", src, &before, None);
            println!("replay counters: {:?}", ev2.counters);
            bad = ev2.violation_count() > 0;
        } else if let Some(script) = rp["script"].as_str() {
            // a generated type-test script: same configuration, verdicts against the recorded membership
            let before: Vec<String> = rp["before_scripts"].as_array().map(|a| a.iter().filter_map(|x| x.as_str().map(|s| s.to_string())).collect()).unwrap_or_default();
            let want = rp["membership"].as_str().unwrap_or("");
            let mut sim = qverif::sim::Sim::new(1, None, b.clone(), false);
            for s in &before {
                let _ = run_script_in(&mut sim, &b, s, false);
            }
            let got = run_script_in(&mut sim, &b, script, rp["configuration"].as_str() == Some("alone-tree-shaken"));
            println!("replay: verdicts {got:?}, membership {want}");
            bad = !matches!(&got, Ok(g) if g == want);
        } else if let Some(inp) = Input::of_json(&rp["input"]) {
            let mut ev2 = Ev::new("C08", &opts);
            if let Some(t) = correspond(&mut ev2, &mut model, &mut srv, &inp, "replay", "replay") {
                oracle(&mut ev2, &mut model, &inp, &t, "replay");
            }
            bad = ev2.violation_count() > 0;
        }
        println!("{}", if bad { "replay: the property still fails on this input" } else { "replay: no failure on this input" });
        std::process::exit(if bad { 1 } else { 0 });
    }

    // ---- regression corpus (programs) ----------------------------------------------------------
    let mut files: Vec<_> = std::fs::read_dir("/verif/corpus/C08").map(|d| d.filter_map(|e| e.ok()).map(|e| e.path()).collect()).unwrap_or_default();
    files.sort();
    for f in files {
        if f.extension().and_then(|e| e.to_str()) != Some("json") {
            continue;
        }
        let Ok(j) = serde_json::from_str::<J>(&std::fs::read_to_string(&f).unwrap_or_default()) else { continue };
        let src = j["source"].as_str().unwrap_or("");
        let before: Vec<String> = j["before"].as_array().map(|a| a.iter().filter_map(|x| x.as_str().map(|s| s.to_string())).collect()).unwrap_or_default();
        ev.hit("corpus-program");
        let before_count = ev.counters.get("program:compiled").copied().unwrap_or(0);
        run_program(&mut ev, &mut model, &mut srv, &b, j["name"].as_str().unwrap_or("corpus"), src, &before, j["signature"].as_str());
        if ev.counters.get("program:compiled").copied().unwrap_or(0) == before_count {
            report(&mut ev, "corpus=program-rejected", &format!("corpus program {} no longer compiles", f.display()), json!({"broken": "corpus", "file": f.to_string_lossy()}), false);
        }
    }

    // ---- generated inputs ----------------------------------------------------------------------
    let n_gen = opts.tier.pick(1500u64, 30000u64);
    for i in 0..n_gen {
        let mut r = Rng::for_case(opts.seed ^ 0xC08, i);
        let (inp, _pool, stream) = gen_input(&mut r);
        ev.hit(&format!("stream:{stream}"));
        ev.hit(&format!("functions:{}", inp.functions.len()));
        if i % 400 == 0 {
            ev.sample(json!({"case": i, "stream": stream, "functions": inp.functions, "builtins": inp.builtins.len(), "types": inp.tbl.types.len()}));
        }
        let key = format!("g{i}");
        if let Some(t) = correspond(&mut ev, &mut model, &mut srv, &inp, "generated", &key) {
            if stream != "open" {
                oracle(&mut ev, &mut model, &inp, &t, "generated");
            }
            // the executor's lookup itself: run a real `IsType` on a value of a random tag
            // (the probing function is appended to the input, for the model as for the VM)
            for _ in 0..2 {
                let n_types = inp.tbl.types.len();
                if n_types == 0 {
                    break;
                }
                let pattern = if !_pool.is_empty() && r.chance(3, 4) { _pool[r.usize(_pool.len())] } else { r.usize(n_types + 1) };
                let tag = match r.below(6) {
                    0 => "i".to_string(),
                    1 => "b".to_string(),
                    2 | 3 => format!("(t {})", r.usize(inp.tbl.tuples.len())),
                    4 if !inp.functions.is_empty() => format!("(f {})", r.usize(inp.functions.len())),
                    _ if !inp.functions.is_empty() => format!("(p {})", r.usize(inp.functions.len())),
                    _ => "i".to_string(),
                };
                let mut inp2 = inp.clone();
                inp2.builtins.clear();
                inp2.functions.push((0, vec![pattern]));
                let (sx, _) = inp2.sx();
                if !model.ask(&sx).starts_with("ok ") {
                    continue;
                }
                let m = model.ask_t(&format!("(is-type {pattern} {tag})"), 30);
                if m == "fuel-out" || m == "model-timeout" {
                    ev.hit("execute-IsType:model-fuel-out (VM not run)");
                    continue;
                }
                let want = if m == "true" { "ok" } else { "nil" };
                ev.case(&(&key, "execute", pattern, &tag), true);
                match srv.probe(&inp2, pattern, &tag) {
                    Ok(got) if got == want => ev.hit(&format!("execute-IsType:{got}")),
                    Ok(got) if got == "unsupported" => ev.hit("execute-IsType:unsupported-tag"),
                    Ok(got) => {
                        // the model mirrors the tables; is the VM's verdict wrong for the PROPERTY?
                        let mut found = false;
                        let mut what = format!("executing IsType({}) on a value with tag {tag} gives {got}, the model of the tables says {m}", inp2.tbl.show(pattern));
                        if let Ok(tid) = model.ask(&format!("(tag-type {tag})")).parse::<usize>() {
                            if got == "ok" {
                                let snd = model.ask(&format!("(sound {pattern} {tag} {EFUEL} {WIDTH})"));
                                if snd.starts_with("(bad") {
                                    found = true;
                                    what = format!("the VM accepts a value with tag {tag} (type {}) for the pattern {}, but the value {snd} of that type does not inhabit the pattern", inp2.tbl.show(tid), inp2.tbl.show(pattern));
                                }
                            } else if got == "nil" && model.ask(&format!("(compat {tid} {pattern})")) == "true" {
                                found = true;
                                what = format!("the VM rejects a value with tag {tag} for the pattern {} although its type {} is assignable to the pattern (a known member is rejected)", inp2.tbl.show(pattern), inp2.tbl.show(tid));
                            }
                        }
                        report(&mut ev, &format!("corr=execute-IsType impl={} model={m}", got.split(':').next().unwrap_or("")), &what,
                            json!({"broken": "correspondence model<->impl on Executor::check_type_compatible / get_concrete_type", "input": inp2.to_json(), "pattern": pattern, "tag": tag, "impl": got, "model": m}), found);
                    }
                    Err(why) => {
                        report(&mut ev, "impl-no-answer:execute-IsType", &format!("executing IsType on tag {tag}: {why}; the model answers {m}"),
                            json!({"input": inp2.to_json(), "pattern": pattern, "tag": tag, "broken": "correspondence: the VM crashes loading / running this input"}), true);
                    }
                }
            }
        }
    }

    // ---- generated type-test scripts -----------------------------------------------------------
    let n_scripts = opts.tier.pick(160u64, 3000u64);
    for k in 0..n_scripts {
        let mut r = Rng::for_case(opts.seed ^ 0xC085C, k);
        run_type_test_scripts(&mut ev, &b, &mut r, k);
    }
    ev.set_extra("type_test_scripts", json!(n_scripts));

    // ---- compiled programs ---------------------------------------------------------------------
    let mut sources: Vec<(String, String)> = qverif::corpus::test_sources();
    for (m, _) in qverif::corpus::std_modules() {
        sources.push((format!("std/{m}"), format!("%{m}")));
    }
    let n_prog = opts.tier.pick(220usize, 4000usize).min(sources.len().max(1));
    let mut r = Rng::for_case(opts.seed ^ 0xC08C08, 0);
    for k in 0..n_prog {
        if sources.is_empty() {
            break;
        }
        let (name, src) = sources[r.usize(sources.len())].clone();
        // 0-2 other programs merged before it
        let mut before = vec![];
        for _ in 0..r.usize(3) {
            before.push(sources[r.usize(sources.len())].1.clone());
        }
        if k % 60 == 0 {
            ev.sample(json!({"program": name, "source": &src[..src.len().min(200)], "merged_behind": before.len()}));
        }
        run_program(&mut ev, &mut model, &mut srv, &b, &format!("{name}#{k}"), &src, &before, None);
    }
    ev.set_extra("generated_inputs", json!(n_gen));
    ev.set_extra("programs", json!(n_prog));
    ev.set_extra("model_requests", json!(model.requests));
    ev.set_extra("model_timeouts", json!(model.timeouts));
    ev.set_extra("impl_server_restarts", json!(srv.restarts));
    std::process::exit(ev.finish());
}
