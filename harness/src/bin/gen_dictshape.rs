//! gen_dictshape — regenerates `lean/QuiverModel/Generated/DictShape.lean` from the live
//! `std/dict.qv`, parsed with the REAL parser (`quiver_compiler::parse`): for every top-level
//! definition and every field of the exported record its name, type parameters, parameter type
//! text, total number of branches, callee names in source order, integer literals in source order
//! and a structural skeleton (blocks / branches / pattern kinds / constructors, local variable
//! names erased); the type aliases; and the FNV-1a 32-bit parameters read from the source text of
//! `builtins/binary.rs`. The kernel then re-checks `Theorems/C19Shape.lean`
//! (`C19.dict_shape_matches`: generated table = `QM.Dict.modelShape`, the table M-Dict was written
//! against) on every run: a new export, a new / removed / reordered branch, a different callee or a
//! changed constant fails the theorem until the model (and the table) follow.
use quiver_compiler::ast::*;
use std::collections::BTreeSet;

fn hexs(b: &[u8]) -> String {
    b.iter().map(|x| format!("{x:02x}")).collect()
}

fn ty(t: &Type) -> String {
    match t {
        Type::Primitive(PrimitiveType::Int) => "'int".into(),
        Type::Primitive(PrimitiveType::Bin) => "'bin".into(),
        Type::Primitive(PrimitiveType::Ref) => "'ref".into(),
        Type::Tuple(tt) => {
            let fs: Vec<String> = tt
                .fields
                .iter()
                .map(|f| match f {
                    FieldType::Field { name, type_def } => match name {
                        Some(n) => format!("{n}: {}", ty(type_def)),
                        None => ty(type_def),
                    },
                    FieldType::Spread { identifier, type_arguments } => {
                        format!("...{}{}", identifier.clone().unwrap_or_default(), targs(type_arguments))
                    }
                })
                .collect();
            let (l, r) = if tt.is_partial { ("(", ")") } else { ("[", "]") };
            let name = tt.name.clone().unwrap_or_default();
            if fs.is_empty() && !name.is_empty() && !tt.is_partial { name } else { format!("{name}{l}{}{r}", fs.join(", ")) }
        }
        Type::Function(f) => format!("#{} -> {}", ty(&f.input), ty(&f.output)),
        Type::Union(u) => format!("({})", u.types.iter().map(ty).collect::<Vec<_>>().join(" | ")),
        Type::Intersection(ts) => format!("({})", ts.iter().map(ty).collect::<Vec<_>>().join(" & ")),
        Type::Identifier { name, arguments } => format!("'{name}{}", targs(arguments)),
        Type::Cycle(None) => "^".into(),
        Type::Cycle(Some(n)) => format!("^{n}"),
        Type::Process(p) => format!(
            "@({}; {})",
            p.receive_type.as_ref().map(|t| ty(t)).unwrap_or_default(),
            p.return_type.as_ref().map(|t| ty(t)).unwrap_or_default()
        ),
        Type::Resource(r) => format!("resource:{r}"),
        Type::ModuleType { module, member, arguments } => {
            format!("'%{}{}{}", module.join("/"), member.as_ref().map(|m| format!(".{m}")).unwrap_or_default(), targs(arguments))
        }
        Type::SelfDefault { arguments } => format!("'{}", targs(arguments)),
    }
}

fn targs(a: &[Type]) -> String {
    if a.is_empty() { String::new() } else { format!("<{}>", a.iter().map(ty).collect::<Vec<_>>().join(", ")) }
}

/// every identifier bound by a pattern anywhere inside the terms (they shadow top-level names)
fn bound_terms(ts: &[Term], out: &mut BTreeSet<String>) {
    fn pat(m: &Match, out: &mut BTreeSet<String>) {
        match m {
            Match::Identifier(n, _) => {
                out.insert(n.clone());
            }
            Match::Tuple(t) => t.fields.iter().for_each(|f| pat(&f.pattern, out)),
            Match::Partial(p) => p.fields.iter().for_each(|f| match &f.pattern {
                Some(q) => pat(q, out),
                None => {
                    out.insert(f.name.clone());
                }
            }),
            Match::Or(ms) => ms.iter().for_each(|q| pat(q, out)),
            Match::As(_, n, _) => {
                out.insert(n.clone());
            }
            _ => {}
        }
    }
    fn chain(c: &Chain, out: &mut BTreeSet<String>) {
        if let Some(m) = &c.match_pattern {
            pat(m, out);
        }
        bound_terms(&c.terms, out);
    }
    fn expr(e: &Expression, out: &mut BTreeSet<String>) {
        for b in &e.branches {
            b.condition.chains.iter().for_each(|c| chain(c, out));
            if let Some(q) = &b.consequence {
                q.chains.iter().for_each(|c| chain(c, out));
            }
        }
    }
    for t in ts {
        match t {
            Term::Tuple(tu) => tu.fields.iter().for_each(|f| {
                if let FieldValue::Chain(c) = &f.value {
                    chain(c, out)
                }
            }),
            Term::String(_, segs, ..) => segs.iter().for_each(|g| {
                if let StrSegment::Hole(e) = g {
                    expr(e, out)
                }
            }),
            Term::Match(m) => pat(m, out),
            Term::Block(e) => expr(e, out),
            Term::Function(f) => {
                if let Some(e) = &f.body {
                    expr(e, out)
                }
            }
            Term::Spawn(t, _) => bound_terms(std::slice::from_ref(t), out),
            Term::Select(Some(cs), _) => cs.iter().for_each(|c| chain(c, out)),
            _ => {}
        }
    }
}

struct Cx<'a> {
    defs: &'a BTreeSet<String>,
    branches: usize,
    callees: Vec<String>,
    ints: Vec<String>,
}

impl Cx<'_> {
    fn lit(&mut self, l: &Literal) -> String {
        match l {
            Literal::Integer(i) => {
                self.ints.push(i.to_string());
                i.to_string()
            }
            Literal::Binary(b) => format!("0x{}", hexs(b)),
        }
    }

    fn pat(&mut self, m: &Match) -> String {
        match m {
            Match::Identifier(..) => "v".into(),
            Match::Literal(l) => self.lit(l),
            Match::String(_, b, ..) => format!("{:?}", String::from_utf8_lossy(b)),
            Match::Tuple(t) => {
                let fs: Vec<String> = t
                    .fields
                    .iter()
                    .map(|f| match &f.name {
                        Some(n) => format!("{n}: {}", self.pat(&f.pattern)),
                        None => self.pat(&f.pattern),
                    })
                    .collect();
                let name = t.name.clone().unwrap_or_default();
                if fs.is_empty() && !name.is_empty() { name } else { format!("{name}[{}]", fs.join(", ")) }
            }
            Match::Partial(p) => {
                let fs: Vec<String> = p
                    .fields
                    .iter()
                    .map(|f| match &f.pattern {
                        Some(q) => format!("{}: {}", f.name, self.pat(q)),
                        None => f.name.clone(),
                    })
                    .collect();
                format!("{}({})", p.name.clone().unwrap_or_default(), fs.join(", "))
            }
            Match::Star(n) => format!("{}*", n.clone().unwrap_or_default()),
            Match::Placeholder => "_".into(),
            Match::Reference(..) => "&v".into(),
            Match::Type(t) => ty(t),
            Match::Or(ms) => format!("({})", ms.iter().map(|q| self.pat(q)).collect::<Vec<_>>().join(" | ")),
            Match::As(t, ..) => format!("({})v", ty(t)),
        }
    }

    /// an access: callee names are kept (top-level definitions, imports, builtins, tail calls),
    /// local variables become `v`
    fn access(&mut self, a: &Access, reference: bool) -> String {
        let mut callee = true;
        let mut s = match &a.source {
            None => String::new(),
            Some(AccessSource::Identifier(n)) => {
                if self.defs.contains(n) {
                    n.clone()
                } else {
                    callee = false;
                    "v".into()
                }
            }
            Some(AccessSource::Parameter) => {
                callee = false;
                "$".into()
            }
            Some(AccessSource::Ripple) => {
                callee = false;
                "~".into()
            }
            Some(AccessSource::Import(p)) => format!("%{}", p.join("/")),
            Some(AccessSource::Self_) => {
                callee = false;
                ".".into()
            }
            Some(AccessSource::Builtin(n)) => n.clone(),
            Some(AccessSource::TailCall(None)) => "^".into(),
            Some(AccessSource::TailCall(Some(n))) => format!("^{n}"),
            Some(AccessSource::TailCallRipple) => "^~".into(),
        };
        for acc in &a.accessors {
            match acc {
                AccessPath::Field(f) => s.push_str(&format!(".{f}")),
                AccessPath::Index(i) => s.push_str(&format!(".{i}")),
            }
        }
        if reference {
            s = format!("&{s}");
        }
        if callee {
            self.callees.push(s.clone());
        }
        s
    }

    fn term(&mut self, t: &Term) -> String {
        match t {
            Term::Literal(l) => self.lit(l),
            Term::Tuple(tu) => {
                let name = match &tu.name {
                    TupleName::Anonymous => String::new(),
                    TupleName::Named(n) => n.clone(),
                    TupleName::Inherit => "~".into(),
                };
                let fs: Vec<String> = tu
                    .fields
                    .iter()
                    .map(|f| {
                        let v = match &f.value {
                            FieldValue::Chain(c) => self.chain(c),
                            FieldValue::Spread(n) => format!("...{}", n.clone().unwrap_or_default()),
                        };
                        match &f.name {
                            Some(n) => format!("{n}: {v}"),
                            None => v,
                        }
                    })
                    .collect();
                if fs.is_empty() && !name.is_empty() { name } else { format!("{name}[{}]", fs.join(", ")) }
            }
            Term::String(_, segs, ..) => {
                let mut s = String::new();
                for g in segs {
                    match g {
                        StrSegment::Text(b) => s.push_str(&String::from_utf8_lossy(b)),
                        StrSegment::Hole(e) => s.push_str(&self.expr(e)),
                    }
                }
                format!("{s:?}")
            }
            Term::Match(m) => format!("={}", self.pat(m)),
            Term::Block(e) => self.expr(e),
            Term::Function(f) => self.function(f),
            Term::Access(a) => self.access(a, false),
            Term::Spawn(t, _) => format!("@{}", self.term(t)),
            Term::Self_ => ".".into(),
            Term::Select(None, _) => "!".into(),
            Term::Select(Some(cs), _) => format!("![{}]", cs.iter().map(|c| self.chain(c)).collect::<Vec<_>>().join(", ")),
            Term::Process(n) => format!("process{n}"),
            Term::Reference(a) => self.access(a, true),
        }
    }

    fn function(&mut self, f: &Function) -> String {
        let tp = if f.type_parameters.is_empty() { String::new() } else { format!("<{}>", f.type_parameters.iter().map(|t| format!("'{t}")).collect::<Vec<_>>().join(", ")) };
        let p = f.parameter_type.as_ref().map(ty).unwrap_or_default();
        let r = f.return_type.as_ref().map(|t| format!(" -> {}", ty(t))).unwrap_or_default();
        let b = f.body.as_ref().map(|e| self.expr(e)).unwrap_or_default();
        format!("#{tp}{p}{r} {b}")
    }

    fn chain(&mut self, c: &Chain) -> String {
        let mut parts = vec![];
        if let Some(m) = &c.match_pattern {
            parts.push(format!("{} =", self.pat(m)));
        }
        for t in &c.terms {
            parts.push(self.term(t));
        }
        parts.join(" ")
    }

    fn seq(&mut self, s: &Sequence) -> String {
        s.chains.iter().map(|c| self.chain(c)).collect::<Vec<_>>().join(", ")
    }

    fn expr(&mut self, e: &Expression) -> String {
        self.branches += e.branches.len();
        let bs: Vec<String> = e
            .branches
            .iter()
            .map(|b| match &b.consequence {
                Some(c) => format!("{} => {}", self.seq(&b.condition), self.seq(c)),
                None => self.seq(&b.condition),
            })
            .collect();
        format!("{{ {} }}", bs.join(" | "))
    }
}

fn lean_str(s: &str) -> String {
    let mut o = String::from("\"");
    for c in s.chars() {
        match c {
            '"' => o.push_str("\\\""),
            '\\' => o.push_str("\\\\"),
            '\n' => o.push_str("\\n"),
            c => o.push(c),
        }
    }
    o.push('"');
    o
}

fn lean_list(v: &[String], quote: bool) -> String {
    format!("[{}]", v.iter().map(|s| if quote { lean_str(s) } else { s.clone() }).collect::<Vec<_>>().join(", "))
}

/// One table row. Everything on ONE line: `c19` compares rows textually to name what changed.
fn row(name: &str, defs: &BTreeSet<String>, terms: &[Term]) -> String {
    // names bound inside this definition shadow the top-level definitions of the same name
    let mut locals = BTreeSet::new();
    bound_terms(terms, &mut locals);
    let visible: BTreeSet<String> = defs.difference(&locals).cloned().collect();
    let defs = &visible;
    let mut cx = Cx { defs, branches: 0, callees: vec![], ints: vec![] };
    let (tparams, param, skeleton) = match terms {
        [Term::Function(f)] => {
            let b = f.body.as_ref().map(|e| cx.expr(e)).unwrap_or_default();
            let r = f.return_type.as_ref().map(|t| format!(" -> {}", ty(t))).unwrap_or_default();
            (f.type_parameters.clone(), format!("{}{r}", f.parameter_type.as_ref().map(ty).unwrap_or_default()), b)
        }
        ts => {
            let s: Vec<String> = ts.iter().map(|t| cx.term(t)).collect();
            (vec![], String::new(), s.join(" "))
        }
    };
    format!(
        "    {{ name := {}, typeParams := {}, param := {}, branches := {}, callees := {}, ints := {}, skeleton := {} }}",
        lean_str(name),
        lean_list(&tparams, true),
        lean_str(&param),
        cx.branches,
        lean_list(&cx.callees, true),
        lean_list(&cx.ints, false),
        lean_str(&skeleton)
    )
}

/// the decimal literal following the first occurrence of `pat` after `from` in `text`
fn number_after(text: &str, from: usize, pat: &str) -> Option<(String, usize)> {
    let i = text[from..].find(pat)? + from + pat.len();
    let rest = &text[i..];
    let skip = rest.len() - rest.trim_start().len();
    let digits: String = rest[skip..].chars().take_while(|c| c.is_ascii_digit() || *c == '_').filter(|c| *c != '_').collect();
    if digits.is_empty() { None } else { Some((digits, i)) }
}

fn main() {
    let repo = qverif::repo();
    let src = std::fs::read_to_string(format!("{repo}/std/dict.qv")).expect("read std/dict.qv");
    let prog = match quiver_compiler::parse(&src) {
        Ok(p) => p,
        Err(e) => {
            eprintln!("gen_dictshape: std/dict.qv does not parse: {e:?}");
            std::process::exit(2);
        }
    };
    // pass 1: names of the top-level definitions (so that calls are told from local variables)
    let mut defs = BTreeSet::new();
    for st in &prog.statements {
        if let Statement::Expression(seq) = st {
            for c in &seq.chains {
                if let Some(Match::Identifier(n, _)) = &c.match_pattern {
                    defs.insert(n.clone());
                }
            }
        }
    }
    let mut types = vec![];
    let mut rows = vec![];
    let mut exports = vec![];
    for st in &prog.statements {
        match st {
            Statement::TypeAlias { name, type_parameters, type_definition, .. } => {
                types.push(format!(
                    "    ({}, {}, {})",
                    lean_str(&name.clone().unwrap_or_default()),
                    lean_list(type_parameters, true),
                    lean_str(&ty(type_definition))
                ));
            }
            Statement::Expression(seq) => {
                for c in &seq.chains {
                    match (&c.match_pattern, c.terms.as_slice()) {
                        (Some(Match::Identifier(n, _)), ts) => rows.push(row(n, &defs, ts)),
                        (None, [Term::Tuple(tu)]) if tu.fields.iter().all(|f| f.name.is_some()) => {
                            for f in &tu.fields {
                                let n = f.name.clone().unwrap();
                                match &f.value {
                                    FieldValue::Chain(ch) => exports.push(row(&n, &defs, &ch.terms)),
                                    FieldValue::Spread(_) => exports.push(row(&n, &defs, &[])),
                                }
                            }
                        }
                        (p, ts) => {
                            // anything else at top level is kept verbatim as an anonymous row
                            let mut cx = Cx { defs: &defs, branches: 0, callees: vec![], ints: vec![] };
                            let pat = p.as_ref().map(|m| cx.pat(m)).unwrap_or_default();
                            rows.push(row(&format!("<statement {pat}>"), &defs, ts));
                        }
                    }
                }
            }
        }
    }
    // FNV-1a 32 parameters of `__binary_hash32__` (the hash `hash = #'key { key_bytes __binary_hash32__ }` uses)
    let bsrc = std::fs::read_to_string(format!("{repo}/quiver-core/src/builtins/binary.rs")).expect("read builtins/binary.rs");
    let fnv = (|| {
        let start = bsrc.find("fn builtin_binary_hash32")?;
        let end = bsrc[start + 1..].find("\npub fn ").map(|e| e + start + 1).unwrap_or(bsrc.len());
        let body = &bsrc[start..end];
        let (offset, at) = number_after(body, 0, "fold(")?;
        let (prime, _) = number_after(body, at, "wrapping_mul(")?;
        Some((offset, prime))
    })();
    let Some((offset, prime)) = fnv else {
        eprintln!("gen_dictshape: cannot read the FNV-1a 32-bit constants from builtins/binary.rs (fold(<offset>…wrapping_mul(<prime>))");
        std::process::exit(2);
    };

    let mut out = String::new();
    out.push_str("import QuiverModel.Core.DictShape\n");
    out.push_str("/-\nGENERATED by harness/src/bin/gen_dictshape.rs from std/dict.qv (real parser) and builtins/binary.rs — do not edit.\n-/\n");
    out.push_str("namespace QM.Generated\nopen QM.Dict\n\n");
    out.push_str("def dictShape : ModuleShape := {\n  types := [\n");
    out.push_str(&types.join(",\n"));
    out.push_str("\n  ],\n  defs := [\n");
    out.push_str(&rows.join(",\n"));
    out.push_str("\n  ],\n  exports := [\n");
    out.push_str(&exports.join(",\n"));
    out.push_str("\n  ] }\n\n");
    out.push_str(&format!("/-- FNV-1a 32-bit parameters in `builtin_binary_hash32` -/\ndef hashOffset32 : Nat := {offset}\ndef hashPrime32 : Nat := {prime}\n"));
    out.push_str("\nend QM.Generated\n");
    let path = format!("{}/QuiverModel/Generated/DictShape.lean", qverif::lean_dir());
    if std::fs::read_to_string(&path).ok().as_deref() != Some(out.as_str()) {
        std::fs::create_dir_all(std::path::Path::new(&path).parent().unwrap()).unwrap();
        std::fs::write(&path, out).expect("write DictShape.lean");
        println!("gen_dictshape: wrote {path} ({} definitions, {} exports, {} types)", rows.len(), exports.len(), types.len());
    } else {
        println!("gen_dictshape: {path} up to date ({} definitions, {} exports, {} types)", rows.len(), exports.len(), types.len());
    }
}
