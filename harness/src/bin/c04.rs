//! C04 — messages: exactly-once, per-sender FIFO, and no lost wake-ups.
//!
//! Generated message-passing scenarios (abstract scripts + the Quiver program that realises them)
//! run on the REAL `Environment`/`Worker`s under the deterministic simulator with adversarial random
//! schedules (1–4 workers, quantum 1/2/7/1000, partial visibility, starvation weights, clock
//! ticks). The SAME choice sequence is replayed step by step in the Lean model M-Sys (`qm_c04`,
//! `sysStep`), whose invariants are the theorems `C04.*`; canonical snapshots (per process: state
//! class, mailbox, awaiting map, result; per queue: kinds and targets of the in-flight messages)
//! must agree after every single choice.
//!
//! Oracles evaluated on the implementation alone:
//!   * at quiescence, for every receiver and every sender, consumed log ++ unread mailbox is exactly
//!     0,1,2,… (no loss, no duplicate, in send order) and complete when the sender finished;
//!   * the quiescence detector never fires while a parked process has a ready source (mailbox has a
//!     message a receive source accepts, an awaited result is present) or a spawner still waits for
//!     its pid;
//!   * a scenario that terminates by construction delivers its result (no hang);
//!   * no `Err`/panic from `Worker::step` / `Environment::step`.
#[path = "msys/mod.rs"]
mod msys;

use msys::generator as g;
use msys::*;
use qverif::sim::{Choice, Policy};
use qverif::{Ev, Model, Opts, Rng};
use serde_json::{Value as J, json};
use std::collections::HashMap;

struct RunResult {
    rejected: Option<String>,
    violations: Vec<(String, String, bool)>, // (signature, what, failing_input_found)
    replay: J,
    steps: usize,
    finished: bool,
    stats: HashMap<String, u64>,
}

fn pid_scripts(lock: &Lock, sc: &Scenario) -> HashMap<usize, usize> {
    // NotifySpawn commands in global order: the k-th spawn of a caller is the k-th Spawn act of
    // its script
    let mut notes: Vec<(u64, usize, usize)> = vec![];
    for ch in &lock.sim.chans {
        let c = ch.chan.lock().unwrap();
        for (seq, cmd) in &c.cmd_log {
            if let quiver_environment::Command::NotifySpawn { process_id, spawned_pid, .. } = cmd {
                notes.push((*seq, *process_id, *spawned_pid));
            }
        }
    }
    notes.sort();
    let mut map: HashMap<usize, usize> = HashMap::new();
    map.insert(0, 0);
    let mut count: HashMap<usize, usize> = HashMap::new();
    // callers are always known before their children (a child is created by its caller's spawn)
    for (_, caller, child) in notes {
        let Some(s) = map.get(&caller).copied() else { continue };
        let k = count.entry(caller).or_insert(0);
        let spawns: Vec<usize> = sc.scripts[s].iter().filter_map(|a| if let Act::Spawn { f, .. } = a { Some(*f) } else { None }).collect();
        if let Some(f) = spawns.get(*k) {
            map.insert(child, *f);
        }
        *k += 1;
    }
    map
}

/// exactly-once + FIFO on the final state of the implementation
fn delivery_oracle(lock: &Lock, sc: &Scenario, quiescent: bool) -> Vec<(String, String)> {
    let mut out = vec![];
    let scripts = pid_scripts(lock, sc);
    let script_pid: HashMap<usize, usize> = scripts.iter().map(|(p, s)| (*s, *p)).collect();
    let counts = g::send_tag_counts(sc);
    let logs = receiver_logs(&lock.sim);
    let result_ok = |pid: usize| -> bool {
        for w in &lock.sim.workers {
            if let Some(p) = w.verif_executor().get_process(pid) {
                return matches!(p.result, Some(Ok(_)));
            }
        }
        false
    };
    for (pid, (has_log, per)) in &logs {
        let Some(r) = scripts.get(pid) else { continue };
        for (tag, seqs) in per {
            let s = *tag as usize;
            if *has_log {
                // must be exactly 0..k
                let expect: Vec<u64> = (0..seqs.len() as u64).collect();
                if *seqs != expect {
                    out.push((
                        "oracle=fifo-exactly-once".to_string(),
                        format!("receiver pid {pid} (script {r}) got from sender script {s} the sequence {seqs:?}, expected {expect:?} (loss, duplicate or reordering)"),
                    ));
                }
            } else {
                // only the unread mailbox is visible: a contiguous increasing run
                if seqs.windows(2).any(|w| w[1] != w[0] + 1) {
                    out.push((
                        "oracle=fifo-exactly-once".to_string(),
                        format!("mailbox of pid {pid} (script {r}) holds from sender script {s} the non-contiguous run {seqs:?}"),
                    ));
                }
            }
        }
        // completeness at quiescence: every send of a finished sender has arrived
        if quiescent && *has_log {
            for ((s, rr, tag), n) in &counts {
                if rr != r {
                    continue;
                }
                let Some(spid) = script_pid.get(s) else { continue };
                if !result_ok(*spid) {
                    continue;
                }
                let got = per.get(tag).map(|v| v.len() as u64).unwrap_or(0);
                // C04: "every message sent to a LIVE process is delivered exactly once".  A message
                // that reached its receiver after the receiver had terminated is not one of those:
                // with the variant `release-dead` the runtime drops it (at HEAD it is left in the
                // dead process's mailbox and counted above).  The same variant releases, with a
                // finished process, the messages it was given while live but did not read; the
                // final state no longer shows them.  Both are observed per worker step
                // (`Lock::dead_deliveries`, `Lock::released_unread`), so the count stays exact:
                // every send is in the receiver's history, or was in its mailbox unread when it
                // finished, or arrived when the receiver was no longer live.
                let (dead, unread) = if msys::RELEASE_DEAD.load(std::sync::atomic::Ordering::Relaxed) {
                    (
                        lock.dead_deliveries.iter().filter(|(p, t, _)| p == pid && t == tag).count() as u64,
                        lock.released_unread.iter().filter(|(p, t, _)| p == pid && t == tag).count() as u64,
                    )
                } else {
                    (0, 0)
                };
                if got + dead + unread != *n {
                    out.push((
                        "oracle=fifo-exactly-once".to_string(),
                        format!("at quiescence receiver pid {pid} (script {r}) has {got} messages with tag {tag} from finished sender script {s}, which sent {n}{}", if dead + unread > 0 { format!(" ({unread} more were in its mailbox unread when it finished, {dead} arrived after it had terminated)") } else { String::new() }),
                    ));
                }
            }
        }
    }
    out
}

/// Ghost-history oracle on the recorded channel logs: for every ProcessResults event in which a
/// worker reports (awaiter, target) as completed there is a LATER UpdateAwaitResults command to
/// the awaiter that carries a result for that target (evaluated when all queues are empty).
fn await_answer_oracle(lock: &Lock) -> Vec<(String, String)> {
    use quiver_environment::{Command, Event};
    let mut out = vec![];
    if !lock.sim.idle() {
        return out;
    }
    let mut reports: Vec<(u64, usize, usize)> = vec![];
    let mut updates: Vec<(u64, usize, usize)> = vec![];
    // An awaiter that starts a second select replaces its pending entry in the environment, which
    // legitimately discards answers collected for the completed one; the exact statement is
    // therefore evaluated for awaiters that issued exactly one AwaitAction.
    let mut awaits: HashMap<usize, usize> = HashMap::new();
    for ch in &lock.sim.chans {
        let c = ch.chan.lock().unwrap();
        for (seq, e) in &c.evt_log {
            if let Event::ProcessResults { awaiter, results } = e {
                for (t, r) in results {
                    if r.is_some() {
                        reports.push((*seq, *awaiter, *t));
                    }
                }
            }
            if let Event::AwaitAction { awaiter, .. } = e {
                *awaits.entry(*awaiter).or_insert(0) += 1;
            }
        }
        for (seq, cmd) in &c.cmd_log {
            if let Command::UpdateAwaitResults { awaiter, results } = cmd {
                for (t, r) in results {
                    if r.is_some() {
                        updates.push((*seq, *awaiter, *t));
                    }
                }
            }
        }
    }
    for (seq, a, t) in &reports {
        if awaits.get(a).copied().unwrap_or(0) != 1 {
            continue;
        }
        if !updates.iter().any(|(s2, a2, t2)| a2 == a && t2 == t && s2 > seq) {
            out.push((
                "oracle=await-answer-lost".to_string(),
                format!("a worker reported process {t} as completed to awaiter {a} (ProcessResults, channel seq {seq}) but no later UpdateAwaitResults carries that result to the awaiter, and all queues are empty"),
            ));
        }
    }
    out
}

#[allow(clippy::too_many_arguments)]
fn run_one(
    sc: &Scenario,
    n: usize,
    quantum: Option<usize>,
    policy: &Policy,
    rng: &mut Rng,
    model: &mut Model,
    fixed: Option<&[String]>,
    max_steps: usize,
) -> RunResult {
    let mut violations = vec![];
    let mut stats: HashMap<String, u64> = HashMap::new();
    let (mut sim, req) = match start(sc, n, quantum) {
        Ok(x) => x,
        Err(e) => {
            return RunResult { rejected: Some(e), violations, replay: J::Null, steps: 0, finished: false, stats };
        }
    };
    for ch in &sim.chans {
        ch.chan.lock().unwrap().record = true;
    }
    sim.schedule.clear();
    let mut lock = Lock::new(sim, Some(model));
    lock.mixed = sc.has_b();
    lock.ask_model(init_line(sc, n, req), "init");
    let mut result = None;
    let done = |s: &mut qverif::sim::Sim| {
        if result.is_none() {
            result = s.poll_result(req);
        }
        result.is_some()
    };
    let finished = match fixed {
        Some(choices) => {
            let mut done = done;
            for c in choices {
                let Some(ch) = parse_choice(c, n) else { continue };
                lock.step(ch);
                if lock.sim.quiescent() {
                    lock.check_quiescent();
                }
            }
            // then settle fairly
            let mut r2 = Rng::new(1);
            let fair = Policy { partial_visibility_pm: 0, tick_pm: 0, max_tick: 1, env_weight_pm: 350, worker_weights: vec![] };
            lock.run_random(&mut r2, &fair, max_steps, &mut done, true)
        }
        None => lock.run_random(rng, policy, max_steps, done, true),
    };
    let quiescent = lock.sim.quiescent();
    let replay = json!({
        "scenario": sc.to_json(),
        "workers": n,
        "quantum": quantum,
        "schedule": lock.schedule(),
        "model_requests": lock.model_lines.iter().take(2000).collect::<Vec<_>>(),
    });
    // 1. faults
    for (idx, who, msg) in &lock.sim.faults {
        violations.push((
            "oracle=no-internal-error".to_string(),
            format!("step {idx} ({who}) of the real system failed: {msg}"),
            true,
        ));
    }
    // 2. lost wake-ups / stuck spawners seen at quiescent points
    for (step, kind, msg) in &lock.oracle_failures {
        violations.push((format!("oracle={kind}"), format!("at step {step}: {msg}"), true));
    }
    // 3. exactly-once / FIFO
    {
        for (sig, msg) in delivery_oracle(&lock, sc, quiescent) {
            violations.push((sig, msg, true));
        }
    }
    // 3b. no process fails unless its script says `fail` (or it awaits a process that may fail)
    if !sc.scripts.iter().flatten().any(|a| matches!(a, Act::Fail)) {
        for w in &lock.sim.workers {
            let ex = w.verif_executor();
            for pid in ex.verif_process_ids() {
                if let Some(p) = ex.get_process(pid)
                    && let Some(Err(e)) = &p.result
                {
                    violations.push((
                        format!("oracle=spurious-process-failure error={}", qverif::canon::error_class(e)),
                        format!("process {pid} failed with {e:?} although no script of the scenario fails: a runtime error that depends on the schedule"),
                        true,
                    ));
                }
            }
        }
    }
    // 3c. every completed target a worker reported to an awaiter is forwarded to that awaiter
    for (sig, msg) in await_answer_oracle(&lock) {
        violations.push((sig, msg, true));
    }
    // 4. termination
    let explained = lock.oracle_failures.iter().any(|x| x.1 == "lost-wakeup-select-never-started");
    if sc.terminates && !finished && !explained {
        violations.push((
            "oracle=hang".to_string(),
            format!("scenario terminates by construction but the system became {} without a result after {} steps", if quiescent { "quiescent" } else { "stuck (step budget)" }, lock.steps),
            quiescent,
        ));
    }
    // 5. correspondence with the model
    if let Some((step, choice, imp, model)) = &lock.mismatch {
        let d = first_diff(imp, model);
        violations.push((
            "correspondence=sysStep".to_string(),
            format!("model M-Sys and implementation differ after step {step} ({choice}): {d}"),
            false,
        ));
    }
    // final answer vs the model's ghost
    if lock.mismatch.is_none()
        && let Some(m) = lock.model.as_mut()
    {
        let ghost = m.ask("(ghost)");
        if let Some(res) = &result {
            let want = match res {
                Ok((v, _)) => format!("{req}:ok:{}", show_val(v)),
                Err(_) => format!("{req}:err"),
            };
            if !ghost.contains(&format!("answers=[{want}")) {
                violations.push((
                    "correspondence=final-result".to_string(),
                    format!("final result {want} is not what the model answered: {}", ghost.split("answers=").nth(1).unwrap_or("")),
                    false,
                ));
            }
        }
        if ghost.contains("dropped=[") && !ghost.contains("dropped=[]") {
            violations.push(("model=dropped-message".to_string(), format!("the model dropped a message: {ghost}"), false));
        }
    }
    stats.insert("steps".into(), lock.steps as u64);
    stats.insert("rotations".into(), lock.rotations as u64);
    stats.insert("attempts".into(), lock.attempts as u64);
    stats.insert("partial".into(), lock.partial_steps as u64);
    stats.insert("max_fuel".into(), lock.max_fuel as u64);
    stats.insert("quiescent_checks".into(), lock.quiescent_checks as u64);
    let steps = lock.steps;
    let mut replay = replay;
    if let Some((step, choice, imp, model)) = &lock.mismatch {
        replay["broken"] = json!("correspondence model<->impl on sysStep");
        replay["mismatch"] = json!({"step": step, "choice": choice, "impl": imp, "model": model});
    }
    RunResult { rejected: None, violations, replay, steps, finished, stats }
}

fn first_diff(a: &str, b: &str) -> String {
    let pa: Vec<&str> = a.split(' ').collect();
    let pb: Vec<&str> = b.split(' ').collect();
    for i in 0..pa.len().max(pb.len()) {
        let x = pa.get(i).copied().unwrap_or("<end>");
        let y = pb.get(i).copied().unwrap_or("<end>");
        if x != y {
            let ctx = pa[i.saturating_sub(6)..i].join(" ");
            return format!("…{ctx} | impl `{x}` vs model `{y}`");
        }
    }
    "identical".into()
}

fn main() {
    qverif::quiet_panics();
    let opts = Opts::parse();
    let mut ev = Ev::new("C04", &opts);
    ev.rule = "distinct (scenario scripts, worker count, quantum, full choice sequence) with at least one message delivered or one await answered".into();
    let model_path = opts.model.clone().expect("--model <qm_c04>");
    let mut model = Model::spawn(&model_path);
    let variants = configure_model(&mut model);
    ev.set_extra("runtime_variants", json!(variants));

    let mut totals: HashMap<String, u64> = HashMap::new();
    let mut report = |ev: &mut Ev, key: &str, sc: &Scenario, n: usize, q: Option<usize>, rr: &RunResult| {
        if let Some(e) = &rr.rejected {
            ev.hit("rejected-by-front-end");
            ev.violation(
                "generator=rejected-program",
                &format!("generated scenario rejected by the front end: {e}"),
                json!({"broken": "generator: program rejected", "scenario": sc.to_json()}),
                false,
            );
            return;
        }
        let nontrivial = sc.scripts.iter().flatten().any(|a| matches!(a, Act::Send { .. } | Act::Select(_)));
        ev.case(&(key, sc, n, q, rr.replay["schedule"].to_string()), nontrivial);
        ev.hit(&format!("kind/{}", sc.kind));
        ev.hit(&format!("workers/{n}"));
        ev.hit(&format!("quantum/{}", q.map(|x| x.to_string()).unwrap_or("1000".into())));
        ev.hit(if rr.finished { "outcome/finished" } else { "outcome/quiescent-without-result" });
        for (k, v) in &rr.stats {
            let e = totals.entry(k.clone()).or_insert(0);
            if k == "max_fuel" { *e = (*e).max(*v) } else { *e += v }
        }
        for (sig, what, found) in &rr.violations {
            ev.violation(sig, what, rr.replay.clone(), *found);
        }
    };

    // ---- stage 1: regression corpus -------------------------------------------------------
    // the corpus lives beside the lake project (never under the repo under test)
    let corpus_dir = {
        let lean = qverif::lean_dir();
        let root = std::path::Path::new(&lean).parent().map(|p| p.to_path_buf()).unwrap_or_default();
        let local = root.join("corpus/C04");
        if local.is_dir() { local.to_string_lossy().to_string() } else { "/verif/corpus/C04".to_string() }
    };
    let mut corpus_files: Vec<_> = std::fs::read_dir(&corpus_dir)
        .map(|d| d.filter_map(|e| e.ok()).map(|e| e.path()).filter(|p| p.extension().map(|x| x == "json").unwrap_or(false)).collect())
        .unwrap_or_default();
    corpus_files.sort();
    for path in &corpus_files {
        let Ok(text) = std::fs::read_to_string(path) else { continue };
        let Ok(j) = serde_json::from_str::<J>(&text) else {
            ev.violation("corpus=unreadable", &format!("corpus file {} is not JSON", path.display()), json!({"broken": "corpus"}), false);
            continue;
        };
        let Some(scripts) = j["scripts"].as_str().and_then(parse_scripts) else {
            ev.violation("corpus=unreadable", &format!("corpus file {}: bad scripts", path.display()), json!({"broken": "corpus"}), false);
            continue;
        };
        let sc = Scenario {
            kind: format!("corpus/{}", path.file_stem().unwrap().to_string_lossy()),
            scripts,
            terminates: j["terminates"].as_bool().unwrap_or(true),
            confluent: false,
        };
        let n = j["workers"].as_u64().unwrap_or(2) as usize;
        let q = j["quantum"].as_u64().map(|x| x as usize);
        let fixed: Option<Vec<String>> = j["schedule"].as_array().map(|a| a.iter().filter_map(|x| x.as_str().map(|s| s.to_string())).collect());
        let mut rng = Rng::for_case(opts.seed ^ 0xC04C, 0);
        let pol = Policy::default();
        let rr = run_one(&sc, n, q, &pol, &mut rng, &mut model, fixed.as_deref(), 4000);
        ev.hit("corpus");
        report(&mut ev, "corpus", &sc, n, q, &rr);
        // and a few random schedules of the same scenario
        let extra = opts.tier.pick(6, 40);
        for k in 0..extra {
            let mut rng = Rng::for_case(opts.seed ^ 0xC04D, k);
            let pol = Policy::random(&mut rng, n);
            let rr = run_one(&sc, n, q, &pol, &mut rng, &mut model, None, 4000);
            report(&mut ev, "corpus-random", &sc, n, q, &rr);
        }
    }

    // ---- stage 2: generated scenarios × adversarial schedules ------------------------------
    let scenarios = opts.tier.pick(420u64, 6000);
    let schedules = opts.tier.pick(5u64, 24);
    let deadline = std::time::Instant::now() + std::time::Duration::from_secs(opts.tier.pick(100, 1200));
    let quanta = [Some(1usize), Some(2), Some(7), None];
    let mut done_scenarios = 0u64;
    'outer: for i in 0..scenarios {
        let mut r = Rng::for_case(opts.seed ^ 0x5CE0, i);
        let kind = g::KINDS[(i as usize) % g::KINDS.len()];
        let sc = g::generate(&mut r, kind);
        if !g::well_typed(&sc) {
            ev.hit("generator/ill-typed-skipped");
            continue;
        }
        ev.hit(&format!("size/processes={}", sc.scripts.len()));
        let sends: usize = sc.scripts.iter().flatten().filter(|a| matches!(a, Act::Send { .. })).count();
        ev.hit(&format!("size/sends={}", match sends { 0 => "0", 1..=4 => "1-4", 5..=12 => "5-12", _ => "13+" }));
        for k in 0..schedules {
            if std::time::Instant::now() > deadline {
                ev.hit("budget/deadline-reached");
                break 'outer;
            }
            let mut rs = Rng::for_case(opts.seed ^ 0x5CED ^ (i << 20), k);
            let n = 1 + rs.usize(4);
            let q = quanta[((i + k) as usize) % 4];
            let mut pol = Policy::random(&mut rs, n);
            let small = matches!(q, Some(1) | Some(2) | Some(7));
            if small {
                // a starved worker with a 1-instruction quantum needs a very long schedule
                for w in pol.worker_weights.iter_mut() {
                    *w = (*w).min(5);
                }
            }
            let rr = run_one(&sc, n, q, &pol, &mut rs, &mut model, None, if small { 40000 } else { 8000 });
            report(&mut ev, "gen", &sc, n, q, &rr);
            ev.sample_sparse(i * schedules + k, 97, || {
                json!({"kind": sc.kind, "source": sc.source(), "workers": n, "quantum": q, "steps": rr.steps, "finished": rr.finished})
            });
        }
        done_scenarios += 1;
    }
    ev.set_extra("scenarios", json!(done_scenarios));
    ev.set_extra("schedules_per_scenario", json!(schedules));
    ev.set_extra("totals", json!(totals));
    ev.set_extra("model_requests", json!(model.requests));
    let _ = Choice::Tick { ms: 0 };
    std::process::exit(ev.finish());
}
