//! The "fragment1" stream: ties the Lean fragment compiler `QM.RefSem.C1.compileSq`
//! (lean/QuiverModel/Core/RefSem/Compile1.lean — value flow + LOCALS, BINDINGS and the simple MATCH
//! patterns; correctness against M-VM proved in Theorems/C02Loc.lean) to `quiver-compiler` by
//! INSTRUCTION-SEQUENCE EQUALITY on generated programs of that fragment, and the meaning function
//! `C1.evalSq` the theorem is stated with to the value the real VM computes.
//!
//! The generator tracks simple static types so that it stays inside what the model covers: a tuple
//! pattern is only applied to a value whose static type is exactly that tuple type (no `IsType`), a
//! literal only to an integer, and no step but the last is statically nil (the compiler stops
//! compiling a sequence there).
#![allow(dead_code)]
use qverif::Rng;
use quiver_core::bytecode::{Constant, Instruction};

#[derive(Clone, Debug)]
pub enum Sub {
    Bind(String),
    Wild,
    Lit(i64),
}

#[derive(Clone, Debug)]
pub enum Pat1 {
    Top(Sub),
    Tup(Option<String>, Vec<Sub>),
}

#[derive(Clone, Debug)]
pub enum T1 {
    Int(i64),
    Ripple,
    Tup(Option<String>, Vec<Vec<T1>>),
    Var(String),
    Match(Pat1),
    /// branches: condition steps, optional consequence steps
    Block(Vec<(Vec<Vec<T1>>, Option<Vec<Vec<T1>>>)>),
    /// `#P { body }`: parameter type, body branches, the captured outer variables in the order the
    /// compiler's free-variable collector meets them
    FnLit(Ty, Vec<(Vec<Vec<T1>>, Option<Vec<Vec<T1>>>)>, Vec<String>),
    /// the callable variable applied to the flowing value
    Call(String),
    /// a nilary callable variable in a chain (called with nil, the flowing value is ignored)
    CallNil(String),
    /// `^`: the enclosing function applied again to the flowing value, in place of the current frame
    TailSelf,
    /// `__name__`: a builtin applied to the flowing value
    BCall(String),
    /// `^x`: the callable variable `x` takes the frame over with the flowing value as its argument
    TailNamed(String),
}

#[derive(Clone, Debug, PartialEq)]
pub enum Ty {
    Int,
    Tup(Option<String>, Vec<Ty>),
    /// the verdict of an irrefutable match
    Ok,
    /// the verdict of a refutable match
    OkNil,
    /// a block's value when its branches differ: only binders / placeholders are applied to it (a
    /// structured pattern on a union type gets a run-time type test, which is outside the fragment)
    Any,
    /// a function value with this parameter type (never nil: nilary calls are compiled differently)
    Fn(Box<Ty>),
    /// a nilary function value
    FnNil,
}

impl Ty {
    fn is_static_nil(&self) -> bool {
        matches!(self, Ty::Tup(None, fs) if fs.is_empty())
    }
}

const NAMES: [&str; 5] = ["a", "b", "c", "d", "e"];

pub struct Gen<'a> {
    pub r: &'a mut Rng,
    /// visible variables
    pub env: Vec<(String, Ty)>,
    /// names are never reused: rebinding a name in the same scope runs into the open finding
    /// "stale static type after rebinding" (a narrowing recorded under the NAME survives the rebinding),
    /// after which the compiler treats a later pattern as statically impossible
    pub counter: u32,
    /// generate blocks too
    pub blocks: bool,
    /// generate function literals (at the top level of the entry sequence) and calls
    pub fns: bool,
    /// nesting depth of function bodies being generated (literals nest at most twice)
    pub body_depth: u32,
    /// generate recursive count-down functions (`^`) and builtin calls (Compile4)
    pub rec: bool,
    /// inside tuple fields (no tail call there: not a tail position, a compile error since 9828b30)
    pub in_field: u32,
}

impl<'a> Gen<'a> {
    fn sub_for(&mut self, ty: &Ty, taken: &mut Vec<String>) -> Sub {
        match self.r.below(6) {
            0 | 1 | 2 => {
                // a random first letter: the compiler allots the slots of one pattern in NAME order
                self.counter += 1;
                let n = format!("{}{}", NAMES[self.r.usize(NAMES.len())], self.counter);
                taken.push(n.clone());
                Sub::Bind(n)
            }
            3 => Sub::Wild,
            _ => {
                if *ty == Ty::Int {
                    Sub::Lit(self.r.range(0, 4))
                } else {
                    Sub::Wild
                }
            }
        }
    }

    /// a pattern for a value of type `ty`; returns the pattern, the bindings it makes and whether it
    /// is irrefutable
    fn pat_for(&mut self, ty: &Ty) -> (Pat1, Vec<(String, Ty)>, bool) {
        let mut taken = vec![];
        match ty {
            Ty::Tup(name, fs) if !fs.is_empty() && self.r.chance(3, 4) => {
                let mut subs = vec![];
                let mut binds = vec![];
                let mut irref = true;
                for f in fs {
                    let s = self.sub_for(f, &mut taken);
                    match &s {
                        Sub::Bind(x) => binds.push((x.clone(), f.clone())),
                        Sub::Lit(_) => irref = false,
                        Sub::Wild => {}
                    }
                    subs.push(s);
                }
                (Pat1::Tup(name.clone(), subs), binds, irref)
            }
            _ => {
                let s = self.sub_for(ty, &mut taken);
                let (binds, irref) = match &s {
                    Sub::Bind(x) => (vec![(x.clone(), ty.clone())], true),
                    Sub::Wild => (vec![], true),
                    Sub::Lit(_) => (vec![], false),
                };
                (Pat1::Top(s), binds, irref)
            }
        }
    }

    fn int(&mut self) -> T1 {
        // small values so that literal patterns match about as often as they fail
        T1::Int(self.r.range(0, 4))
    }

    /// one term receiving a flow of type `flow` (`None`: the very first term of the program, which
    /// receives the nil entry parameter — no `~`, no match there)
    fn term(&mut self, flow: Option<&Ty>, depth: u32) -> (T1, Ty) {
        let roll = self.r.below(if depth == 0 { 7 } else { 12 });
        match roll {
            0 | 1 => (self.int(), Ty::Int),
            2 => match flow {
                Some(t) => (T1::Ripple, t.clone()),
                None => (self.int(), Ty::Int),
            },
            3 | 4 => {
                let data: Vec<(String, Ty)> = self.env.iter().filter(|(_, t)| !matches!(t, Ty::Fn(_) | Ty::FnNil)).cloned().collect();
                if data.is_empty() {
                    (self.int(), Ty::Int)
                } else {
                    let (n, t) = data[self.r.usize(data.len())].clone();
                    (T1::Var(n), t)
                }
            }
            5 | 6 => match flow {
                Some(t) => {
                    let (p, binds, irref) = self.pat_for(t);
                    for b in binds {
                        self.env.push(b);
                    }
                    (T1::Match(p), if irref { Ty::Ok } else { Ty::OkNil })
                }
                None => (self.int(), Ty::Int),
            },
            7 | 8 if flow.is_some() && depth > 0 && self.blocks => {
                let tin = flow.unwrap().clone();
                let nb = 1 + self.r.usize(3);
                let mut branches = vec![];
                let mut tys: Vec<Ty> = vec![];
                let mut may_fall_through = true;
                for b in 0..nb {
                    let mark = self.env.len();
                    let nc = 1 + self.r.usize(2);
                    let (cond, cty) = self.seq_in(Some(&tin), depth - 1, nc);
                    // a single branch without `=>` whose steps bind nothing is removed by the
                    // simplifier (spliced / lifted): single-branch blocks get a consequence
                    let with_cons = nb == 1 || self.r.chance(1, 2);
                    let cons = if with_cons {
                        let nk = 1 + self.r.usize(2);
                        let (k, kty) = self.seq_in(Some(&tin), depth - 1, nk);
                        tys.push(kty);
                        Some(k)
                    } else {
                        tys.push(if cty == Ty::OkNil { Ty::Ok } else { cty.clone() });
                        None
                    };
                    let _ = (b, &mut may_fall_through);
                    self.env.truncate(mark);
                    branches.push((cond, cons));
                }
                let ty = if tys.iter().all(|t| *t == tys[0]) && tys[0] != Ty::OkNil && !tys[0].is_static_nil() { Ty::Any } else { Ty::Any };
                (T1::Block(branches), ty)
            }
            _ => {
                let k = 1 + self.r.usize(3);
                let name = if self.r.chance(1, 3) { Some(["A", "B", "P"][self.r.usize(3)].to_string()) } else { None };
                let mut fields = vec![];
                let mut ftys = vec![];
                self.in_field += 1;
                for _ in 0..k {
                    // every field chain starts from the flowing value
                    let (c, t) = self.chain(flow, depth - 1);
                    fields.push(c);
                    ftys.push(t);
                }
                self.in_field -= 1;
                (T1::Tup(name.clone(), fields), Ty::Tup(name, ftys))
            }
        }
    }

    /// a term of type integer: a literal, an integer variable, or `~` where an integer flows
    fn int_term(&mut self, flow: Option<&Ty>) -> T1 {
        let ints: Vec<String> = self.env.iter().filter(|(_, t)| *t == Ty::Int).map(|(n, _)| n.clone()).collect();
        match self.r.below(3) {
            0 if !ints.is_empty() => T1::Var(ints[self.r.usize(ints.len())].clone()),
            1 if flow == Some(&Ty::Int) => T1::Ripple,
            _ => self.int(),
        }
    }

    /// sometimes code after the `^` (never reached: the tail call leaves the frame — the compiler emits it
    /// all the same, and the model's `exit` outcome skips it). No pattern is applied to the result of `^`
    /// itself: its static type is empty, and the compiler decides such a match statically (outside the model)
    fn after_tail(&mut self, mut c: Vec<T1>, depth: u32) -> Vec<Vec<T1>> {
        let m = self.env.len();
        if self.r.chance(1, 5) {
            let t = self.int_term(None);
            c.push(t);
        }
        let mut steps = vec![c];
        if self.r.chance(1, 5) {
            let mut c2 = vec![self.int()];
            if self.r.chance(1, 2) {
                let (t, _) = self.term(Some(&Ty::Int), depth);
                c2.push(t);
            }
            steps.push(c2);
        }
        self.env.truncate(m);
        steps
    }

    /// `#P { … }` that calls itself with `^` on a strictly smaller non-negative count until the literal
    /// pattern `0` catches it (call sites pass 0..4): the count is the integer parameter itself, or the
    /// first field of an `[int, int]` parameter whose second field is an accumulator
    fn rec_fn(&mut self, depth: u32) -> (Ty, Vec<(Vec<Vec<T1>>, Option<Vec<Vec<T1>>>)>) {
        let sub = |x: T1| vec![T1::Tup(None, vec![vec![x], vec![T1::Int(1)]]), T1::BCall("integer_subtract".into())];
        let mut body = vec![];
        if self.r.chance(1, 2) {
            let p = Ty::Int;
            // base case(s)
            let nk = 1 + self.r.usize(2);
            let m = self.env.len();
            let k = self.seq_in(Some(&p), depth, nk).0;
            self.env.truncate(m);
            body.push((vec![vec![T1::Match(Pat1::Top(Sub::Lit(0)))]], Some(k)));
            if self.r.chance(1, 3) {
                let m = self.env.len();
                let k = self.seq_in(Some(&p), depth, 1).0;
                self.env.truncate(m);
                body.push((vec![vec![T1::Match(Pat1::Top(Sub::Lit(1 + self.r.range(0, 2))))]], Some(k)));
            }
            match self.r.below(3) {
                0 => {
                    // … | [~, 1] __integer_subtract__ ^
                    let mut c = sub(T1::Ripple);
                    c.push(T1::TailSelf);
                    let steps = self.after_tail(c, depth);
                    body.push((steps, None));
                }
                1 => {
                    // … | =n => [n, 1] __integer_subtract__ ^
                    self.counter += 1;
                    let n = format!("n{}", self.counter);
                    let mut c = sub(T1::Var(n.clone()));
                    c.push(T1::TailSelf);
                    self.env.push((n.clone(), Ty::Int));
                    let steps = self.after_tail(c, depth);
                    self.env.pop();
                    body.push((vec![vec![T1::Match(Pat1::Top(Sub::Bind(n)))]], Some(steps)));
                }
                _ => {
                    // … | [~, 1] __integer_subtract__ { =0 => k | ^ }: the tail call leaves a nested block
                    let mut c = sub(T1::Ripple);
                    let k = self.int();
                    c.push(T1::Block(vec![
                        (vec![vec![T1::Match(Pat1::Top(Sub::Lit(0)))]], Some(vec![vec![k]])),
                        (vec![vec![T1::TailSelf]], None),
                    ]));
                    body.push((vec![c], None));
                }
            }
            (p, body)
        } else {
            let p = Ty::Tup(None, vec![Ty::Int, Ty::Int]);
            self.counter += 1;
            let a = format!("a{}", self.counter);
            let m = self.env.len();
            self.env.push((a.clone(), Ty::Int));
            let k = if self.r.chance(1, 2) { vec![vec![T1::Var(a.clone())]] } else { self.seq_in(Some(&Ty::Ok), depth, 1).0 };
            self.env.truncate(m);
            body.push((vec![vec![T1::Match(Pat1::Tup(None, vec![Sub::Lit(0), Sub::Bind(a)]))]], Some(k)));
            self.counter += 1;
            // a random first letter: the slots of one pattern are allotted in NAME order
            let n = format!("{}{}", NAMES[self.r.usize(NAMES.len())], self.counter);
            self.counter += 1;
            let a = format!("{}{}", NAMES[self.r.usize(NAMES.len())], self.counter);
            let op = ["integer_add", "integer_multiply", "integer_subtract"][self.r.usize(3)];
            let acc = vec![T1::Tup(None, vec![vec![T1::Var(a.clone())], vec![T1::Var(n.clone())]]), T1::BCall(op.into())];
            let c = vec![T1::Tup(None, vec![sub(T1::Var(n.clone())), acc]), T1::TailSelf];
            body.push((vec![vec![T1::Match(Pat1::Tup(None, vec![Sub::Bind(n), Sub::Bind(a)]))]], Some(vec![c])));
            (p, body)
        }
    }

    /// a literal value of a parameter type
    fn value_of(&mut self, ty: &Ty) -> T1 {
        match ty {
            Ty::Tup(n, fs) => T1::Tup(n.clone(), fs.iter().map(|f| vec![self.value_of(f)]).collect()),
            _ => self.int(),
        }
    }

    pub fn chain(&mut self, flow: Option<&Ty>, depth: u32) -> (Vec<T1>, Ty) {
        // an application: `<argument> f`
        let fvars: Vec<(String, Ty)> = self.env.iter().filter(|(_, t)| matches!(t, Ty::Fn(_))).cloned().collect();
        if self.fns && !fvars.is_empty() && self.r.chance(1, 3) {
            let (f, t) = fvars[self.r.usize(fvars.len())].clone();
            if let Ty::Fn(p) = t {
                let arg = self.value_of(&p);
                let mut out = vec![arg, T1::Call(f)];
                let mut ty = Ty::Any;
                if self.r.chance(1, 2) {
                    let (t2, ty2) = self.term(Some(&Ty::Any), depth);
                    out.push(t2);
                    ty = ty2;
                }
                return (out, ty);
            }
        }
        let nvars: Vec<String> = self.env.iter().filter(|(_, t)| matches!(t, Ty::FnNil)).map(|(n, _)| n.clone()).collect();
        if self.fns && !nvars.is_empty() && flow.is_some() && self.r.chance(1, 4) {
            // `… g` with a nilary `g`
            let g = nvars[self.r.usize(nvars.len())].clone();
            let mut out = vec![];
            let before = if self.r.chance(1, 2) {
                let (t, ty) = self.term(flow, depth);
                out.push(t);
                ty
            } else {
                out.push(T1::Ripple);
                flow.cloned().unwrap_or(Ty::Any)
            };
            // a flowing value that is statically nil already IS the argument: plain `Load, Call`
            out.push(if before.is_static_nil() { T1::Call(g) } else { T1::CallNil(g) });
            return (out, Ty::Any);
        }
        let ifns: Vec<String> = self.env.iter().filter(|(_, t)| *t == Ty::Fn(Box::new(Ty::Int))).map(|(n, _)| n.clone()).collect();
        if self.rec && self.body_depth > 0 && self.in_field == 0 && !ifns.is_empty() && self.r.chance(1, 3) {
            // `<integer> ^g` inside a function body: the frame is handed to `g` (Compile5)
            let g = ifns[self.r.usize(ifns.len())].clone();
            // a small non-negative literal, like every call site: the count-down functions never reach 0
            // from a negative argument (an integer VARIABLE may hold one: accumulators are subtracted from)
            let x = self.int();
            let _ = flow;
            return (vec![x, T1::TailNamed(g)], Ty::Any);
        }
        if self.rec && self.r.chance(1, 5) {
            // `[x, y] __integer_op__` with integer terms x, y, possibly continued
            let x = self.int_term(flow);
            let y = self.int_term(flow);
            let op = ["integer_add", "integer_subtract", "integer_multiply"][self.r.usize(3)];
            let mut out = vec![T1::Tup(None, vec![vec![x], vec![y]]), T1::BCall(op.to_string())];
            let mut ty = Ty::Int;
            if self.r.chance(1, 3) {
                let (t2, ty2) = self.term(Some(&Ty::Int), depth);
                out.push(t2);
                ty = ty2;
            }
            return (out, ty);
        }
        let n = 1 + self.r.usize(if depth == 0 { 2 } else { 3 });
        let mut out = vec![];
        let mut cur: Option<Ty> = flow.cloned();
        for _ in 0..n {
            let (t, ty) = self.term(cur.as_ref(), depth);
            out.push(t);
            cur = Some(ty);
        }
        (out, cur.unwrap())
    }

    /// `c₁, c₂, …`; every step but the last has a type that is not statically nil
    pub fn seq(&mut self, depth: u32) -> Vec<Vec<T1>> {
        let n = 1 + self.r.usize(4);
        self.seq_in(None, depth, n).0
    }

    /// a sequence of `n` steps whose first chain receives `start`; no step at all is statically nil
    /// (a statically nil CONDITION makes the compiler skip the branch)
    fn seq_in(&mut self, start: Option<&Ty>, depth: u32, n: usize) -> (Vec<Vec<T1>>, Ty) {
        let mut out = vec![];
        let mut flow: Option<Ty> = start.cloned();
        let mut last = Ty::Int;
        for _ in 0..n {
            if self.fns && self.body_depth < 2 && (start.is_none() || self.body_depth > 0) && self.r.chance(1, 3) {
                // `#P { … } =f` as a whole step (at the top level, or — nested — as a step of a body)
                let p = match if self.rec && self.r.chance(1, 2) { 3 } else { self.r.below(4) } {
                    0 => Ty::Tup(None, vec![Ty::Int, Ty::Int]),
                    1 => Ty::Tup(Some("A".into()), vec![Ty::Int]),
                    2 => Ty::Tup(None, vec![]),
                    _ => Ty::Int,
                };
                let outer: Vec<String> = self.env.iter().map(|(n, _)| n.clone()).collect();
                let mark = self.env.len();
                self.body_depth += 1;
                let recursive = self.rec && self.r.chance(1, 2);
                let (p, rec_body) = if recursive {
                    let (p, b) = self.rec_fn(depth.saturating_sub(1));
                    (p, Some(b))
                } else {
                    (p, None)
                };
                let nb = if recursive { 0 } else { 1 + self.r.usize(2) };
                let mut body = rec_body.unwrap_or_default();
                for _ in 0..nb {
                    let m2 = self.env.len();
                    let nc = 1 + self.r.usize(2);
                    let (cond, _) = self.seq_in(Some(&p), depth.saturating_sub(1), nc);
                    let cons = if self.r.chance(1, 2) {
                        let nk = 1 + self.r.usize(2);
                        Some(self.seq_in(Some(&p), depth.saturating_sub(1), nk).0)
                    } else {
                        None
                    };
                    self.env.truncate(m2);
                    body.push((cond, cons));
                }
                self.body_depth -= 1;
                self.env.truncate(mark);
                let mut caps = vec![];
                for (c, k) in &body {
                    free_seq(c, &outer, &mut caps);
                    if let Some(k) = k {
                        free_seq(k, &outer, &mut caps);
                    }
                }
                self.counter += 1;
                let f = format!("f{}", self.counter);
                let fty = if p.is_static_nil() { Ty::FnNil } else { Ty::Fn(Box::new(p.clone())) };
                self.env.push((f.clone(), fty));
                out.push(vec![T1::FnLit(p, body, caps), T1::Match(Pat1::Top(Sub::Bind(f)))]);
                last = Ty::Ok;
                flow = Some(Ty::Ok);
                continue;
            }
            let (mut c, mut ty) = self.chain(flow.as_ref(), depth);
            if ty.is_static_nil() {
                c.push(self.int());
                ty = Ty::Int;
            }
            out.push(c);
            last = ty.clone();
            // after a refutable match the next step only runs on `Ok`
            flow = Some(if ty == Ty::OkNil { Ty::Ok } else { ty });
        }
        (out, last)
    }
}

/// the outer variables a function body uses, in the order of the compiler's free-variable collector
/// (branches in order: condition steps, then consequence steps; terms and tuple fields left to right)
fn free_seq(s: &[Vec<T1>], outer: &[String], out: &mut Vec<String>) {
    for c in s {
        for t in c {
            free_term(t, outer, out);
        }
    }
}

fn free_term(t: &T1, outer: &[String], out: &mut Vec<String>) {
    match t {
        T1::TailSelf | T1::BCall(_) => {}
        T1::Var(x) | T1::Call(x) | T1::CallNil(x) | T1::TailNamed(x) => {
            if outer.contains(x) && !out.contains(x) {
                out.push(x.clone());
            }
        }
        T1::Tup(_, fs) => {
            for f in fs {
                for t in f {
                    free_term(t, outer, out);
                }
            }
        }
        T1::Block(bs) | T1::FnLit(_, bs, _) => {
            for (c, k) in bs {
                free_seq(c, outer, out);
                if let Some(k) = k {
                    free_seq(k, outer, out);
                }
            }
        }
        _ => {}
    }
}

fn src_ty(t: &Ty) -> String {
    match t {
        Ty::Tup(None, fs) if fs.is_empty() => "[]".into(),
        Ty::Int => "'int".into(),
        Ty::Tup(n, fs) => format!("{}[{}]", n.clone().unwrap_or_default(), fs.iter().map(src_ty).collect::<Vec<_>>().join(", ")),
        _ => "'int".into(),
    }
}

fn src_branches(bs: &[(Vec<Vec<T1>>, Option<Vec<Vec<T1>>>)]) -> String {
    bs.iter()
        .map(|(c, k)| match k {
            Some(k) => format!("{} => {}", src_seq(c), src_seq(k)),
            None => src_seq(c),
        })
        .collect::<Vec<_>>()
        .join(" | ")
}

pub fn src_seq(s: &[Vec<T1>]) -> String {
    s.iter().map(|c| src_chain(c)).collect::<Vec<_>>().join(", ")
}

pub fn src_chain(c: &[T1]) -> String {
    c.iter().map(src_term).collect::<Vec<_>>().join(" ")
}

fn src_sub(s: &Sub) -> String {
    match s {
        Sub::Bind(x) => x.clone(),
        Sub::Wild => "_".into(),
        Sub::Lit(z) => z.to_string(),
    }
}

fn src_term(t: &T1) -> String {
    match t {
        T1::Int(z) => z.to_string(),
        T1::Ripple => "~".into(),
        T1::Var(x) => x.clone(),
        T1::Match(Pat1::Top(s)) => format!("={}", src_sub(s)),
        T1::Match(Pat1::Tup(n, subs)) => {
            format!("={}[{}]", n.clone().unwrap_or_default(), subs.iter().map(src_sub).collect::<Vec<_>>().join(", "))
        }
        T1::Tup(n, fs) => {
            if fs.is_empty() {
                return n.clone().unwrap_or_else(|| "[]".into());
            }
            format!("{}[{}]", n.clone().unwrap_or_default(), fs.iter().map(|c| src_chain(c)).collect::<Vec<_>>().join(", "))
        }
        T1::FnLit(p, bs, _) => format!("#{} {{ {} }}", src_ty(p), src_branches(bs)),
        T1::Call(x) | T1::CallNil(x) => x.clone(),
        T1::TailSelf => "^".into(),
        T1::TailNamed(x) => format!("^{x}"),
        T1::BCall(n) => format!("__{n}__"),
        T1::Block(bs) => {
            let parts: Vec<String> = bs
                .iter()
                .map(|(c, k)| match k {
                    Some(k) => format!("{} => {}", src_seq(c), src_seq(k)),
                    None => src_seq(c),
                })
                .collect();
            format!("{{ {} }}", parts.join(" | "))
        }
    }
}

/// what the model is asked to compile: ids taken from the real stream, in emission order
struct Ids {
    consts: Vec<usize>,
    ci: usize,
    tuples: Vec<usize>,
    ti: usize,
    funs: Vec<usize>,
    fi: usize,
    bis: Vec<usize>,
    bi: usize,
}

impl Ids {
    fn of(code: &[Instruction]) -> Ids {
        Ids {
            consts: code.iter().filter_map(|i| if let Instruction::Constant(c) = i { Some(*c) } else { None }).collect(),
            ci: 0,
            tuples: code.iter().filter_map(|i| if let Instruction::Tuple(t) = i { Some(*t) } else { None }).collect(),
            ti: 0,
            funs: code.iter().filter_map(|i| if let Instruction::Function(f) = i { Some(*f) } else { None }).collect(),
            fi: 0,
            bis: code.iter().filter_map(|i| if let Instruction::Builtin(b) = i { Some(*b) } else { None }).collect(),
            bi: 0,
        }
    }
    fn next_builtin(&mut self) -> Option<usize> {
        let v = self.bis.get(self.bi).copied();
        self.bi += 1;
        v
    }
    fn next_const(&mut self) -> Option<usize> {
        let v = self.consts.get(self.ci).copied();
        self.ci += 1;
        v
    }
    fn next_tuple(&mut self) -> Option<usize> {
        let v = self.tuples.get(self.ti).copied();
        self.ti += 1;
        v
    }
    fn next_fun(&mut self) -> Option<usize> {
        let v = self.funs.get(self.fi).copied();
        self.fi += 1;
        v
    }
    fn leftover(&self) -> bool {
        self.ci < self.consts.len() || self.ti < self.tuples.len() || self.fi < self.funs.len() || self.bi < self.bis.len()
    }
}

/// serialisation context: the bytecode (function bodies have their own id streams), the function table
/// entries produced so far and the real code of those functions
struct Sx<'a> {
    bc: &'a quiver_core::bytecode::Bytecode,
    checks: Vec<Check>,
    fns: Vec<String>,
    fn_codes: Vec<String>,
    /// builtin index → name, as used
    bis: Vec<(usize, String)>,
    bad: Option<String>,
}

pub enum Check {
    Const(usize, i64),
    Tuple(usize, Option<String>, usize),
    /// a verdict / nil-fill `Tuple` of a match template
    Fixed(usize, usize),
    /// function `fi` has this many captures
    Captures(usize, usize),
    /// the builtin at this index has this name
    Builtin(usize, String),
}

fn sx_chain(c: &[T1], ids: &mut Ids, cx: &mut Sx) -> Option<String> {
    let mut s = "(ch".to_string();
    for t in c {
        s.push(' ');
        s.push_str(&sx_term(t, ids, cx)?);
    }
    s.push(')');
    Some(s)
}

fn sx_sub(s: &Sub, ids: &mut Ids, cx: &mut Sx) -> Option<String> {
    Some(match s {
        Sub::Bind(x) => format!("(b {x})"),
        Sub::Wild => "(w)".into(),
        Sub::Lit(z) => {
            let i = ids.next_const()?;
            cx.checks.push(Check::Const(i, *z));
            format!("(l {z} {i})")
        }
    })
}

fn sx_branches(bs: &[(Vec<Vec<T1>>, Option<Vec<Vec<T1>>>)], ids: &mut Ids, cx: &mut Sx) -> Option<String> {
    let mut out = String::new();
    for (c, k) in bs {
        let mut cs = vec![];
        for ch in c {
            cs.push(sx_chain(ch, ids, cx)?);
        }
        out.push_str(&format!(" (br (s {})", cs.join(" ")));
        if let Some(k) = k {
            let mut ks = vec![];
            for ch in k {
                ks.push(sx_chain(ch, ids, cx)?);
            }
            out.push_str(&format!(" (s {})", ks.join(" ")));
        }
        out.push(')');
    }
    Some(out)
}

fn sx_term(t: &T1, ids: &mut Ids, cx: &mut Sx) -> Option<String> {
    Some(match t {
        T1::Int(z) => {
            let i = ids.next_const()?;
            cx.checks.push(Check::Const(i, *z));
            format!("(i {z} {i})")
        }
        T1::Ripple => "(~)".into(),
        T1::Var(x) => format!("(v {x})"),
        T1::Call(x) => format!("(call {x})"),
        T1::TailSelf => "(tail)".into(),
        T1::TailNamed(x) => format!("(tailn {x})"),
        T1::BCall(n) => {
            let b = ids.next_builtin()?;
            cx.checks.push(Check::Builtin(b, n.clone()));
            if !cx.bis.iter().any(|(i, _)| *i == b) {
                cx.bis.push((b, n.clone()));
            }
            format!("(bcall {b})")
        }
        T1::CallNil(x) => {
            // the nil argument: `Tuple(NIL)` in the call sequence
            let t0 = ids.next_tuple()?;
            cx.checks.push(Check::Fixed(t0, 0));
            format!("(callnil {x})")
        }
        T1::FnLit(_, body, caps) => {
            let fi = ids.next_fun()?;
            cx.checks.push(Check::Captures(fi, caps.len()));
            let code = &cx.bc.functions.get(fi)?.instructions;
            let mut sub = Ids::of(code);
            let b = sx_branches(body, &mut sub, cx)?;
            if sub.leftover() {
                cx.bad = Some(format!("function {fi}: its instruction stream has more constants / tuples / functions than its body"));
            }
            cx.fns.push(format!("(fn {fi} (caps {}){b})", caps.join(" ")));
            cx.fn_codes.push(format!("f{fi} {}", code.iter().map(show).collect::<Vec<_>>().join(" ")));
            format!("(fnlit {fi} {})", caps.join(" ")).trim_end().to_string() + ""
        }
        T1::Match(p) => {
            let (body, nb) = match p {
                Pat1::Top(s) => (format!("(pt {})", sx_sub(s, ids, cx)?), matches!(s, Sub::Bind(_)) as usize),
                Pat1::Tup(_, subs) => {
                    let mut parts = vec![];
                    for s in subs {
                        parts.push(sx_sub(s, ids, cx)?);
                    }
                    (format!("(ptup {})", parts.join(" ")), subs.iter().filter(|s| matches!(s, Sub::Bind(_))).count())
                }
            };
            // the template's own Tuple instructions: Ok, one nil per binding, nil
            let t1 = ids.next_tuple()?;
            cx.checks.push(Check::Fixed(t1, 1));
            for _ in 0..nb + 1 {
                let t0 = ids.next_tuple()?;
                cx.checks.push(Check::Fixed(t0, 0));
            }
            format!("(m {body})")
        }
        T1::Block(bs) => format!("(blk{})", sx_branches(bs, ids, cx)?),
        T1::Tup(n, fs) => {
            let mut inner = vec![];
            for f in fs {
                inner.push(sx_chain(f, ids, cx)?);
            }
            let id = ids.next_tuple()?;
            cx.checks.push(Check::Tuple(id, n.clone(), fs.len()));
            let mut s = format!("(t {id}");
            for f in inner {
                s.push(' ');
                s.push_str(&f);
            }
            s.push(')');
            s
        }
    })
}

pub fn show(i: &Instruction) -> String {
    match i {
        Instruction::Pop => "pop".into(),
        Instruction::Constant(i) => format!("const{i}"),
        Instruction::Pick(k) => format!("pick{k}"),
        Instruction::Tuple(id) => format!("tuple{id}"),
        Instruction::Rotate(n) => format!("rot{n}"),
        Instruction::Duplicate => "dup".into(),
        Instruction::Not => "not".into(),
        Instruction::JumpIf(off) => format!("jumpif{off}"),
        Instruction::Jump(off) => format!("jump{off}"),
        Instruction::Load(k) => format!("load{k}"),
        Instruction::Store => "store".into(),
        Instruction::Reset(n) => format!("reset{n}"),
        Instruction::Get(k) => format!("get{k}"),
        Instruction::Equal(n) => format!("equal{n}"),
        Instruction::IsType(t) => format!("istype{t}"),
        Instruction::Function(f) => format!("function{f}"),
        Instruction::Call => "call".into(),
        Instruction::TailCall(true) => "tailself".into(),
        Instruction::TailCall(false) => "tailnamed".into(),
        Instruction::Builtin(b) => format!("builtin{b}"),
        other => format!("<{other:?}>"),
    }
}

pub struct FragCase {
    pub source: String,
    /// the argument list of the `(compile1 …)` / `(eval1 …)` requests
    pub chains: Option<String>,
    /// `(fns …)` argument of the `compile3` / `eval3` requests (empty table if there are no functions)
    pub fns: String,
    /// `(bis (<index> <name>) …)` argument of the `eval4` request
    pub bis: String,
    pub real: String,
    pub checks_ok: bool,
    pub note: String,
}

pub fn prepare(seq: &[Vec<T1>], unit: &qverif::run::Unit) -> FragCase {
    let source = src_seq(seq);
    let bc = unit.program.to_bytecode(Some(unit.entry));
    let f = &bc.functions[unit.entry];
    let ins = &f.instructions;
    let mut note = String::new();
    // prologue: Store (the nil parameter → slot 0), Load(0) (implicit continuation of the first chain)
    let body: &[Instruction] = if ins.len() >= 2 && ins[0] == Instruction::Store && ins[1] == Instruction::Load(0) {
        &ins[2..]
    } else {
        note = "unexpected prologue".into();
        &ins[..]
    };
    let mut ids = Ids::of(body);
    let mut cx = Sx { bc: &bc, checks: vec![], fns: vec![], fn_codes: vec![], bis: vec![], bad: None };
    let mut parts = vec![];
    let mut complete = true;
    for c in seq {
        match sx_chain(c, &mut ids, &mut cx) {
            Some(x) => parts.push(x),
            None => complete = false,
        }
    }
    let chains = if complete { Some(parts.join(" ")) } else { None };
    let leftover = ids.leftover();
    let mut checks_ok = !leftover && cx.bad.is_none();
    if leftover {
        note = "the instruction stream has more constants / tuples / functions than the term".into();
    }
    if let Some(b) = &cx.bad {
        note = b.clone();
    }
    let fns = format!("(fns {})", cx.fns.join(" "));
    let fn_codes = cx.fn_codes.clone();
    let bis = format!("(bis {})", cx.bis.iter().map(|(i, n)| format!("({i} {n})")).collect::<Vec<_>>().join(" "));
    let checks = std::mem::take(&mut cx.checks);
    for c in &checks {
        match c {
            Check::Const(i, z) => {
                if !matches!(bc.constants.get(*i), Some(Constant::Integer(v)) if v.to_string() == z.to_string()) {
                    checks_ok = false;
                    note = format!("constant {i} is not {z}");
                }
            }
            Check::Tuple(id, name, arity) => match bc.tuples.get(*id) {
                Some(info) if info.name == *name && info.fields.len() == *arity => {}
                _ => {
                    checks_ok = false;
                    note = format!("tuple id {id} is not {name:?}/{arity}");
                }
            },
            Check::Fixed(got, want) => {
                if got != want {
                    checks_ok = false;
                    note = format!("a match template uses tuple id {got} where {want} is expected");
                }
            }
            Check::Builtin(b, name) => {
                if bc.builtins.get(*b).map(|x| x.name.as_str()) != Some(name.as_str()) {
                    checks_ok = false;
                    note = format!("builtin {b} is not {name}");
                }
            }
            Check::Captures(fi, n) => {
                if bc.functions.get(*fi).map(|f| f.captures) != Some(*n) {
                    checks_ok = false;
                    note = format!("function {fi} does not have {n} captures");
                }
            }
        }
    }
    // the theorem's `wfProg`: ids 0 / 1 are the field-less nil / Ok
    let nil_ok = matches!(bc.tuples.first(), Some(t) if t.name.is_none() && t.fields.is_empty())
        && matches!(bc.tuples.get(1), Some(t) if t.name.as_deref() == Some("Ok") && t.fields.is_empty());
    if !nil_ok {
        checks_ok = false;
        note = "tuple ids 0 / 1 are not nil / Ok".into();
    }
    let mut real = body.iter().map(show).collect::<Vec<_>>().join(" ");
    for fc in &fn_codes {
        real.push_str(" ; ");
        real.push_str(fc);
    }
    FragCase { source, chains, fns, bis, real, checks_ok, note }
}

/// the value in the id-based form the driver's `eval1` prints
pub fn show_value(v: &quiver_core::value::Value) -> String {
    use quiver_core::value::Value;
    match v {
        Value::Integer(z) => format!("i{z}"),
        Value::Tuple(id, fs) => format!("t({id};{})", fs.iter().map(show_value).collect::<Vec<_>>().join(",")),
        Value::Function(fi, _) => format!("f{fi}"),
        _ => "?".into(),
    }
}
