//! Delta-debugging of core programs: all one-step simplifications of an AST. The caller keeps a
//! candidate if it is still accepted by the compiler and still shows the disagreement.
#![allow(dead_code)]
use super::ast::*;

fn without<T: Clone>(v: &[T], i: usize) -> Vec<T> {
    let mut w = v.to_vec();
    w.remove(i);
    w
}

fn replaced<T: Clone>(v: &[T], i: usize, x: T) -> Vec<T> {
    let mut w = v.to_vec();
    w[i] = x;
    w
}

fn pat_variants(p: &Pat) -> Vec<Pat> {
    let mut out = vec![];
    match p {
        Pat::Wild => {}
        Pat::Bind(_) => {}
        _ => out.push(Pat::Wild),
    }
    match p {
        Pat::Tup(n, fs) => {
            for i in 0..fs.len() {
                for q in pat_variants(&fs[i].1) {
                    out.push(Pat::Tup(n.clone(), replaced(fs, i, (fs[i].0.clone(), q))));
                }
            }
        }
        Pat::Part(n, fs) => {
            for i in 0..fs.len() {
                out.push(Pat::Part(n.clone(), without(fs, i)));
                if let Some(q0) = &fs[i].1 {
                    for q in pat_variants(q0) {
                        out.push(Pat::Part(n.clone(), replaced(fs, i, (fs[i].0.clone(), Some(q)))));
                    }
                }
            }
        }
        Pat::Alt(ps) => {
            for q in ps {
                out.push(q.clone());
            }
        }
        Pat::As(_, x) => out.push(Pat::Bind(x.clone())),
        _ => {}
    }
    out
}

fn term_variants(t: &Term) -> Vec<Term> {
    let mut out = vec![];
    match t {
        Term::Lit(Lit::Int(0)) => {}
        Term::Lit(Lit::Int(_)) => out.push(Term::Lit(Lit::Int(0))),
        Term::Lit(_) => {}
        _ => {
            out.push(Term::Lit(Lit::Int(0)));
            out.push(Term::Tuple(TupName::Anon, vec![]));
        }
    }
    match t {
        Term::Tuple(n, fs) => {
            for i in 0..fs.len() {
                out.push(Term::Tuple(n.clone(), without(fs, i)));
                if let Field::Val(l, c) = &fs[i] {
                    for c2 in chain_variants(c, false) {
                        out.push(Term::Tuple(n.clone(), replaced(fs, i, Field::Val(l.clone(), c2))));
                    }
                    if l.is_some() {
                        out.push(Term::Tuple(n.clone(), replaced(fs, i, Field::Val(None, c.clone()))));
                    }
                }
            }
            if !matches!(n, TupName::Anon) {
                out.push(Term::Tuple(TupName::Anon, fs.clone()));
            }
        }
        Term::Match(p) => {
            for q in pat_variants(p) {
                out.push(Term::Match(q));
            }
        }
        Term::Block(e) => {
            for e2 in expr_variants(e) {
                out.push(Term::Block(e2));
            }
        }
        Term::Interp(segs) => {
            // drop a text segment; shrink inside a hole
            for i in 0..segs.len() {
                match &segs[i] {
                    Seg::Text(t) if !t.is_empty() => {
                        let mut s2 = segs.clone();
                        s2[i] = Seg::Text(String::new());
                        out.push(Term::Interp(s2));
                    }
                    Seg::Hole(e) => {
                        for e2 in expr_variants(e) {
                            let mut s2 = segs.clone();
                            s2[i] = Seg::Hole(e2);
                            out.push(Term::Interp(s2));
                        }
                    }
                    _ => {}
                }
            }
        }
        Term::Fn { param, body: Some(b) } => {
            for b2 in expr_variants(b) {
                out.push(Term::Fn { param: param.clone(), body: Some(b2) });
            }
        }
        Term::Access(s, a) if !a.is_empty() => out.push(Term::Access(s.clone(), vec![])),
        _ => {}
    }
    out
}

fn chain_variants(c: &Chain, allow_empty: bool) -> Vec<Chain> {
    let mut out = vec![];
    if let Some(p) = &c.pat {
        out.push(Chain { pat: None, terms: c.terms.clone() });
        for q in pat_variants(p) {
            out.push(Chain { pat: Some(q), terms: c.terms.clone() });
        }
    }
    for i in 0..c.terms.len() {
        if c.terms.len() > 1 || allow_empty {
            out.push(Chain { pat: c.pat.clone(), terms: without(&c.terms, i) });
        }
        // a block can be replaced by the chains of one of its single-chain branches
        if let Term::Block(e) = &c.terms[i] {
            for b in &e.branches {
                for seq in [Some(&b.cond), b.cons.as_ref()].into_iter().flatten() {
                    if seq.len() == 1 && seq[0].pat.is_none() {
                        let mut ts = c.terms[..i].to_vec();
                        ts.extend(seq[0].terms.clone());
                        ts.extend(c.terms[i + 1..].to_vec());
                        out.push(Chain { pat: c.pat.clone(), terms: ts });
                    }
                }
            }
        }
        for t2 in term_variants(&c.terms[i]) {
            out.push(Chain { pat: c.pat.clone(), terms: replaced(&c.terms, i, t2) });
        }
    }
    out
}

fn seq_variants(cs: &[Chain]) -> Vec<Vec<Chain>> {
    let mut out = vec![];
    for i in 0..cs.len() {
        if cs.len() > 1 {
            out.push(without(cs, i));
        }
        for c2 in chain_variants(&cs[i], false) {
            out.push(replaced(cs, i, c2));
        }
    }
    out
}

fn expr_variants(e: &Expr) -> Vec<Expr> {
    let mut out = vec![];
    for i in 0..e.branches.len() {
        if e.branches.len() > 1 {
            out.push(Expr { branches: without(&e.branches, i) });
        }
        let b = &e.branches[i];
        if let Some(k) = &b.cons {
            out.push(Expr { branches: replaced(&e.branches, i, Branch { cond: b.cond.clone(), cons: None }) });
            out.push(Expr { branches: replaced(&e.branches, i, Branch { cond: k.clone(), cons: None }) });
            for k2 in seq_variants(k) {
                out.push(Expr { branches: replaced(&e.branches, i, Branch { cond: b.cond.clone(), cons: Some(k2) }) });
            }
        }
        for c2 in seq_variants(&b.cond) {
            out.push(Expr { branches: replaced(&e.branches, i, Branch { cond: c2, cons: b.cons.clone() }) });
        }
    }
    out
}

pub fn program_variants(p: &Program) -> Vec<Program> {
    seq_variants(&p.steps).into_iter().map(|steps| Program { steps }).collect()
}

/// Greedy shrink: repeatedly take the first smaller variant that still `fails`.
pub fn shrink(p: &Program, mut fails: impl FnMut(&Program) -> bool, max_tests: usize) -> Program {
    let mut cur = p.clone();
    let mut tests = 0;
    loop {
        let mut progressed = false;
        let mut vs = program_variants(&cur);
        vs.sort_by_key(|v| v.size());
        for v in vs {
            if v.size() >= cur.size() && v == cur {
                continue;
            }
            tests += 1;
            if tests > max_tests {
                return cur;
            }
            if fails(&v) {
                cur = v;
                progressed = true;
                break;
            }
        }
        if !progressed {
            return cur;
        }
    }
}
