//! The "fragment" stream: ties the Lean fragment compiler `QM.RefSem.C0.compileCh`
//! (lean/QuiverModel/Core/RefSem/Compile0.lean; correctness against M-VM proved in
//! Theorems/C02Compile.lean) to `quiver-compiler` by INSTRUCTION-SEQUENCE EQUALITY on generated
//! programs of the jump-free value-flow fragment (integer literals, `~`, nested tuple literals,
//! chains). The real entry function is `Store, Load(0), <chain code>`; constant indices and tuple ids
//! are read off the real instruction stream in emission order, handed to the model, and the program
//! tables are checked to say what the term says (the theorem's well-formedness hypothesis).
#![allow(dead_code)]
use qverif::Rng;
use quiver_core::bytecode::{Constant, Instruction};

#[derive(Clone, Debug)]
pub enum T0 {
    Int(i64),
    Ripple,
    Tup(Option<String>, Vec<Vec<T0>>),
}

pub fn gen_chain(r: &mut Rng, depth: u32, first: bool) -> Vec<T0> {
    let n = 1 + r.usize(if depth == 0 { 2 } else { 3 });
    (0..n).map(|i| gen_term(r, depth, first && i == 0)).collect()
}

fn gen_term(r: &mut Rng, depth: u32, no_ripple: bool) -> T0 {
    match r.below(if depth == 0 { 4 } else { 9 }) {
        0 | 1 => T0::Int(r.range(-3, 40)),
        2 | 3 => {
            if no_ripple {
                T0::Int(r.range(0, 9))
            } else {
                T0::Ripple
            }
        }
        _ => {
            let k = r.usize(5);
            let name = if r.chance(1, 3) { Some(["A", "B", "P"][r.usize(3)].to_string()) } else { None };
            let mut fields = vec![];
            for _ in 0..k {
                // a field chain: its first term may be `~` (the flowing value)
                fields.push(gen_chain(r, depth - 1, false));
            }
            if k == 0 && name.is_none() {
                // `[]`
            }
            T0::Tup(name, fields)
        }
    }
}

/// a sequence `c₁, c₂, …`: every chain but the last ends in a statically non-nil term (the compiler
/// stops compiling a sequence after a statically nil step)
pub fn gen_seq(r: &mut Rng, depth: u32) -> Vec<Vec<T0>> {
    let n = 1 + r.usize(3);
    let mut out = vec![];
    for i in 0..n {
        let mut c = gen_chain(r, depth, i == 0);
        if i + 1 < n {
            let last_ok = match c.last() {
                Some(T0::Int(_)) => true,
                Some(T0::Tup(name, fs)) => name.is_some() || !fs.is_empty(),
                _ => false,
            };
            if !last_ok {
                c.push(T0::Int(r.range(0, 9)));
            }
        }
        out.push(c);
    }
    out
}

pub fn src_seq(s: &[Vec<T0>]) -> String {
    s.iter().map(|c| src_chain(c)).collect::<Vec<_>>().join(", ")
}

pub fn src_chain(c: &[T0]) -> String {
    c.iter().map(src_term).collect::<Vec<_>>().join(" ")
}

fn src_term(t: &T0) -> String {
    match t {
        T0::Int(z) => z.to_string(),
        T0::Ripple => "~".into(),
        T0::Tup(n, fs) => {
            if fs.is_empty() {
                return n.clone().unwrap_or_else(|| "[]".into());
            }
            format!("{}[{}]", n.clone().unwrap_or_default(), fs.iter().map(|c| src_chain(c)).collect::<Vec<_>>().join(", "))
        }
    }
}

/// what the model is asked to compile: ids taken from the real stream, in emission order
struct Ids<'a> {
    consts: std::slice::Iter<'a, usize>,
    tuples: std::slice::Iter<'a, usize>,
}

fn sx_chain(c: &[T0], ids: &mut Ids, checks: &mut Vec<Check>) -> Option<String> {
    let mut s = "(ch".to_string();
    for t in c {
        s.push(' ');
        s.push_str(&sx_term(t, ids, checks)?);
    }
    s.push(')');
    Some(s)
}

pub enum Check {
    Const(usize, i64),
    Tuple(usize, Option<String>, usize),
}

fn sx_term(t: &T0, ids: &mut Ids, checks: &mut Vec<Check>) -> Option<String> {
    Some(match t {
        T0::Int(z) => {
            let i = *ids.consts.next()?;
            checks.push(Check::Const(i, *z));
            format!("(i {z} {i})")
        }
        T0::Ripple => "(~)".into(),
        T0::Tup(n, fs) => {
            // fields first (their Tuple instructions are emitted before this tuple's)
            let mut inner = vec![];
            for f in fs {
                inner.push(sx_chain(f, ids, checks)?);
            }
            let id = *ids.tuples.next()?;
            checks.push(Check::Tuple(id, n.clone(), fs.len()));
            let mut s = format!("(t {id}");
            for f in inner {
                s.push(' ');
                s.push_str(&f);
            }
            s.push(')');
            s
        }
    })
}

fn show(i: &Instruction) -> String {
    match i {
        Instruction::Pop => "pop".into(),
        Instruction::Constant(i) => format!("const{i}"),
        Instruction::Pick(k) => format!("pick{k}"),
        Instruction::Tuple(id) => format!("tuple{id}"),
        Instruction::Rotate(n) => format!("rot{n}"),
        Instruction::Duplicate => "dup".into(),
        Instruction::Not => "not".into(),
        Instruction::JumpIf(off) => format!("jumpif{off}"),
        other => format!("<{other:?}>"),
    }
}

pub struct FragCase {
    pub source: String,
    pub request: Option<String>,
    pub real: String,
    pub checks_ok: bool,
    pub note: String,
}

/// Compile the sequence with the real compiler and prepare the model request.
pub fn prepare(seq: &[Vec<T0>], unit: &qverif::run::Unit) -> FragCase {
    let source = src_seq(seq);
    let bc = unit.program.to_bytecode(Some(unit.entry));
    let f = &bc.functions[unit.entry];
    let ins = &f.instructions;
    let mut note = String::new();
    // prologue: Store (the nil parameter), Load(0) (implicit continuation of the first chain)
    let body: &[Instruction] = if ins.len() >= 2 && ins[0] == Instruction::Store && ins[1] == Instruction::Load(0) {
        &ins[2..]
    } else {
        note = "unexpected prologue".into();
        &ins[..]
    };
    let consts: Vec<usize> = body.iter().filter_map(|i| if let Instruction::Constant(c) = i { Some(*c) } else { None }).collect();
    let tuples: Vec<usize> = body.iter().filter_map(|i| if let Instruction::Tuple(t) = i { Some(*t) } else { None }).collect();
    let mut ids = Ids { consts: consts.iter(), tuples: tuples.iter() };
    let mut checks = vec![];
    let mut parts = vec![];
    let mut complete = true;
    for c in seq {
        match sx_chain(c, &mut ids, &mut checks) {
            Some(x) => parts.push(x),
            None => complete = false,
        }
    }
    let request = if !complete {
        None
    } else if parts.len() == 1 {
        Some(format!("(compile0 {})", parts[0]))
    } else {
        Some(format!("(compile0seq {})", parts.join(" ")))
    };
    let leftover = ids.consts.next().is_some() || ids.tuples.next().is_some();
    let mut checks_ok = !leftover;
    for c in &checks {
        match c {
            Check::Const(i, z) => {
                if !matches!(bc.constants.get(*i), Some(Constant::Integer(v)) if v.to_string() == z.to_string()) {
                    checks_ok = false;
                    note = format!("constant {i} is not {z}");
                }
            }
            Check::Tuple(id, name, arity) => match bc.tuples.get(*id) {
                Some(info) if info.name == *name && info.fields.len() == *arity => {}
                _ => {
                    checks_ok = false;
                    note = format!("tuple id {id} is not {name:?}/{arity}");
                }
            },
        }
    }
    let real = body.iter().map(show).collect::<Vec<_>>().join(" ");
    FragCase { source, request, real, checks_ok, note }
}
