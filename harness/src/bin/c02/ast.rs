//! Core-language AST shared by the C02 program generator, its two printers (Quiver source for the
//! real front end, S-expression for the Lean reference evaluator `qm_c02`) and the shrinker.
//!
//! Reusable from another binary with
//! `#[path = "../c02/ast.rs"] mod ast; #[path = "../c02/progen.rs"] mod progen;` (see notes/C02.md).
#![allow(dead_code)]

#[derive(Clone, Debug, PartialEq, Eq, Hash)]
pub enum Lit {
    Int(i64),
    Bin(Vec<u8>),
}

/// Static types as the generator tracks them (and as it prints them in parameter annotations and
/// type patterns). `Fn` never appears in a type *pattern*.
#[derive(Clone, Debug, PartialEq, Eq, Hash, PartialOrd, Ord)]
pub enum Ty {
    Int,
    Bin,
    Tup(Option<String>, Vec<(Option<String>, Ty)>),
    Fn(Box<Ty>, Box<Ty>),
    /// flattened, sorted, deduplicated, ≥ 2 members (see `Ty::union`); empty = never
    Union(Vec<Ty>),
}

/// the field list after writing `label: ty` into it (spread semantics: a label that exists is
/// overridden in place, everything else is appended)
pub fn set_or_append(acc: &mut Vec<(Option<String>, Ty)>, label: Option<String>, ty: Ty) {
    if let Some(l) = &label {
        if let Some(e) = acc.iter_mut().find(|e| e.0.as_ref() == Some(l)) {
            e.1 = ty;
            return;
        }
    }
    acc.push((label, ty));
}

impl Ty {
    pub fn nil() -> Ty {
        Ty::Tup(None, vec![])
    }
    pub fn ok() -> Ty {
        Ty::Tup(Some("Ok".into()), vec![])
    }
    pub fn never() -> Ty {
        Ty::Union(vec![])
    }
    pub fn str_() -> Ty {
        Ty::Tup(Some("Str".into()), vec![(None, Ty::Bin)])
    }
    pub fn is_nil(&self) -> bool {
        matches!(self, Ty::Tup(None, f) if f.is_empty())
    }
    pub fn is_never(&self) -> bool {
        matches!(self, Ty::Union(v) if v.is_empty())
    }
    pub fn variants(&self) -> Vec<Ty> {
        match self {
            Ty::Union(v) => v.clone(),
            t => vec![t.clone()],
        }
    }
    pub fn union(parts: Vec<Ty>) -> Ty {
        let mut out: Vec<Ty> = vec![];
        for p in parts {
            for v in p.variants() {
                if !out.contains(&v) {
                    out.push(v);
                }
            }
        }
        out.sort();
        if out.len() == 1 { out.pop().unwrap() } else { Ty::Union(out) }
    }
    pub fn contains_nil(&self) -> bool {
        self.variants().iter().any(|v| v.is_nil())
    }
    pub fn without_nil(&self) -> Ty {
        Ty::union(self.variants().into_iter().filter(|v| !v.is_nil()).collect())
    }
    pub fn with_nil(&self) -> Ty {
        Ty::union(vec![self.clone(), Ty::nil()])
    }
    /// a function value somewhere inside (equality on such values is not fixed by the spec)
    pub fn has_fn(&self) -> bool {
        match self {
            Ty::Int | Ty::Bin => false,
            Ty::Fn(..) => true,
            Ty::Tup(_, fs) => fs.iter().any(|(_, t)| t.has_fn()),
            Ty::Union(vs) => vs.iter().any(|t| t.has_fn()),
        }
    }
    /// a union anywhere inside
    pub fn has_union(&self) -> bool {
        match self {
            Ty::Int | Ty::Bin => false,
            Ty::Fn(p, r) => p.has_union() || r.has_union(),
            Ty::Tup(_, fs) => fs.iter().any(|(_, t)| t.has_union()),
            Ty::Union(_) => true,
        }
    }
    /// is a function (variant) at the top level
    pub fn top_fn(&self) -> bool {
        self.variants().iter().any(|v| matches!(v, Ty::Fn(..)))
    }
    /// structural subtyping: every value of `self` is a value of `sup`
    pub fn sub(&self, sup: &Ty) -> bool {
        match self {
            Ty::Union(vs) => vs.iter().all(|v| v.sub(sup)),
            _ => sup.variants().iter().any(|s| self.sub1(s)),
        }
    }
    fn sub1(&self, s: &Ty) -> bool {
        match (self, s) {
            (Ty::Int, Ty::Int) | (Ty::Bin, Ty::Bin) => true,
            (Ty::Tup(n, fs), Ty::Tup(m, gs)) => {
                n == m && fs.len() == gs.len() && fs.iter().zip(gs).all(|((l, t), (k, u))| l == k && t.sub(u))
            }
            (Ty::Fn(p, r), Ty::Fn(q, s)) => q.sub(p) && r.sub(s),
            _ => false,
        }
    }
    /// Quiver type syntax (for parameter annotations and type patterns).
    pub fn src(&self) -> String {
        match self {
            Ty::Int => "'int".into(),
            Ty::Bin => "'bin".into(),
            Ty::Tup(n, fs) => {
                if fs.is_empty() {
                    return n.clone().unwrap_or_else(|| "[]".into());
                }
                let inner: Vec<String> = fs
                    .iter()
                    .map(|(l, t)| match l {
                        Some(l) => format!("{l}: {}", t.src_field()),
                        None => t.src_field(),
                    })
                    .collect();
                format!("{}[{}]", n.clone().unwrap_or_default(), inner.join(", "))
            }
            Ty::Fn(p, r) => format!("#{} -> {}", p.src_atom(), r.src_atom()),
            Ty::Union(vs) => {
                let inner: Vec<String> = vs.iter().map(|v| v.src_atom()).collect();
                format!("({})", inner.join(" | "))
            }
        }
    }
    fn src_field(&self) -> String {
        match self {
            Ty::Fn(..) => format!("({})", self.src()),
            _ => self.src(),
        }
    }
    fn src_atom(&self) -> String {
        match self {
            Ty::Fn(..) => format!("({})", self.src()),
            _ => self.src(),
        }
    }
    /// S-expression of a first-order type (None if it contains a function type)
    pub fn sx(&self) -> Option<String> {
        Some(match self {
            Ty::Int => "int".into(),
            Ty::Bin => "bin".into(),
            Ty::Tup(n, fs) => {
                let mut s = format!("(tt {}", n.clone().unwrap_or_else(|| "_".into()));
                for (l, t) in fs {
                    s.push_str(&format!(" ({} {})", l.clone().unwrap_or_else(|| "_".into()), t.sx()?));
                }
                s.push(')');
                s
            }
            Ty::Fn(..) => return None,
            Ty::Union(vs) => {
                let mut s = "(tu".to_string();
                for v in vs {
                    s.push(' ');
                    s.push_str(&v.sx()?);
                }
                s.push(')');
                s
            }
        })
    }
}

#[derive(Clone, Debug, PartialEq, Eq, Hash)]
pub enum Pat {
    Bind(String),
    Wild,
    Lit(Lit),
    /// `"text"` = `Str[<bytes>]`
    Str(String),
    Pin(String),
    Tup(Option<String>, Vec<(Option<String>, Pat)>),
    Part(Option<String>, Vec<(String, Option<Pat>)>),
    Star(Option<String>),
    /// `'int`, `'bin`, `('int | 'bin)` — tuple types are written as tuple patterns
    Type(Ty),
    Alt(Vec<Pat>),
    As(Ty, String),
}

#[derive(Clone, Debug, PartialEq, Eq, Hash)]
pub enum Acc {
    Label(String),
    Index(usize),
}

#[derive(Clone, Debug, PartialEq, Eq, Hash)]
pub enum Src {
    Var(String),
    Param,
    Ripple,
    Builtin(String),
}

#[derive(Clone, Debug, PartialEq, Eq, Hash)]
pub enum TupName {
    Anon,
    Named(String),
    Inherit,
}

#[derive(Clone, Debug, PartialEq, Eq, Hash)]
pub enum Field {
    Val(Option<String>, Chain),
    Spread(Option<String>),
}

#[derive(Clone, Debug, PartialEq, Eq, Hash)]
pub enum Term {
    Lit(Lit),
    /// `"text"` = `Str[<bytes>]`
    Str(String),
    /// a string with holes: `"a{e}b"` — the literal text concatenated with the holes' values (each hole
    /// is parsed like a block body, receives the flowing value and must evaluate to a `Str`)
    Interp(Vec<Seg>),
    Tuple(TupName, Vec<Field>),
    Match(Pat),
    Block(Expr),
    /// `#T { body }` (`#{ … }` when `param` is nil); `body = None` is the identity `#T`
    Fn { param: Ty, body: Option<Expr> },
    Access(Src, Vec<Acc>),
    Ref(Src, Vec<Acc>),
    Tail(Option<(String, Vec<Acc>)>),
    TailRipple,
}

#[derive(Clone, Debug, PartialEq, Eq, Hash)]
pub enum Seg {
    /// plain text (generated without characters that need escaping)
    Text(String),
    Hole(Expr),
}

/// the documented value of a string with holes, written in core terms (what the reference evaluator is
/// asked): `Str[<concatenation of the text bytes and the holes' binaries>]`, every hole as a block
/// (scope; receives the flowing value like a tuple field), its binary by `~.0`
pub fn desugar_interp(segs: &[Seg]) -> Term {
    let mut parts: Vec<Chain> = vec![];
    for s in segs {
        match s {
            Seg::Text(t) if t.is_empty() => {}
            Seg::Text(t) => parts.push(Chain::new(vec![Term::Lit(Lit::Bin(t.as_bytes().to_vec()))])),
            Seg::Hole(e) => parts.push(Chain::new(vec![Term::Block(e.clone()), Term::Access(Src::Ripple, vec![Acc::Index(0)])])),
        }
    }
    let mut it = parts.into_iter();
    let mut acc = it.next().unwrap_or_else(|| Chain::new(vec![Term::Lit(Lit::Bin(vec![]))]));
    for p in it {
        acc = Chain::new(vec![
            Term::Tuple(TupName::Anon, vec![Field::Val(None, acc), Field::Val(None, p)]),
            Term::Access(Src::Builtin("binary_concat".into()), vec![]),
        ]);
    }
    Term::Tuple(TupName::Named("Str".into()), vec![Field::Val(None, acc)])
}

#[derive(Clone, Debug, PartialEq, Eq, Hash)]
pub struct Chain {
    pub pat: Option<Pat>,
    pub terms: Vec<Term>,
}

#[derive(Clone, Debug, PartialEq, Eq, Hash)]
pub struct Branch {
    pub cond: Vec<Chain>,
    pub cons: Option<Vec<Chain>>,
}

#[derive(Clone, Debug, PartialEq, Eq, Hash)]
pub struct Expr {
    pub branches: Vec<Branch>,
}

#[derive(Clone, Debug, PartialEq, Eq, Hash)]
pub struct Program {
    pub steps: Vec<Chain>,
}

// ------------------------------------------------------------------------------------------------
// Quiver source
// ------------------------------------------------------------------------------------------------

fn hexs(b: &[u8]) -> String {
    let mut s = String::new();
    for x in b {
        s.push_str(&format!("{:02x}", x));
    }
    s
}

impl Lit {
    pub fn src(&self) -> String {
        match self {
            Lit::Int(i) => i.to_string(),
            Lit::Bin(b) => format!("0x{}", hexs(b)),
        }
    }
    pub fn sx(&self, int_tag: &str, bin_tag: &str) -> String {
        match self {
            Lit::Int(i) => format!("({int_tag} {i})"),
            Lit::Bin(b) if b.is_empty() => format!("({bin_tag})"),
            Lit::Bin(b) => format!("({bin_tag} {})", hexs(b)),
        }
    }
}

impl Pat {
    pub fn src(&self) -> String {
        match self {
            Pat::Bind(x) => x.clone(),
            Pat::Wild => "_".into(),
            Pat::Lit(l) => l.src(),
            Pat::Str(s) => format!("\"{s}\""),
            Pat::Pin(x) => format!("&{x}"),
            Pat::Tup(n, fs) => {
                if fs.is_empty() {
                    return n.clone().unwrap_or_else(|| "[]".into());
                }
                let inner: Vec<String> = fs
                    .iter()
                    .map(|(l, p)| match l {
                        Some(l) => format!("{l}: {}", p.src()),
                        None => p.src(),
                    })
                    .collect();
                format!("{}[{}]", n.clone().unwrap_or_default(), inner.join(", "))
            }
            Pat::Part(n, fs) => {
                let inner: Vec<String> = fs
                    .iter()
                    .map(|(l, p)| match p {
                        Some(p) => format!("{l}: {}", p.src()),
                        None => l.clone(),
                    })
                    .collect();
                format!("{}({})", n.clone().unwrap_or_default(), inner.join(", "))
            }
            Pat::Star(n) => format!("{}*", n.clone().unwrap_or_default()),
            Pat::Type(t) => t.src(),
            Pat::Alt(ps) => {
                let inner: Vec<String> = ps.iter().map(|p| p.src()).collect();
                format!("({})", inner.join(" | "))
            }
            Pat::As(t, x) => {
                let ts = t.src();
                if ts.starts_with('(') { format!("{ts}{x}") } else { format!("({ts}){x}") }
            }
        }
    }
    pub fn sx(&self) -> String {
        match self {
            Pat::Bind(x) => format!("(pb {x})"),
            Pat::Wild => "(pw)".into(),
            Pat::Lit(l) => l.sx("pi", "pbin"),
            Pat::Str(s) => format!("(pt Str (_ {}))", Lit::Bin(s.as_bytes().to_vec()).sx("pi", "pbin")),
            Pat::Pin(x) => format!("(pp {x})"),
            Pat::Tup(n, fs) => {
                let mut s = format!("(pt {}", n.clone().unwrap_or_else(|| "_".into()));
                for (l, p) in fs {
                    s.push_str(&format!(" ({} {})", l.clone().unwrap_or_else(|| "_".into()), p.sx()));
                }
                s.push(')');
                s
            }
            Pat::Part(n, fs) => {
                let mut s = format!("(pa {}", n.clone().unwrap_or_else(|| "_".into()));
                for (l, p) in fs {
                    match p {
                        Some(p) => s.push_str(&format!(" ({l} {})", p.sx())),
                        None => s.push_str(&format!(" ({l})")),
                    }
                }
                s.push(')');
                s
            }
            Pat::Star(n) => format!("(ps {})", n.clone().unwrap_or_else(|| "_".into())),
            Pat::Type(t) => format!("(pty {})", t.sx().unwrap_or_else(|| "fn-type".into())),
            Pat::Alt(ps) => {
                let mut s = "(por".to_string();
                for p in ps {
                    s.push(' ');
                    s.push_str(&p.sx());
                }
                s.push(')');
                s
            }
            Pat::As(t, x) => format!("(pas {} {x})", t.sx().unwrap_or_else(|| "fn-type".into())),
        }
    }
    /// variables bound (first-alternative rule for alternations, as in the Lean `patVars`)
    pub fn vars(&self, out: &mut Vec<String>) {
        match self {
            Pat::Bind(x) | Pat::As(_, x) => {
                if !out.contains(x) {
                    out.push(x.clone())
                }
            }
            Pat::Tup(_, fs) => fs.iter().for_each(|(_, p)| p.vars(out)),
            Pat::Part(_, fs) => fs.iter().for_each(|(l, p)| match p {
                Some(p) => p.vars(out),
                None => {
                    if !out.contains(l) {
                        out.push(l.clone())
                    }
                }
            }),
            Pat::Alt(ps) => {
                if let Some(p) = ps.first() {
                    p.vars(out)
                }
            }
            _ => {}
        }
    }
}

fn accs_src(a: &[Acc]) -> String {
    a.iter()
        .map(|x| match x {
            Acc::Label(l) => format!(".{l}"),
            Acc::Index(i) => format!(".{i}"),
        })
        .collect()
}

fn accs_sx(a: &[Acc]) -> String {
    a.iter()
        .map(|x| match x {
            Acc::Label(l) => format!(" (l {l})"),
            Acc::Index(i) => format!(" (n {i})"),
        })
        .collect()
}

pub fn seq_src(cs: &[Chain]) -> String {
    cs.iter().map(|c| c.src()).collect::<Vec<_>>().join(", ")
}

pub fn seq_sx(cs: &[Chain]) -> String {
    let mut s = "(s".to_string();
    for c in cs {
        s.push(' ');
        s.push_str(&c.sx());
    }
    s.push(')');
    s
}

impl Term {
    pub fn src(&self) -> String {
        match self {
            Term::Lit(l) => l.src(),
            Term::Str(s) => format!("\"{s}\""),
            Term::Interp(segs) => {
                let mut out = String::from("\"");
                for g in segs {
                    match g {
                        Seg::Text(t) => out.push_str(t),
                        Seg::Hole(e) => {
                            out.push('{');
                            out.push_str(&e.src());
                            out.push('}');
                        }
                    }
                }
                out.push('"');
                out
            }
            Term::Tuple(name, fs) => {
                let mut prefix = match name {
                    TupName::Anon => String::new(),
                    TupName::Named(n) => n.clone(),
                    TupName::Inherit => "~".into(),
                };
                if fs.is_empty() {
                    return if prefix.is_empty() { "[]".into() } else { prefix };
                }
                // `x[..., …]` : inherit the name of x; the leading spread is written `...`
                let mut fs: Vec<Field> = fs.clone();
                if let (TupName::Inherit, Some(Field::Spread(Some(x)))) = (name, fs.first()) {
                    prefix = x.clone();
                    fs[0] = Field::Spread(None);
                }
                let inner: Vec<String> = fs
                    .iter()
                    .map(|f| match f {
                        Field::Val(Some(l), c) => format!("{l}: {}", c.src()),
                        Field::Val(None, c) => c.src(),
                        Field::Spread(None) => "...".into(),
                        Field::Spread(Some(x)) => format!("...{x}"),
                    })
                    .collect();
                format!("{prefix}[{}]", inner.join(", "))
            }
            Term::Match(p) => format!("={}", p.src()),
            Term::Block(e) => format!("{{ {} }}", e.src()),
            Term::Fn { param, body } => {
                let p = if param.is_nil() {
                    String::new()
                } else if matches!(param, Ty::Fn(..)) {
                    format!("({})", param.src())
                } else {
                    param.src()
                };
                match body {
                    Some(b) => format!("#{p} {{ {} }}", b.src()).replace("# {", "#{"),
                    None => {
                        if p.is_empty() {
                            "#[]".into()
                        } else {
                            format!("#{p}")
                        }
                    }
                }
            }
            Term::Access(s, a) => match s {
                Src::Var(x) => format!("{x}{}", accs_src(a)),
                Src::Param => format!("${}", accs_src(a)),
                Src::Ripple => {
                    if a.is_empty() {
                        "~".into()
                    } else {
                        format!("~{}", accs_src(a))
                    }
                }
                Src::Builtin(n) => format!("__{n}__"),
            },
            Term::Ref(s, a) => match s {
                Src::Var(x) => format!("&{x}{}", accs_src(a)),
                Src::Param => format!("&${}", accs_src(a)),
                Src::Ripple => "&~".into(),
                Src::Builtin(n) => format!("&__{n}__"),
            },
            Term::Tail(None) => "^".into(),
            Term::Tail(Some((f, a))) => format!("^{f}{}", accs_src(a)),
            Term::TailRipple => "^~".into(),
        }
    }
    pub fn sx(&self) -> String {
        match self {
            Term::Lit(l) => l.sx("i", "b"),
            Term::Str(s) => format!("(t Str (f _ (c {})))", Lit::Bin(s.as_bytes().to_vec()).sx("i", "b")),
            Term::Interp(segs) => desugar_interp(segs).sx(),
            Term::Tuple(name, fs) => {
                let n = match name {
                    TupName::Anon => "_".to_string(),
                    TupName::Named(n) => n.clone(),
                    TupName::Inherit => "^".to_string(),
                };
                let mut s = format!("(t {n}");
                for f in fs {
                    match f {
                        Field::Val(l, c) => {
                            s.push_str(&format!(" (f {} {})", l.clone().unwrap_or_else(|| "_".into()), c.sx()))
                        }
                        Field::Spread(None) => s.push_str(" (sp)"),
                        Field::Spread(Some(x)) => s.push_str(&format!(" (sp {x})")),
                    }
                }
                s.push(')');
                s
            }
            Term::Match(p) => format!("(m {})", p.sx()),
            Term::Block(e) => {
                let mut s = "(blk".to_string();
                for b in &e.branches {
                    s.push(' ');
                    s.push_str(&b.sx());
                }
                s.push(')');
                s
            }
            Term::Fn { param, body } => {
                let n = if param.is_nil() { 1 } else { 0 };
                match body {
                    Some(b) => format!("(fn {n} {})", b.sx()),
                    None => format!("(fn {n})"),
                }
            }
            Term::Access(s, a) => match s {
                Src::Var(x) => format!("(v {x}{})", accs_sx(a)),
                Src::Param => format!("(${})", accs_sx(a)),
                Src::Ripple => format!("(~{})", accs_sx(a)),
                Src::Builtin(n) => format!("(bi {n})"),
            },
            Term::Ref(s, a) => match s {
                Src::Var(x) => format!("(&v {x}{})", accs_sx(a)),
                Src::Param => format!("(&${})", accs_sx(a)),
                Src::Ripple => "(&~)".into(),
                Src::Builtin(n) => format!("(&bi {n})"),
            },
            Term::Tail(None) => "(tc)".into(),
            Term::Tail(Some((f, a))) => format!("(tcf {f}{})", accs_sx(a)),
            Term::TailRipple => "(tcr)".into(),
        }
    }
}

impl Chain {
    pub fn new(terms: Vec<Term>) -> Chain {
        Chain { pat: None, terms }
    }
    pub fn src(&self) -> String {
        let mut parts: Vec<String> = vec![];
        for (i, t) in self.terms.iter().enumerate() {
            let s = t.src();
            // a bare postfix access `.x` directly after the chain start reads the flowing value
            if i == 0 && s.starts_with('.') {
                parts.push(format!("~{s}"));
            } else {
                parts.push(s);
            }
        }
        let body = parts.join(" ");
        match &self.pat {
            Some(p) => format!("{} = {}", p.src(), body),
            None => body,
        }
    }
    pub fn sx(&self) -> String {
        let mut s = match &self.pat {
            Some(p) => format!("(cp {}", p.sx()),
            None => "(c".to_string(),
        };
        for t in &self.terms {
            s.push(' ');
            s.push_str(&t.sx());
        }
        s.push(')');
        s
    }
}

impl Branch {
    pub fn src(&self) -> String {
        match &self.cons {
            Some(k) => format!("{} => {}", seq_src(&self.cond), seq_src(k)),
            None => seq_src(&self.cond),
        }
    }
    pub fn sx(&self) -> String {
        match &self.cons {
            Some(k) => format!("(br {} {})", seq_sx(&self.cond), seq_sx(k)),
            None => format!("(br {})", seq_sx(&self.cond)),
        }
    }
}

impl Expr {
    pub fn src(&self) -> String {
        let bs: Vec<String> = self.branches.iter().map(|b| b.src()).collect();
        if bs.len() > 1 { format!("| {}", bs.join(" | ")) } else { bs.join(" | ") }
    }
    pub fn sx(&self) -> String {
        let mut s = "(e".to_string();
        for b in &self.branches {
            s.push(' ');
            s.push_str(&b.sx());
        }
        s.push(')');
        s
    }
}

fn chain_ambiguous(c: &Chain) -> bool {
    c.terms.windows(2).any(|w| matches!(w[0], Term::Fn { body: None, .. }) && matches!(w[1], Term::Block(_)))
        || c.terms.iter().any(term_ambiguous)
}

fn term_ambiguous(t: &Term) -> bool {
    match t {
        Term::Tuple(name, fs) => {
            // `x[..., …, ...]`: the later bare spread would be read as x again
            (matches!((name, fs.first()), (TupName::Inherit, Some(Field::Spread(Some(_)))))
                && fs.iter().skip(1).any(|f| matches!(f, Field::Spread(None))))
                || fs.iter().any(|f| matches!(f, Field::Val(_, c) if chain_ambiguous(c)))
        }
        Term::Block(e) | Term::Fn { body: Some(e), .. } => e.branches.iter().any(|b| {
            b.cond.iter().any(chain_ambiguous) || b.cons.as_ref().map(|k| k.iter().any(chain_ambiguous)).unwrap_or(false)
        }),
        Term::Interp(segs) => segs.iter().any(|g| match g {
            Seg::Hole(e) => e.branches.iter().any(|b| {
                b.cond.iter().any(chain_ambiguous) || b.cons.as_ref().map(|k| k.iter().any(chain_ambiguous)).unwrap_or(false)
            }),
            _ => false,
        }),
        _ => false,
    }
}

impl Program {
    /// Does the printed source denote another AST than this one? (`#T` directly followed by a
    /// `{ … }` term reads as a function with that body.) The shrinker must not produce these.
    pub fn prints_ambiguously(&self) -> bool {
        self.steps.iter().any(chain_ambiguous)
    }
    pub fn src(&self) -> String {
        seq_src(&self.steps)
    }
    pub fn sx(&self) -> String {
        let mut s = "(prog".to_string();
        for c in &self.steps {
            s.push(' ');
            s.push_str(&c.sx());
        }
        s.push(')');
        s
    }
    pub fn size(&self) -> usize {
        self.sx().matches('(').count()
    }
}
