//! C02 — compiled execution agrees with the language's reference semantics.
//!
//! A core-program generator (`progen.rs`) builds an AST once; `ast.rs` prints it as Quiver source (for
//! the real parser + compiler + VM, sync path) and as an S-expression (for the Lean reference
//! evaluator `qm_c02`, `QuiverModel/Core/RefSem`). Canonical results (value or error class) must be
//! equal. The regression corpus (`/verif/corpus/C02/*.qv`, converted from the real parser's AST by
//! `from_real.rs`) runs first; so do the in-fragment sources of the repository's own test suite.
//! A disagreement is shrunk (delta debugging on the AST) before it is reported.
mod ast;
mod frag;
mod frag1;
mod listgen;
mod from_real;
mod progen;
mod shrink;
mod validate;

use ast::Program;
use qverif::run::{Builtins, RunOutcome};
use qverif::{Ev, Model, Opts, Rng};
use serde_json::json;
use std::collections::HashMap;
use std::sync::mpsc;
use std::time::Duration;

const FUEL: u64 = 20000;

#[derive(Clone, Debug, PartialEq)]
enum Impl {
    /// rejected by parser / compiler (class)
    Rejected(String),
    /// canonical value, or `error:<Class>`, or `panic:<msg>`
    Ran(String),
    Timeout,
}

/// `f12(i1,f3())` → `f`, `uinteger_add` → `f` (function values are opaque in the comparison)
fn opaque_functions(s: &str) -> String {
    let b = s.as_bytes();
    let mut out = String::new();
    let mut i = 0;
    while i < b.len() {
        let c = b[i] as char;
        let at_value_start = i == 0 || matches!(b[i - 1] as char, '=' | '(' | ',');
        if at_value_start && c == 'f' && i + 1 < b.len() && (b[i + 1] as char).is_ascii_digit() {
            // skip digits, then the balanced capture list
            let mut j = i + 1;
            while j < b.len() && (b[j] as char).is_ascii_digit() {
                j += 1;
            }
            if j < b.len() && b[j] as char == '(' {
                let mut depth = 0;
                while j < b.len() {
                    match b[j] as char {
                        '(' => depth += 1,
                        ')' => {
                            depth -= 1;
                            if depth == 0 {
                                j += 1;
                                break;
                            }
                        }
                        _ => {}
                    }
                    j += 1;
                }
            }
            out.push('f');
            i = j;
            continue;
        }
        if at_value_start && c == 'u' {
            let mut j = i + 1;
            while j < b.len() && !matches!(b[j] as char, ',' | ')') {
                j += 1;
            }
            out.push('f');
            i = j;
            continue;
        }
        out.push(c);
        i += 1;
    }
    out
}

/// parse + compile `src` as a whole program whose implicit top-level flow has the *type* nil — what
/// the REPL / test-suite path does (`Repl::evaluate` passes the id of `Type::nil()`).
/// (`qverif::run::compile_source` follows `quiv run`, which passes `quiver_core::types::NIL` — a
/// tuple index — as the parameter *type id*; that id denotes `never`, see notes/C02.md "Findings".)
fn compile_program(src: &str, b: &Builtins) -> Result<qverif::run::Unit, qverif::run::FrontError> {
    use qverif::run::FrontError;
    use quiver_compiler::compiler::ModuleCache;
    use quiver_core::types::Type;
    let r = qverif::catch(|| {
        let ast = quiver_compiler::parse(src).map_err(|e| FrontError::Parse(format!("{e:?}")))?;
        let mut program = quiver_core::program::Program::new();
        let mut cache = ModuleCache::new();
        let resolver = quiver_compiler::PackageResolver::memory(HashMap::new());
        let nil_type_id = program.register_type(Type::nil());
        let compiled = quiver_compiler::Compiler::compile(
            ast,
            &HashMap::new(),
            &mut cache,
            &resolver,
            &mut program,
            nil_type_id,
            &HashMap::new(),
            b,
            None,
        )
        .map_err(|e| FrontError::Compile(format!("{:?}", e.error)))?;
        let callable = program.register_type(Type::Callable {
            parameter: nil_type_id,
            result: compiled.result_type,
            receive: compiled.receive_type,
        });
        let entry = program.register_function(quiver_core::bytecode::Function {
            instructions: compiled.instructions,
            captures: 0,
            type_id: callable,
        });
        Ok(qverif::run::Unit { program, entry, compiled_result_type: compiled.result_type, receive_type: compiled.receive_type })
    });
    match r {
        Ok(x) => x,
        Err(p) => Err(FrontError::Panic(p)),
    }
}

/// `execute_bytecode_sync_with`, but with a STEP BUDGET: drives `Executor::step` itself (all pub) and
/// gives up after `max_rounds` rounds of 1000 instruction units — a compiled program that no longer
/// terminates (possible after a miscompilation or a VM defect) is an ordinary, shrinkable outcome.
fn run_limited(
    bytecode: quiver_core::bytecode::Bytecode,
    b: &Builtins,
    max_rounds: usize,
) -> Result<Option<(quiver_core::value::Value, qverif::run::Exec)>, quiver_core::Error> {
    use quiver_core::compatibility::{CompatibilityInput, compute_canonical_tuples, compute_param_compatibility, compute_type_compatibility};
    use quiver_core::executor::ProgramUpdate;
    let entry = bytecode.entry.ok_or_else(|| quiver_core::Error::InvalidArgument("Bytecode has no entry point".to_string()))?;
    let mut executor = qverif::run::Exec::new(b.clone(), false, 0);
    let input = CompatibilityInput {
        types: &bytecode.types,
        tuples: &bytecode.tuples,
        functions: &bytecode.functions,
        builtins: &bytecode.builtins,
        resource_names: &bytecode.resources,
    };
    let type_compatibility = compute_type_compatibility(&input);
    let canonical_tuples = compute_canonical_tuples(&bytecode.tuples);
    let (function_param_compatibility, builtin_param_compatibility) = compute_param_compatibility(&input);
    let program_update = ProgramUpdate {
        constants: bytecode.constants,
        functions: bytecode.functions,
        tuples: bytecode.tuples[2..].to_vec(),
        types: bytecode.types,
        builtins: bytecode.builtins,
        resources: bytecode.resources,
        type_compatibility,
        function_param_compatibility,
        builtin_param_compatibility,
        canonical_tuples,
    };
    executor.update_program(program_update);
    let process_id = 0;
    executor.spawn_process(process_id, Some(entry), vec![], quiver_core::value::Value::nil(), vec![], false)?;
    // a wall-clock guard on top of the unit budget: a miscompiled loop may also GROW its state with every
    // iteration (locals that are never cut back), and a million units of that take minutes
    let started = std::time::Instant::now();
    for _ in 0..max_rounds {
        if started.elapsed() > Duration::from_secs(5) {
            break;
        }
        let (_did_work, _action) = executor.step(1000, 0);
        let process = executor.get_process(process_id).ok_or(quiver_core::Error::InvalidArgument("Process disappeared".to_string()))?;
        if let Some(result) = &process.result {
            return match result {
                Ok(value) => {
                    let value = value.clone();
                    // the result was popped off the operand stack: nothing may be left below it (an
                    // operand some path forgot is invisible in the value — it shows only where a caller
                    // addresses its own operands by position — but it is a miscompilation all the same)
                    if !process.stack.is_empty() {
                        return Err(quiver_core::Error::InvalidArgument(format!(
                            "operand-stack-leftover: {} value(s) below the result",
                            process.stack.len()
                        )));
                    }
                    if cfg!(debug_assertions) {
                        if let Err(e) = executor.check_refcounts() {
                            panic!("refcount invariant violated after sync execution: {e}");
                        }
                    }
                    Ok(Some((value, executor)))
                }
                Err(e) => Err(e.clone()),
            };
        }
    }
    Ok(None)
}

/// rounds of 1000 instruction units a compiled program may take (generated programs need < 100)
const MAX_ROUNDS: usize = 3000;

fn run_impl_inner(src: &str, b: &Builtins) -> Impl {
    let unit = match compile_program(src, b) {
        Ok(u) => u,
        Err(qverif::run::FrontError::Parse(e)) => return Impl::Rejected(format!("parse:{}", e.chars().take(60).collect::<String>())),
        Err(qverif::run::FrontError::Compile(e)) => {
            let class: String = e.chars().take_while(|c| c.is_alphanumeric() || *c == '_').collect();
            return Impl::Rejected(format!("compile:{class}:{}", e.chars().take(160).collect::<String>()));
        }
        Err(qverif::run::FrontError::Panic(p)) => return Impl::Ran(format!("panic:compiler:{}", p.lines().next().unwrap_or(""))),
    };
    let bc = unit.program.to_bytecode(Some(unit.entry));
    let bc2 = bc.clone();
    let (out, ex) = match qverif::catch(|| run_limited(bc, b, MAX_ROUNDS)) {
        Ok(Ok(Some((v, ex)))) => (RunOutcome::Value(v), Some(ex)),
        Ok(Ok(None)) => return Impl::Ran(format!("step-budget-exhausted:{}k-instruction-units", MAX_ROUNDS)),
        Ok(Err(quiver_core::Error::InvalidArgument(m))) if m.starts_with("operand-stack-leftover") => {
            return Impl::Ran(m.replace(": ", ":").replace(' ', "-"));
        }
        Ok(Err(e)) => (RunOutcome::Error(e), None),
        Err(p) => (RunOutcome::Panic(p), None),
    };
    let s = qverif::run::canon_outcome(&out, ex.as_ref(), &bc2);
    match out {
        RunOutcome::Value(_) => Impl::Ran(opaque_functions(&s)),
        _ => Impl::Ran(s),
    }
}

/// The implementation runs in a worker thread so that a non-terminating run (possible after a
/// miscompilation) is reported instead of hanging the check.
struct ImplRunner {
    tx: mpsc::Sender<String>,
    rx: mpsc::Receiver<Impl>,
    dead: bool,
}

impl ImplRunner {
    fn new() -> ImplRunner {
        let (tx, wrx) = mpsc::channel::<String>();
        let (wtx, rx) = mpsc::channel::<Impl>();
        std::thread::Builder::new()
            .stack_size(256 << 20)
            .spawn(move || {
                let b = qverif::run::builtins();
                while let Ok(src) = wrx.recv() {
                    let r = run_impl_inner(&src, &b);
                    if wtx.send(r).is_err() {
                        break;
                    }
                }
            })
            .expect("spawn impl thread");
        ImplRunner { tx, rx, dead: false }
    }
    fn run(&mut self, src: &str) -> Impl {
        if self.dead {
            return Impl::Timeout;
        }
        self.tx.send(src.to_string()).expect("impl thread alive");
        match self.rx.recv_timeout(Duration::from_secs(20)) {
            Ok(r) => r,
            Err(_) => {
                self.dead = true;
                Impl::Timeout
            }
        }
    }
}

/// What the comparison of one program says.
#[derive(Debug, PartialEq)]
enum Verdict {
    Agree,
    /// outside what the spec fixes / outside the evaluator's fragment / fuel: not compared
    Skip(String),
    Disagree { model: String, imp: String },
}

fn compare(model: &str, imp: &Impl) -> Verdict {
    let imp_s = match imp {
        Impl::Rejected(r) => return Verdict::Skip(format!("rejected:{r}")),
        Impl::Timeout => "timeout".to_string(),
        Impl::Ran(s) => s.clone(),
    };
    if model.starts_with("unspecified") || model.starts_with("unsupported") || model == "fuel-out" {
        return Verdict::Skip(model.split(' ').next().unwrap_or("").to_string());
    }
    let expect = if let Some(v) = model.strip_prefix("ok ") {
        v.to_string()
    } else if let Some(c) = model.strip_prefix("err ") {
        format!("error:{c}")
    } else {
        return Verdict::Disagree { model: model.to_string(), imp: imp_s };
    };
    if expect == imp_s { Verdict::Agree } else { Verdict::Disagree { model: model.to_string(), imp: imp_s } }
}

struct Checker {
    model: Model,
    imp: ImplRunner,
}

impl Checker {
    fn ask_model(&mut self, sx: &str) -> String {
        self.model.ask(&format!("(eval {sx} {FUEL})"))
    }
    /// the implementation runs `src` as written, the model the converted program `p`
    fn check_src(&mut self, p: &Program, src: &str) -> (Verdict, String, Impl) {
        let imp = self.imp.run(src);
        if let Impl::Rejected(_) = imp {
            return (compare("", &imp), String::new(), imp);
        }
        let m = self.ask_model(&p.sx());
        (compare(&m, &imp), m, imp)
    }
    fn check(&mut self, p: &Program) -> (Verdict, String, Impl) {
        let imp = self.imp.run(&p.src());
        if let Impl::Rejected(_) = imp {
            return (compare("", &imp), String::new(), imp);
        }
        let m = self.ask_model(&p.sx());
        (compare(&m, &imp), m, imp)
    }
}

fn signature_of(model: &str, imp: &str) -> String {
    let kind = if imp.starts_with("panic:") {
        "impl-panic"
    } else if imp == "timeout" || imp.starts_with("step-budget-exhausted") {
        "impl-timeout"
    } else if imp.starts_with("error:") && model.starts_with("ok ") {
        "impl-error-model-value"
    } else if model.starts_with("err ") && !imp.starts_with("error:") {
        "impl-value-model-error"
    } else if imp.starts_with("error:") {
        "different-error"
    } else {
        "different-value"
    };
    format!("core-program kind={kind}")
}

/// does the source define a type alias (`'name = …`)? Such a program is reported as written: the AST's own
/// printer has no aliases (it prints the expanded types, and cannot print recursive ones)
fn defines_alias(src: &str) -> bool {
    let b = src.as_bytes();
    let mut i = 0;
    while i < b.len() {
        if b[i] == b'\'' {
            let mut j = i + 1;
            while j < b.len() && (b[j].is_ascii_alphanumeric() || b[j] == b'_') {
                j += 1;
            }
            if j > i + 1 && src[j..].starts_with(" = ") {
                return true;
            }
        }
        i += 1;
    }
    false
}

fn report(ev: &mut Ev, ck: &mut Checker, origin: &str, p: &Program, model: &str, imp: &str, forced_signature: Option<&str>) {
    report_as(ev, ck, origin, p, model, imp, forced_signature, None)
}

#[allow(clippy::too_many_arguments)]
fn report_as(ev: &mut Ev, ck: &mut Checker, origin: &str, p: &Program, model: &str, imp: &str, forced_signature: Option<&str>, written: Option<&str>) {
    if let Some(src) = written.filter(|s| defines_alias(s)) {
        let kind = signature_of(model, imp);
        let signature = forced_signature.map(|s| s.to_string()).unwrap_or_else(|| kind.clone());
        let what = format!("compiled program and reference semantics differ ({kind}): `{src}` runs to {imp} but docs/spec.md (reference evaluator) gives {model}");
        ev.violation(&signature, &what, json!({"origin": origin, "source": src, "sexpr": p.sx(), "implementation": imp, "reference": model}), true);
        return;
    }
    // shrink: keep a candidate while it is accepted and still disagrees in the same way; a program
    // that does not have the shape of a known finding must not drift into one while shrinking
    let kind = signature_of(model, imp);
    // generated programs are shrunk inside the validated fragment only (no drift into unspecified
    // territory or into the shape of an open finding); corpus / suite programs are shrunk freely
    let stay_valid = validate::validate(p).is_ok();
    // a hand-written witness of a registered finding is reported as written (free shrinking could
    // slide it to a different, unspecified program that merely differs in the same way)
    let small = if ck.imp.dead || forced_signature.is_some() {
        p.clone()
    } else {
        shrink::shrink(
            p,
            |q| {
                if q.prints_ambiguously() || (stay_valid && validate::validate(q).is_err()) {
                    return false;
                }
                let (v, m, i) = ck.check(q);
                match (v, i) {
                    (Verdict::Disagree { .. }, Impl::Ran(s)) => signature_of(&m, &s) == kind,
                    _ => false,
                }
            },
            1500,
        )
    };
    let (v2, m2, i2) = if ck.imp.dead { (Verdict::Skip(String::new()), model.to_string(), Impl::Timeout) } else { ck.check(&small) };
    let (m_small, i_small) = match (&v2, &i2) {
        (Verdict::Disagree { .. }, Impl::Ran(s)) => (m2.clone(), s.clone()),
        _ => (model.to_string(), imp.to_string()),
    };
    let signature = match forced_signature {
        Some(s) => s.to_string(),
        None => kind.clone(),
    };
    let what = format!(
        "compiled program and reference semantics differ ({kind}): `{}` runs to {} but docs/spec.md (reference evaluator) gives {}",
        small.src(),
        i_small,
        m_small
    );
    ev.violation(
        &signature,
        &what,
        json!({
            "origin": origin,
            "source": small.src(),
            "sexpr": small.sx(),
            "implementation": i_small,
            "reference": m_small,
            "unshrunk_source": p.src(),
            "unshrunk_sexpr": p.sx(),
            "unshrunk_implementation": imp,
            "unshrunk_reference": model,
            "how_to_replay": "echo '<source>' | quiv repl   vs   echo '(eval <sexpr> 20000)' | lean/.lake/build/bin/qm_c02",
        }),
        true,
    );
}

/// the compiler REJECTS a program that must compile: a must-pass regression entry, or a validated
/// generated program rejected for a reason the validator rules out (an undefined variable: the
/// validator checks every read against the bindings in scope)
fn report_rejected(ev: &mut Ev, ck: &mut Checker, origin: &str, p: &Program, why: &str, shrinkable: bool) {
    let class = |r: &str| r.split(':').take(2).collect::<Vec<_>>().join(":");
    let k = class(why);
    let small = if ck.imp.dead || !shrinkable {
        p.clone()
    } else {
        shrink::shrink(
            p,
            |q| {
                if q.prints_ambiguously() || validate::validate(q).is_err() {
                    return false;
                }
                matches!(ck.imp.run(&q.src()), Impl::Rejected(r2) if class(&r2) == k)
            },
            600,
        )
    };
    let what = format!("the compiler rejects a program of the compared fragment ({k}): `{}` — {}", small.src(), why.chars().take(200).collect::<String>());
    ev.violation(
        "core-program kind=valid-program-rejected",
        &what,
        json!({"origin": origin, "source": small.src(), "sexpr": small.sx(), "rejection": why, "unshrunk_source": p.src(),
               "how_to_replay": "echo '<source>' | quiv repl"}),
        true,
    );
}

fn main() {
    qverif::quiet_panics();
    let opts = Opts::parse();
    // developer aid: `c02 --dump-code '<source>'` prints the entry function's instructions
    if let Some(i) = opts.extra.iter().position(|x| x == "--dump-code") {
        let src = opts.extra.get(i + 1).cloned().unwrap_or_default();
        let b = qverif::run::builtins();
        match compile_program(&src, &b) {
            Ok(unit) => {
                let bc = unit.program.to_bytecode(Some(unit.entry));
                for (fi, f) in bc.functions.iter().enumerate() {
                    println!("function {fi}{} captures={}", if fi == unit.entry { " (entry)" } else { "" }, f.captures);
                    for (k, ins) in f.instructions.iter().enumerate() {
                        println!("  {k:3}  {ins:?}");
                    }
                }
                println!("constants: {:?}", bc.constants);
                println!("tuples: {:?}", bc.tuples.iter().map(|t| (t.name.clone(), t.fields.len())).collect::<Vec<_>>());
            }
            Err(e) => println!("rejected: {e:?}"),
        }
        return;
    }
    let mut ev = Ev::new("C02", &opts);
    ev.rule = "distinct accepted generated programs (by S-expression) whose reference value is not nil and that exercise at least one of: refutable match, multi-branch block, consequence, closure, tail call".into();
    let model_path = opts.model.clone().expect("--model <qm_c02>");
    let mut ck = Checker { model: Model::spawn(&model_path), imp: ImplRunner::new() };

    // developer aid: `c02 --model <qm_c02> --probe '<source>'` compares one program
    if let Some(i) = opts.extra.iter().position(|x| x == "--probe") {
        let src = opts.extra.get(i + 1).cloned().unwrap_or_default();
        match from_real::convert_source(&src) {
            Ok(p) => {
                let (v, m, i) = ck.check(&p);
                println!("source:         {}\nsexpr:          {}\nimplementation: {i:?}\nreference:      {m}\nverdict:        {v:?}\nvalidate:       {:?}", p.src(), p.sx(), validate::validate(&p));
            }
            Err(e) => println!("outside the fragment: {e}\nimplementation: {:?}", ck.imp.run(&src)),
        }
        return;
    }

    // developer aid: `--probe-src '<source>'`: the ORIGINAL source on the implementation (type aliases,
    // recursive types stay as written), the converted AST on the model
    if let Some(i) = opts.extra.iter().position(|x| x == "--probe-src") {
        let src = opts.extra.get(i + 1).cloned().unwrap_or_default();
        match from_real::convert_source(&src) {
            Ok(p) => {
                let (v, m, i) = ck.check_src(&p, &src);
                println!("implementation: {i:?}\nreference:      {m}\nverdict:        {v:?}");
            }
            Err(e) => println!("outside the fragment: {e}\nimplementation: {:?}", ck.imp.run(&src)),
        }
        return;
    }

    // replay mode: a replay file written by this binary
    if let Some(rp) = &opts.replay {
        let j: serde_json::Value = serde_json::from_str(&std::fs::read_to_string(rp).expect("replay file")).expect("json");
        let src = j["replay"]["source"].as_str().unwrap_or("").to_string();
        let sx = j["replay"]["sexpr"].as_str().unwrap_or("").to_string();
        let imp = ck.imp.run(&src);
        let m = ck.ask_model(&sx);
        println!("source:         {src}\nimplementation: {imp:?}\nreference:      {m}");
        let v = compare(&m, &imp);
        println!("verdict:        {v:?}");
        std::process::exit(if matches!(v, Verdict::Disagree { .. }) { 1 } else { 0 });
    }

    // ---- 1. regression corpus (F11 first) --------------------------------------------------------
    let mut corpus_files: Vec<_> = std::fs::read_dir("/verif/corpus/C02")
        .map(|d| d.filter_map(|e| e.ok()).map(|e| e.path()).collect())
        .unwrap_or_default();
    corpus_files.sort();
    if opts.has_flag("--skip-corpus") {
        // mutation experiments: does the GENERATOR find it on its own?
        corpus_files.clear();
    }
    for f in corpus_files {
        if f.extension().and_then(|e| e.to_str()) != Some("qv") {
            continue;
        }
        let text = std::fs::read_to_string(&f).unwrap_or_default();
        let mut expect_known: Option<String> = None;
        let mut must_reject: Option<String> = None;
        for (ln, line) in text.lines().enumerate() {
            let line = line.trim();
            if let Some(sig) = line.strip_prefix("//! known:") {
                expect_known = Some(sig.trim().to_string());
                continue;
            }
            if let Some(why) = line.strip_prefix("//! must-reject:") {
                must_reject = Some(why.trim().to_string());
                continue;
            }
            if line.starts_with("//! end") {
                expect_known = None;
                must_reject = None;
                continue;
            }
            if line.is_empty() || line.starts_with("//") {
                continue;
            }
            let origin = format!("corpus:{}:{}", f.file_name().unwrap().to_string_lossy(), ln + 1);
            if let Some(why) = &must_reject {
                // a program the compiler must refuse (the repair of a miscompile was to reject the shape)
                ev.case(&origin, true);
                match ck.imp.run(line) {
                    Impl::Rejected(_) => ev.hit("corpus.must-reject.rejected"),
                    other => {
                        let got = match other {
                            Impl::Ran(v) => format!("ran: {v}"),
                            Impl::Timeout => "timeout".to_string(),
                            Impl::Rejected(_) => unreachable!(),
                        };
                        ev.violation(
                            "corpus kind=accepted-program-that-must-be-rejected",
                            &format!("{origin}: `{line}` is compiled and run ({got}); it must be rejected: {why}"),
                            json!({"source": line, "implementation": got, "expected": "compile error", "why": why}),
                            true,
                        );
                    }
                }
                continue;
            }
            match from_real::convert_source(line) {
                Ok(p) => {
                    // the implementation runs the line as written (type aliases, recursive types), the
                    // model the converted program
                    let (v, m, i) = ck.check_src(&p, line);
                    ev.case(&origin, true);
                    match v {
                        Verdict::Agree => {
                            if let Some(sig) = &expect_known {
                                ev.hit("corpus.known-finding-no-longer-reproduces");
                                println!("# note: known finding `{sig}` no longer reproduces on {origin} (repaired? move the witness to a regression file and drop the known line)");
                            } else {
                                ev.hit("corpus.agree")
                            }
                        }
                        Verdict::Skip(w) => {
                            ev.hit(&format!("corpus.skip.{}", w.split(':').take(2).collect::<Vec<_>>().join(":")));
                            eprintln!("corpus entry not compared ({w}): {origin}");
                            if let (Some(why), None) = (w.strip_prefix("rejected:"), &expect_known) {
                                // a must-pass entry the compiler no longer accepts
                                report_rejected(&mut ev, &mut ck, &origin, &p, why, false);
                            }
                            if let (Some(why), Some(sig)) = (w.strip_prefix("rejected:"), &expect_known) {
                                // the witness of a registered finding whose face is the REJECTION of a valid program
                                ev.hit("corpus.known-finding-reproduces");
                                ev.violation(
                                    sig,
                                    &format!("the compiler rejects a valid program: `{line}`: {}", why.chars().take(160).collect::<String>()),
                                    json!({"origin": origin, "source": line, "why": why}),
                                    true,
                                );
                            }
                        }
                        Verdict::Disagree { model, imp } => {
                            let _ = (m, i);
                            if expect_known.is_some() {
                                ev.hit("corpus.known-finding-reproduces");
                            }
                            report_as(&mut ev, &mut ck, &origin, &p, &model, &imp, expect_known.as_deref(), Some(line));
                        }
                    }
                }
                Err(e) => {
                    ev.hit("corpus.unconvertible");
                    eprintln!("corpus entry outside the fragment ({e}): {origin}");
                }
            }
        }
    }

    // ---- 2. the repository's own test sources that lie in the fragment ---------------------------
    let mut suite_total = 0u64;
    let mut suite_compared = 0u64;
    for (file, src) in qverif::corpus::test_sources() {
        if opts.has_flag("--skip-corpus") {
            break;
        }
        suite_total += 1;
        let Ok(p) = from_real::convert_source(&src) else {
            ev.hit("suite.outside-fragment");
            continue;
        };
        let origin = format!("suite:{file}");
        // run the ORIGINAL source on the implementation, the converted AST on the model
        let imp = ck.imp.run(&src);
        if let Impl::Rejected(_) = imp {
            ev.hit("suite.rejected");
            continue;
        }
        let m = ck.ask_model(&p.sx());
        ev.case(&src, false);
        match compare(&m, &imp) {
            Verdict::Agree => {
                suite_compared += 1;
                ev.hit("suite.agree");
                ev.hit(&format!("suite.agree.{}", file.trim_end_matches(".rs")));
            }
            Verdict::Skip(w) => ev.hit(&format!("suite.skip.{}", w.split(':').next().unwrap_or(""))),
            Verdict::Disagree { model, imp } => {
                suite_compared += 1;
                report(&mut ev, &mut ck, &origin, &p, &model, &imp, None);
            }
        }
    }
    ev.set_extra("suite_sources", json!({"total": suite_total, "compared": suite_compared}));

    // ---- 2b. fragment compiler model vs the real compiler: instruction-sequence equality ------------
    {
        let b = qverif::run::builtins();
        let nfrag = opts.tier.pick(1500u64, 10000u64);
        let mut equal = 0u64;
        for i in 0..nfrag {
            let mut r = Rng::for_case(opts.seed ^ 0xF4A6, i);
            let chain = frag::gen_seq(&mut r, 3);
            let src = frag::src_seq(&chain);
            let unit = match compile_program(&src, &b) {
                Ok(u) => u,
                Err(e) => {
                    ev.hit("fragment.rejected");
                    eprintln!("fragment program rejected: {src}: {e:?}");
                    continue;
                }
            };
            let case = frag::prepare(&chain, &unit);
            ev.case(&format!("frag:{src}"), false);
            let answer = match &case.request {
                Some(req) => ck.model.ask(req),
                None => "no-request (instruction stream has fewer constants / tuples than the term)".to_string(),
            };
            let model_code = answer.strip_prefix("ok").map(|s| s.trim().to_string());
            if case.checks_ok && model_code.as_deref() == Some(case.real.as_str()) {
                equal += 1;
                ev.hit("fragment.instruction-sequences-equal");
                ev.hit(&format!("fragment.steps.{}", chain.len()));
                if i < 3 {
                    ev.sample(json!({"fragment_source": src, "instructions": case.real}));
                }
            } else {
                ev.hit("fragment.mismatch");
                let what = format!(
                    "the fragment compiler model (Compile0.lean, proved correct against M-VM) and quiver-compiler emit different code for `{}`: compiler `{}`, model `{}` {}",
                    src, case.real, answer, case.note
                );
                // the oracle on the implementation: does the compiled program still compute the spec's value?
                let conv = from_real::convert_source(&src);
                let mut concrete = false;
                let mut replay = json!({"broken": "correspondence compile0 model<->compiler.rs (instruction-sequence equality)", "source": src, "compiler": case.real, "model": answer, "note": case.note});
                if let Ok(p) = conv {
                    let (v, m, imp) = ck.check(&p);
                    if let Verdict::Disagree { model, imp: i2 } = v {
                        concrete = true;
                        replay = json!({"source": src, "sexpr": p.sx(), "implementation": i2, "reference": model, "compiler_instructions": case.real, "model_instructions": answer});
                    }
                    let _ = (m, imp);
                }
                ev.violation("fragment kind=instruction-sequence-differs", &what, replay, concrete);
            }
        }
        ev.set_extra("fragment_programs", json!({"generated": nfrag, "instruction_sequences_equal": equal}));
    }

    // ---- 2c. fragment compiler model WITH locals, bindings and simple matches (Compile1.lean) ---------
    {
        let b = qverif::run::builtins();
        let nfrag = opts.tier.pick(2500u64, 15000u64);
        let mut equal = 0u64;
        let mut values_equal = 0u64;
        for i in 0..nfrag {
            let mut r = Rng::for_case(opts.seed ^ 0xF1A6, i);
            let mut g = frag1::Gen { r: &mut r, env: vec![], counter: 0, blocks: i % 2 == 1, fns: i % 4 == 3, body_depth: 0, rec: i % 8 == 7, in_field: 0 };
            let seq = g.seq(2);
            let src = frag1::src_seq(&seq);
            let unit = match compile_program(&src, &b) {
                Ok(u) => u,
                Err(e) => {
                    ev.hit("fragment1.rejected");
                    eprintln!("fragment1 program rejected: {src}: {e:?}");
                    continue;
                }
            };
            let case = frag1::prepare(&seq, &unit);
            ev.case(&format!("frag1:{src}"), false);
            // block-free programs go to the model whose correctness is proved in C02Loc (Compile1), programs
            // with blocks to its extension Compile2
            let with_blocks = case.chains.as_deref().map(|c| c.contains("(blk")).unwrap_or(false);
            let with_fns = case.chains.as_deref().map(|c| c.contains("(fnlit") || c.contains("(call")).unwrap_or(false);
            let with_tail = case.chains.as_deref().map(|c| c.contains("(tail)") || c.contains("(bcall")).unwrap_or(false)
                || case.fns.contains("(tail)")
                || case.fns.contains("(bcall");
            let with_named = case.chains.as_deref().map(|c| c.contains("(tailn ")).unwrap_or(false) || case.fns.contains("(tailn ");
            let (creq, ereq) = if with_named {
                // named tail calls: Compile5 (correctness proved in C02TailN)
                (format!("compile5 {}", case.fns), format!("eval5 60 {} {}", case.bis, case.fns))
            } else if with_tail {
                // `^` and builtin calls: Compile4 (correctness proved in C02Tail)
                (format!("compile4 {}", case.fns), format!("eval4 60 {} {}", case.bis, case.fns))
            } else if with_fns {
                (format!("compile3 {}", case.fns), format!("eval3 60 {}", case.fns))
            } else if with_blocks {
                ("compile2".to_string(), "eval2".to_string())
            } else {
                ("compile1".to_string(), "eval1".to_string())
            };
            let answer = match &case.chains {
                Some(chs) => ck.model.ask(&format!("({creq} {chs})")),
                None => "no-request (instruction stream has fewer constants / tuples than the term)".to_string(),
            };
            let model_code = answer.strip_prefix("ok").map(|s| s.trim().to_string());
            if case.checks_ok && model_code.as_deref() == Some(case.real.as_str()) {
                equal += 1;
                ev.hit("fragment1.instruction-sequences-equal");
                ev.hit(&format!("fragment1.steps.{}", seq.len()));
                if case.real.contains("equal2") {
                    ev.hit("fragment1.with-literal-test");
                }
                if case.real.contains("get") {
                    ev.hit("fragment1.with-tuple-destructuring");
                }
                if case.real.contains("load") {
                    ev.hit("fragment1.with-variable-read");
                }
                if with_blocks {
                    ev.hit("fragment1.with-block");
                }
                if with_fns {
                    ev.hit("fragment1.with-functions");
                }
                if case.real.contains(" call") {
                    ev.hit("fragment1.with-call");
                }
                if case.real.contains("tailself") {
                    ev.hit("fragment1.with-tail-call");
                }
                if case.real.contains("builtin") {
                    ev.hit("fragment1.with-builtin-call");
                }
                if case.real.contains("tailnamed") {
                    ev.hit("fragment1.with-named-tail-call");
                }
                if case.real.contains("jump-") && case.real.contains("reset") && case.real.split(' ').any(|w| w.starts_with("jump-") && w != "jump-6" && w != "jump-7" && w != "jump-13") {
                    ev.hit("fragment1.with-cleanup-block");
                }
                if opts.has_flag("--dump-frag1") && with_tail {
                    eprintln!("FRAG1-TAIL\t{}", src);
                }
                if i < 3 || (with_tail && i < 64) {
                    ev.sample(json!({"fragment1_source": src, "instructions": case.real}));
                }
                // the meaning function of the correctness theorem vs the value the real VM computes
                let meaning = ck.model.ask(&format!("({ereq} {})", case.chains.as_deref().unwrap_or("")));
                // programs with tail calls first go through the worker thread (20 s timeout): a VM defect
                // can make a run hang INSIDE one Executor::step call, where no step budget helps
                if with_tail {
                    if ck.imp.dead {
                        continue;
                    }
                    if let Impl::Timeout = ck.imp.run(&src) {
                        ev.violation(
                            "fragment1 kind=impl-timeout",
                            &format!("the real VM does not finish `{src}` within 20 s; the meaning function of the fragment theorem gives `{}`", meaning.trim()),
                            json!({"source": src, "model": meaning.trim(), "real": "timeout"}),
                            true,
                        );
                        // the runaway run cannot be stopped (a thread), and it may grow without bound: report
                        // and leave at once, as the end of `main` does
                        let code = ev.finish();
                        std::process::exit(code);
                    }
                }
                let bc = unit.program.to_bytecode(Some(unit.entry));
                let real_value = match qverif::catch(|| run_limited(bc, &b, 1000)) {
                    Ok(Ok(Some((v, _)))) => format!("ok {}", frag1::show_value(&v)),
                    Ok(Ok(None)) => "step-budget-exhausted".to_string(),
                    Ok(Err(e)) => format!("error {e:?}"),
                    Err(p) => format!("panic {}", p.lines().next().unwrap_or("")),
                };
                let model_value = meaning.split_whitespace().take(2).collect::<Vec<_>>().join(" ");
                if model_value == real_value {
                    values_equal += 1;
                    ev.hit("fragment1.meaning-equals-real-value");
                    if real_value == "ok t(0;)" {
                        ev.hit("fragment1.value-nil");
                    }
                } else if real_value == "step-budget-exhausted" && !meaning.trim().starts_with("stuck") {
                    // call trees grow exponentially with the nesting of generated functions: a run that
                    // needs more than a million instruction units is not compared (the model's value is
                    // computed by structural recursion, it has no such budget)
                    ev.hit("fragment1.real-run-over-budget");
                } else if meaning.trim() == "stuck" && real_value == "step-budget-exhausted" {
                    // neither side terminates within its budget (the model's fuel, the VM's steps)
                    ev.hit("fragment1.both-out-of-budget");
                } else if meaning.trim() == "stuck" && real_value.starts_with("error") {
                    // a tuple pattern on the nil a failed match left in a variable: outside the typing
                    // assumption of the meaning function, a run-time error in the VM
                    ev.hit("fragment1.stuck-and-runtime-error");
                } else {
                    ev.hit("fragment1.meaning-differs");
                    if opts.has_flag("--dump-frag1") {
                        eprintln!("FRAG1-MEANING\t{}\t{}\t{}\t{}", src.len(), src, real_value, meaning);
                    }
                    let what = format!(
                        "the meaning function of the fragment theorem (C1.evalSq) and the real VM differ on `{}`: VM `{}`, evalSq `{}`",
                        src, real_value, meaning
                    );
                    ev.violation(
                        "fragment1 kind=meaning-differs",
                        &what,
                        json!({"broken": "C1.evalSq (statement of compileSq1_correct) vs real execution", "source": src, "real": real_value, "model": meaning}),
                        false,
                    );
                }
            } else {
                ev.hit("fragment1.mismatch");
                if opts.has_flag("--dump-frag1") {
                    eprintln!("FRAG1-MISMATCH\t{}\t{}\t{}\t{}\t{}", src.len(), src, case.real, answer, case.note);
                }
                let what = format!(
                    "the fragment compiler model (Compile1.lean, proved correct against M-VM) and quiver-compiler emit different code for `{}`: compiler `{}`, model `{}` {}",
                    src, case.real, answer, case.note
                );
                let conv = from_real::convert_source(&src);
                let mut concrete = false;
                let mut replay = json!({"broken": "correspondence compile1 model<->compiler.rs (instruction-sequence equality)", "source": src, "compiler": case.real, "model": answer, "note": case.note});
                if let Ok(p) = conv {
                    let (v, _m, _imp) = ck.check(&p);
                    if let Verdict::Disagree { model, imp: i2 } = v {
                        concrete = true;
                        replay = json!({"source": src, "sexpr": p.sx(), "implementation": i2, "reference": model, "compiler_instructions": case.real, "model_instructions": answer});
                    }
                }
                ev.violation("fragment1 kind=instruction-sequence-differs", &what, replay, concrete);
            }
        }
        ev.set_extra("fragment1_programs", json!({"generated": nfrag, "instruction_sequences_equal": equal, "meaning_equals_real_value": values_equal}));
    }

    // ---- 2d. programs over recursive type aliases (generated as source text, see listgen.rs) --------
    {
        let n = opts.tier.pick(1500u64, 12000u64);
        let mut agree = 0u64;
        for i in 0..n {
            if ck.imp.dead {
                break;
            }
            let mut r = Rng::for_case(opts.seed ^ 0x715F, i);
            let src = match i % 6 {
                2 | 5 => listgen::ListGen::new(&mut r).program_shapes(),
                3 => listgen::ListGen::new(&mut r).program_partials(),
                4 => listgen::ListGen::new(&mut r).program_generics(),
                _ => listgen::ListGen::new(&mut r).program(),
            };
            let p = match from_real::convert_source(&src) {
                Ok(p) => p,
                Err(e) => {
                    ev.hit("rectypes.unconvertible");
                    eprintln!("rectypes program outside the converter's fragment ({e}): {src}");
                    continue;
                }
            };
            let (v, m, imp) = ck.check_src(&p, &src);
            ev.case(&format!("rectypes:{src}"), m.starts_with("ok ") && m != "ok t(_;)");
            if i < 2 {
                ev.sample(json!({"rectypes_source": src, "reference": m}));
            }
            match v {
                Verdict::Agree => {
                    agree += 1;
                    ev.hit("rectypes.agree");
                    if src.starts_with("'s = ") {
                        ev.hit("rectypes.family-shapes");
                    }
                    if src.starts_with("'list<'t> = ") {
                        ev.hit("rectypes.family-generics");
                    }
                    if src.starts_with("'hx = ") {
                        ev.hit("rectypes.family-partial-parameters");
                    }
                    if src.contains("'tree {") {
                        ev.hit("rectypes.with-tree-function");
                    }
                    if src.contains("'list, 'list]") {
                        ev.hit("rectypes.with-list-to-list-function");
                    }
                    if src.contains("__integer_compare__") {
                        ev.hit("rectypes.with-guard");
                    }
                }
                Verdict::Skip(w) => {
                    ev.hit(&format!("rectypes.skip.{}", w.split(':').take(2).collect::<Vec<_>>().join(":")));
                    if opts.has_flag("--dump-rejects") {
                        eprintln!("RECTYPES-SKIP {w}\n    {src}");
                    }
                    if let Some(why) = w.strip_prefix("rejected:") {
                        // every program of this family is well typed by construction
                        ev.violation(
                            "rectypes kind=valid-program-rejected",
                            &format!("the compiler rejects a well-typed program over recursive type aliases: `{src}`: {why}"),
                            json!({"source": src, "sexpr": p.sx(), "why": why}),
                            true,
                        );
                    }
                }
                Verdict::Disagree { model, imp: i2 } => {
                    let _ = imp;
                    ev.hit("rectypes.disagree");
                    let kind = signature_of(&model, &i2).replace("core-program", "rectypes");
                    ev.violation(
                        &kind,
                        &format!("compiled program and reference semantics differ ({kind}): `{src}` runs to {i2} but docs/spec.md (reference evaluator) gives {model}"),
                        json!({"source": src, "sexpr": p.sx(), "implementation": i2, "reference": model}),
                        true,
                    );
                    if ev.violation_count() >= 5 {
                        break;
                    }
                }
            }
        }
        ev.set_extra("rectypes_programs", json!({"generated": n, "agree": agree}));
    }

    // ---- 3. generated programs ---------------------------------------------------------------------
    let n = opts.tier.pick(25000u64, 150000u64);
    let mut accepted = 0u64;
    let mut rejected = 0u64;
    let mut reject_kinds: HashMap<String, u64> = HashMap::new();
    let mut reject_samples: Vec<serde_json::Value> = vec![];
    let mut invalid = 0u64;
    let mut invalid_kinds: HashMap<String, u64> = HashMap::new();
    for i in 0..n {
        if ck.imp.dead {
            break;
        }
        // the generator steers, `validate` decides: redraw (deterministically) until the program lies
        // in the compared fragment
        let mut g = progen::Gen::new(Rng::for_case(opts.seed ^ 0xC02, i));
        let mut p = g.program();
        let mut ok = false;
        for attempt in 0..8u64 {
            match validate::validate(&p) {
                Ok(()) => {
                    ok = true;
                    break;
                }
                Err(why) => {
                    invalid += 1;
                    *invalid_kinds.entry(why.chars().take(70).collect()).or_insert(0) += 1;
                    if opts.has_flag("--dump-invalid") {
                        eprintln!("INVALID {why}\n    {}", p.src());
                    }
                    ev.hit("gen.redrawn-outside-validated-fragment");
                    g = progen::Gen::new(Rng::for_case(opts.seed ^ 0xC02 ^ ((attempt + 1) << 40), i));
                    p = g.program();
                }
            }
        }
        if !ok {
            ev.hit("gen.gave-up");
            continue;
        }
        let (v, m, imp) = ck.check(&p);
        match &imp {
            Impl::Rejected(r) => {
                rejected += 1;
                let k: String = r.split(':').take(2).collect::<Vec<_>>().join(":");
                *reject_kinds.entry(k).or_insert(0) += 1;
                if opts.has_flag("--dump-rejects") {
                    eprintln!("REJECT {r}\n    {}", p.src());
                }
                if reject_samples.len() < 6 {
                    reject_samples.push(json!({"source": p.src(), "why": r}));
                }
                ev.hit("gen.rejected");
                // (developer aid `--report-internal-errors`: shrink the compiler's InternalError rejections too)
                if r.starts_with("compile:VariableUndefined") || (opts.has_flag("--report-internal-errors") && r.starts_with("compile:InternalError")) {
                    report_rejected(&mut ev, &mut ck, &format!("gen:{i}"), &p, r, true);
                }
                continue;
            }
            _ => accepted += 1,
        }
        let nontrivial = m.starts_with("ok ")
            && m != "ok t(_;)"
            && g.features.iter().any(|f| {
                matches!(*f, "match-refutable" | "branches" | "consequence" | "closure-may-capture" | "tail-self" | "tail-named" | "bind-chain")
            });
        ev.case(&p.sx(), nontrivial);
        for f in &g.features {
            ev.hit(&format!("feature.{f}"));
        }
        let size = p.size();
        ev.hit(&format!("size.{}", if size < 20 { "<20" } else if size < 50 { "20-49" } else if size < 100 { "50-99" } else { ">=100" }));
        let outcome_class = if m.starts_with("ok t(_;)") && m.len() == 9 {
            "nil"
        } else if m.starts_with("ok ") {
            "value"
        } else {
            m.split(' ').next().unwrap_or("?")
        };
        ev.hit(&format!("reference-outcome.{outcome_class}"));
        ev.sample_sparse(i, 2500, || json!({"source": p.src(), "reference": m, "implementation": format!("{imp:?}")}));
        match v {
            Verdict::Agree => ev.hit("gen.agree"),
            Verdict::Skip(w) => ev.hit(&format!("gen.skip.{}", w.split(':').next().unwrap_or(""))),
            Verdict::Disagree { model, imp } => {
                ev.hit("gen.disagree");
                report(&mut ev, &mut ck, &format!("generated:seed={} case={i}", opts.seed), &p, &model, &imp, None);
                if ev.violation_count() >= 5 {
                    break;
                }
            }
        }
    }
    ev.set_extra("programs", json!(accepted));
    ev.set_extra(
        "generator",
        json!({
            "generated": accepted + rejected + invalid,
            "outside_validated_fragment": invalid,
            "outside_validated_fragment_kinds": invalid_kinds,
            "accepted_by_compiler": accepted,
            "rejected_by_compiler": rejected,
            "acceptance_rate": if accepted + rejected > 0 { accepted as f64 / (accepted + rejected) as f64 } else { 0.0 },
            "reject_kinds": reject_kinds,
            "reject_samples": reject_samples,
        }),
    );
    let code = ev.finish();
    // the implementation thread may be stuck in a non-terminating run: leave without joining it
    std::process::exit(code);
}
