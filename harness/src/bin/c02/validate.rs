//! Membership test for the fragment the differential compares: a checker that re-derives the
//! generator's static types on an arbitrary core AST (same over-approximation of the compiler's
//! inference) and rejects every program whose meaning `docs/spec.md` does not fix, that the compiler
//! is not expected to accept, that may not terminate, or that has the shape of an OPEN known finding:
//!
//!   * every variable read is definitely bound (never a variable of a possibly failed match);
//!   * callable-ness of everything read bare is statically evident; call arguments fit parameters;
//!   * no equality test on values that contain functions; run-time type tests only where decided;
//!   * `^`/`^f`/`^~` only in tail position, with arguments of the parameter type (F5), recursion
//!     only through the guarded count-down shape with small start values (termination);
//!   * F25: no nil-accepting pattern (other than `[]`) on a value whose type is `T | []`; variables
//!     of such a type are only observed in the program's final step;
//!   * open findings F37 (alternations only of literals / types / empty tuples, none inside a partial
//!     pattern), F40 (no same-scope rebinding of a name that was read or bound to a traceable value),
//!
//! Generated programs must pass (the generator is built to), and the shrinker only moves through
//! programs that pass — so a shrunk counterexample never drifts into unspecified territory or into
//! the shape of a known finding.
#![allow(dead_code)]
use super::ast::*;
use super::progen::{accepts_nil, pat_binds, pat_irrefutable, type_test_decided, verdict_type};

type R<T> = Result<T, String>;

#[derive(Clone, Debug, PartialEq)]
enum St {
    Definite,
    Pending,
    Dead,
}

#[derive(Clone, Debug)]
struct Var {
    name: String,
    ty: Ty,
    st: St,
    rec: bool,
    /// bound by a bare binder directly to a value the compiler can trace (parameter, variable):
    /// the variable inherits that provenance (open finding: its type goes stale when rebound)
    prov: bool,
    /// has been read (then the compiler may hold narrowings keyed by its name)
    used: std::cell::Cell<bool>,
    /// block / function nesting depth of the binding
    depth: u32,
}

impl Var {
    fn tainted(&self) -> bool {
        self.ty.contains_nil() && !self.ty.is_nil()
    }
}

#[derive(Clone, Debug, Default)]
struct Env {
    vars: Vec<Var>,
    depth: u32,
}

impl Env {
    fn lookup(&self, name: &str) -> Option<&Var> {
        self.vars.iter().rev().find(|v| v.name == name)
    }
    fn bind(&mut self, name: &str, ty: Ty, st: St) {
        self.vars.push(Var { name: name.to_string(), ty, st, rec: false, prov: false, used: std::cell::Cell::new(false), depth: self.depth });
    }
    fn settle(&mut self, names: &[String]) {
        for n in names {
            if let Some(v) = self.vars.iter_mut().rev().find(|v| &v.name == n) {
                if v.st == St::Pending {
                    v.st = St::Definite;
                }
            }
        }
    }
    fn kill_pending(&mut self) {
        for v in self.vars.iter_mut() {
            if v.st == St::Pending {
                v.st = St::Dead;
            }
        }
    }
    fn pending(&self) -> Vec<String> {
        self.vars.iter().filter(|v| v.st == St::Pending).map(|v| v.name.clone()).collect()
    }
    fn read(&self, x: &str) -> R<&Var> {
        match self.lookup(x) {
            None => Err(format!("unbound variable {x}")),
            Some(v) if v.st != St::Definite => Err(format!("variable {x} of a possibly failed match")),
            Some(v) if v.tainted() => Err(format!("variable {x} may be nil (F25: only observable)")),
            Some(v) => {
                v.used.set(true);
                Ok(v)
            }
        }
    }
}

#[derive(Clone, Debug)]
struct Cx {
    param: Option<Ty>,
    /// inside the guarded part of a count-down function
    rec: bool,
}

fn int2() -> Ty {
    Ty::Tup(None, vec![(None, Ty::Int), (None, Ty::Int)])
}

fn project(ty: &Ty, accs: &[Acc], what: &str) -> R<Ty> {
    let mut cur = ty.clone();
    for a in accs {
        let Ty::Tup(_, fs) = &cur else { return Err(format!("access into non-tuple type through {what}")) };
        cur = match a {
            Acc::Label(l) => fs.iter().find(|f| f.0.as_ref() == Some(l)).map(|f| f.1.clone()).ok_or(format!("no field {l} in {what}"))?,
            Acc::Index(i) => fs.get(*i).map(|f| f.1.clone()).ok_or(format!("no position {i} in {what}"))?,
        };
    }
    Ok(cur)
}

fn builtin_sig(name: &str) -> Option<(Ty, Ty)> {
    Some(match name {
        "integer_add" | "integer_subtract" | "integer_multiply" | "integer_divide" | "integer_modulo" | "integer_compare" => (int2(), Ty::Int),
        "integer_abs" => (Ty::Int, Ty::Int),
        "binary_length" => (Ty::Bin, Ty::Int),
        "binary_concat" => (Ty::Tup(None, vec![(None, Ty::Bin), (None, Ty::Bin)]), Ty::Bin),
        _ => return None,
    })
}

fn is_param_dec(terms: &[Term], base: &[Acc]) -> bool {
    // `[$<base>, k] __integer_subtract__` with a literal k >= 1
    if terms.len() != 2 {
        return false;
    }
    let Term::Tuple(TupName::Anon, fs) = &terms[0] else { return false };
    if !matches!(&terms[1], Term::Access(Src::Builtin(n), a) if n == "integer_subtract" && a.is_empty()) || fs.len() != 2 {
        return false;
    }
    let (Field::Val(None, a), Field::Val(None, b)) = (&fs[0], &fs[1]) else { return false };
    a.pat.is_none()
        && b.pat.is_none()
        && matches!(a.terms.as_slice(), [Term::Access(Src::Param, acc)] if acc.as_slice() == base)
        && matches!(b.terms.as_slice(), [Term::Lit(Lit::Int(k))] if *k >= 1)
}

fn is_small_int(terms: &[Term]) -> bool {
    match terms {
        [Term::Lit(Lit::Int(k))] => (-1..=9).contains(k),
        [.., Term::Tuple(TupName::Anon, fs), Term::Access(Src::Builtin(n), a)] if n == "integer_modulo" && a.is_empty() && fs.len() == 2 => {
            matches!(&fs[1], Field::Val(None, c) if c.pat.is_none() && matches!(c.terms.as_slice(), [Term::Lit(Lit::Int(k))] if (1..=9).contains(k)))
        }
        _ => false,
    }
}

/// the terms before position `i` of a chain build a small argument for a count-down function
fn small_arg_before(terms: &[Term], i: usize, p: &Ty) -> bool {
    match p {
        Ty::Int => {
            (i >= 1 && is_small_int(&terms[i - 1..i])) || (i >= 2 && is_small_int(&terms[i - 2..i]))
        }
        Ty::Tup(None, fs) if fs.len() == 2 => {
            i >= 1
                && matches!(&terms[i - 1], Term::Tuple(TupName::Anon, gs) if gs.len() == 2
                    && matches!(&gs[0], Field::Val(None, c) if c.pat.is_none() && is_small_int(&c.terms)))
        }
        _ => false,
    }
}

fn guard_chain(c: &Chain, p: &Ty) -> bool {
    let base: Vec<Acc> = if *p == Ty::Int { vec![] } else { vec![Acc::Index(0)] };
    if c.pat.is_some() || c.terms.len() != 3 {
        return false;
    }
    let Term::Tuple(TupName::Anon, fs) = &c.terms[0] else { return false };
    if fs.len() != 2 {
        return false;
    }
    let (Field::Val(None, a), Field::Val(None, b)) = (&fs[0], &fs[1]) else { return false };
    matches!(a.terms.as_slice(), [Term::Access(Src::Param, acc)] if *acc == base)
        && a.pat.is_none()
        && b.pat.is_none()
        && matches!(b.terms.as_slice(), [Term::Lit(Lit::Int(1))])
        && matches!(&c.terms[1], Term::Access(Src::Builtin(n), x) if n == "integer_compare" && x.is_empty())
        && matches!(&c.terms[2], Term::Match(Pat::Lit(Lit::Int(-1))))
}

struct V {
    /// flow state handed to nested tuple fields
    flow: std::cell::Cell<(bool, bool)>,
    /// the chain just checked ends in a refutable match on a traceable value
    last_narrows: std::cell::Cell<bool>,
    /// nesting depth of tuple fields (a field's chain never short-circuits anything)
    in_field: std::cell::Cell<u32>,
    /// inside the condition of a branch that has a consequence (open finding: the `=>` forward
    /// narrowing trusts the provenance of a mid-chain match)
    in_cond: std::cell::Cell<bool>,
    /// inside a condition with several matches (open finding: a nil test on a `T | []` value that
    /// another match follows makes the block's type lose nil)
    multi_match_cond: std::cell::Cell<bool>,
    /// inside the condition of a branch that is not the last one of its block (open finding:
    /// complement narrowing after a tuple pattern with several type-constraining sub-patterns)
    non_last_cond: std::cell::Cell<bool>,
    /// matches on traceable values (parameter / variable) seen in the current condition
    prov_matches: std::cell::Cell<u32>,
    /// inside the condition of any branch
    in_any_cond: std::cell::Cell<bool>,
    /// nesting depth of blocks below the enclosing function body (0 = the body's own branches)
    fn_block_depth: std::cell::Cell<u32>,
}

impl V {
    // ---------------------------------------------------------------------------------------------
    // patterns
    // ---------------------------------------------------------------------------------------------

    fn check_sub(&self, env: &Env, pat: &Pat, ty: &Ty, seen: &mut Vec<(String, Ty)>, in_alt: bool) -> R<()> {
        let bind = |x: &String, t: &Ty, seen: &mut Vec<(String, Ty)>| -> R<()> {
            if in_alt {
                return Err("binder inside an alternation".into());
            }
            if let Some((_, first)) = seen.iter().find(|s| &s.0 == x) {
                if first.has_fn() || t.has_fn() {
                    return Err("repeated binder compares functions".into());
                }
                return Ok(());
            }
            seen.push((x.clone(), t.clone()));
            Ok(())
        };
        match pat {
            Pat::Wild | Pat::Lit(_) | Pat::Str(_) => Ok(()),
            Pat::Bind(x) => bind(x, ty, seen),
            Pat::Pin(x) => {
                let v = env.read(x)?;
                if v.ty.has_fn() || ty.has_fn() {
                    return Err("pin compares functions".into());
                }
                Ok(())
            }
            Pat::Type(t) => {
                if t.has_fn() || !type_test_decided(t, ty) {
                    return Err("type test not statically decided".into());
                }
                Ok(())
            }
            Pat::As(t, x) => {
                if t.has_fn() || !type_test_decided(t, ty) {
                    return Err("type test not statically decided".into());
                }
                let vs: Vec<Ty> = ty.variants().into_iter().filter(|v| v.sub(t)).collect();
                let bt = if vs.is_empty() { t.clone() } else { Ty::union(vs) };
                bind(x, &bt, seen)
            }
            Pat::Tup(n, pfs) => {
                for v in ty.variants() {
                    let Ty::Tup(m, fs) = &v else { continue };
                    if n != m || fs.len() != pfs.len() || fs.iter().zip(pfs).any(|(f, p)| f.0 != p.0) {
                        continue;
                    }
                    for ((_, t), (_, p)) in fs.iter().zip(pfs) {
                        if t.variants().len() >= 2 && !matches!(p, Pat::Bind(_) | Pat::Wild | Pat::Lit(_) | Pat::Str(_) | Pat::Pin(_)) && !non_narrowing(p, t) {
                            return Err("sub-pattern narrows a union-typed FIELD (open finding: later run-time tests expect the narrowed tuple id, the value keeps its construction-site id)".into());
                        }
                        // a binder's type is the union over the variants: check against each
                        let mut local = seen.clone();
                        self.check_sub(env, p, t, &mut local, in_alt)?;
                    }
                }
                // record binders with their merged types
                if let Some(b) = pat_binds(pat, ty) {
                    for (x, t) in b {
                        if !seen.iter().any(|s| s.0 == x) {
                            seen.push((x, t));
                        }
                    }
                }
                Ok(())
            }
            Pat::Part(_, pfs) => {
                for v in ty.variants() {
                    let Ty::Tup(_, fs) = &v else { continue };
                    for (l, p) in pfs {
                        if let Some((_, t)) = fs.iter().find(|f| f.0.as_ref() == Some(l)) {
                            if t.variants().len() >= 2 && !matches!(p, None | Some(Pat::Bind(_)) | Some(Pat::Wild) | Some(Pat::Lit(_)) | Some(Pat::Str(_)) | Some(Pat::Pin(_))) {
                                return Err("sub-pattern narrows a union-typed FIELD (open finding: narrowed tuple id)".into());
                            }
                            match p {
                                None => {
                                    let mut local = seen.clone();
                                    bind(l, t, &mut local)?;
                                }
                                Some(p) => {
                                    let mut local = seen.clone();
                                    self.check_sub(env, p, t, &mut local, in_alt)?;
                                }
                            }
                        }
                    }
                }
                if let Some(b) = pat_binds(pat, ty) {
                    for (x, t) in b {
                        if !seen.iter().any(|s| s.0 == x) {
                            seen.push((x, t));
                        }
                    }
                }
                Ok(())
            }
            Pat::Star(_) => {
                if ty.variants().len() != 1 {
                    return Err("star pattern on a union".into());
                }
                if let Some(b) = pat_binds(pat, ty) {
                    for (x, t) in b {
                        bind(&x, &t, seen)?;
                    }
                }
                Ok(())
            }
            Pat::Alt(ps) => {
                // `(Name[v] | v)`: the one alternation with binders in the fragment
                if let Some((v, t)) = super::progen::unwrap_or_self(ps, ty) {
                    if in_alt || seen.iter().any(|s| s.0 == v) {
                        return Err("nested / repeated unwrap-or-self alternation".into());
                    }
                    seen.push((v, t));
                    return Ok(());
                }
                for p in ps {
                    self.check_sub(env, p, ty, seen, true)?;
                }
                Ok(())
            }
        }
    }

    /// binds the pattern's variables in `env`; returns (verdict type, refutable?)
    fn check_pat(&self, env: &mut Env, pat: &Pat, ty: &Ty, binding: bool, prov: bool) -> R<(Ty, bool)> {
        if binding && matches!(pat, Pat::Type(_)) {
            return Err("type pattern at the start of a chain reads as a type alias".into());
        }
        if ty.is_never() {
            return Err("match on a value of type never".into());
        }
        let maybe_nil = ty.contains_nil() && !ty.is_nil();
        if maybe_nil && accepts_nil(pat) && !matches!(pat, Pat::Tup(None, fs) if fs.is_empty()) {
            return Err("nil-accepting pattern on a value that may be nil (F25)".into());
        }
        if self.non_last_cond.get() && ty.has_union() && constraining_subpatterns(pat) >= 2 {
            return Err("tuple pattern with several type-constraining sub-patterns on a union-typed value in a non-last branch (open finding: complement narrowing)".into());
        }
        let mut bound = vec![];
        pat.vars(&mut bound);
        if let Some(b) = pat_binds(pat, ty) {
            for (x, _) in b {
                if !bound.contains(&x) {
                    bound.push(x);
                }
            }
        }
        if non_type_alt_inside_partial(pat, false) {
            return Err("alternation of non-types inside a partial pattern (does not parse: a partial pattern's field takes a type union)".into());
        }
        let mut seen = vec![];
        self.check_sub(env, pat, ty, &mut seen, false)?;
        let binds = pat_binds(pat, ty);
        let irref = binds.is_some() && pat_irrefutable(pat, ty);
        let mut all = vec![];
        pat.vars(&mut all);
        let b = binds.unwrap_or_default();
        for (x, _) in &b {
            if !all.contains(x) {
                all.push(x.clone());
            }
        }
        for x in all {
            let t = b.iter().find(|e| e.0 == x).map(|e| e.1.clone());
            match t {
                Some(t) => env.bind(&x, t, if irref { St::Definite } else { St::Pending }),
                None => env.bind(&x, Ty::nil(), St::Dead),
            }
            if prov && matches!(pat, Pat::Bind(_) | Pat::As(..)) {
                env.vars.last_mut().unwrap().prov = true;
            }
        }
        let vty = verdict_type(pat, ty, irref);
        Ok((vty, !irref))
    }

    // ---------------------------------------------------------------------------------------------
    // terms
    // ---------------------------------------------------------------------------------------------

    fn call(&self, f: &Ty, tin: &Ty, rec: bool, terms: &[Term], i: usize) -> R<Ty> {
        let Ty::Fn(p, r) = f else { unreachable!() };
        if rec && !small_arg_before(terms, i, p) {
            return Err("count-down function called with an argument not known to be small".into());
        }
        if p.is_nil() || tin.sub(p) {
            Ok((**r).clone())
        } else {
            Err(format!("argument {} does not fit parameter {}", tin.src(), p.src()))
        }
    }

    /// does the term consume the flowing value?
    fn uses_flow(&self, env: &Env, t: &Term, cx: &Cx) -> bool {
        match t {
            Term::Lit(_) | Term::Str(_) | Term::Fn { .. } | Term::Ref(..) => false,
            Term::Match(_) | Term::Block(_) | Term::Tail(_) | Term::TailRipple => true,
            // a hole receives the flowing value like a tuple field
            Term::Interp(segs) => segs.iter().any(|g| matches!(g, Seg::Hole(_))),
            Term::Access(Src::Ripple, _) | Term::Access(Src::Builtin(_), _) => true,
            Term::Access(Src::Var(x), accs) => match env.lookup(x).and_then(|v| project(&v.ty, accs, x).ok()) {
                Some(Ty::Fn(p, _)) => !p.is_nil(),
                _ => false,
            },
            Term::Access(Src::Param, accs) => match cx.param.as_ref().and_then(|p| project(p, accs, "$").ok()) {
                Some(Ty::Fn(p, _)) => !p.is_nil(),
                _ => false,
            },
            Term::Tuple(_, fs) => fs.iter().any(|f| match f {
                Field::Val(_, c) => c.terms.first().map(|t| self.uses_flow(env, t, cx)).unwrap_or(true),
                Field::Spread(None) => true,
                Field::Spread(Some(_)) => false,
            }),
        }
    }

    /// Flow state: `.0` = the flow is the verdict of a match that has just run, `.1` = the compiler
    /// may attach the provenance of a variable / parameter to the flow. Open finding "verdict
    /// carries the matched value's provenance": a verdict with provenance must not be consumed.
    fn terms(&self, env: &mut Env, tin: &Ty, terms: &[Term], tail: bool, cx: &Cx, fs: (bool, bool)) -> R<(Ty, (bool, bool))> {
        if terms.is_empty() {
            return Err("empty chain".into());
        }
        let mut cur = tin.clone();
        let (mut after_match, mut prov) = fs;
        let mut last_match_narrows = false;
        for (i, t) in terms.iter().enumerate() {
            if i > 0 {
                env.kill_pending();
                if cur.is_never() {
                    return Err("term after a tail call".into());
                }
                if matches!(terms[i - 1], Term::Fn { body: None, .. }) && matches!(t, Term::Block(_)) {
                    return Err("`#T` directly before a block prints ambiguously".into());
                }
            }
            // open finding "mid-chain match narrows the rest of the chain": a refutable match whose
            // scrutinee may carry provenance (variable, parameter, `~`) ends its chain
            let is_last = i + 1 == terms.len();
            self.flow.set((after_match, prov));
            let before = cur.clone();
            let _ = &before;
            cur = self.term(env, &cur, terms, i, tail && is_last, cx)?;
            match t {
                Term::Match(p) => {
                    // refutable in the generator's view (the verdict may be nil for a reason other
                    // than a nil-able scrutinee) and the scrutinee is traceable to a name
                    let refutable = !(pat_binds(p, &before).is_some() && pat_irrefutable(p, &before));
                    last_match_narrows = refutable && prov && !after_match;
                    if prov && !after_match {
                        self.prov_matches.set(self.prov_matches.get() + 1);
                    }
                    after_match = true
                }
                _ => {
                    after_match = false;
                    prov = match t {
                        Term::Access(Src::Ripple, _) => prov,
                        Term::Access(Src::Var(_), _) | Term::Access(Src::Param, _) => !self.uses_flow(env, t, cx),
                        Term::Ref(..) | Term::Tuple(..) => true,
                        _ => false,
                    };
                }
            }
        }
        self.last_narrows.set(last_match_narrows && matches!(terms.last(), Some(Term::Match(_))));
        Ok((cur, (after_match, prov)))
    }

    fn term(&self, env: &mut Env, tin: &Ty, terms: &[Term], i: usize, tail: bool, cx: &Cx) -> R<Ty> {
        let t = &terms[i];
        match t {
            Term::Lit(Lit::Int(_)) => Ok(Ty::Int),
            Term::Lit(Lit::Bin(_)) => Ok(Ty::Bin),
            Term::Str(_) => Ok(Ty::str_()),
            Term::Interp(segs) => {
                // every hole is a block (scope) on the flowing value and must be a `Str`
                for g in segs {
                    if let Seg::Hole(e) = g {
                        let hole = [Term::Block(e.clone())];
                        let ty = self.term(env, tin, &hole, 0, false, cx)?;
                        if ty != Ty::str_() {
                            return Err(format!("string hole of type {} (must be exactly Str)", ty.src()));
                        }
                    }
                }
                Ok(Ty::str_())
            }
            Term::Tuple(name, fields) => {
                let mut ftys: Vec<(Option<String>, Ty)> = vec![];
                let fs = self.flow.get();
                let mut inherited: Option<Option<String>> = None;
                let has_spread = fields.iter().any(|f| matches!(f, Field::Spread(_)));
                for f in fields {
                    match f {
                        Field::Spread(src) => {
                            let sty = match src {
                                None => tin.clone(),
                                Some(x) => env.read(x)?.ty.clone(),
                            };
                            let Ty::Tup(n, sfs) = sty else { return Err("spread of a value whose type is not exactly one tuple type".into()) };
                            if inherited.is_none() {
                                inherited = Some(n);
                            }
                            for (l, t) in sfs {
                                set_or_append(&mut ftys, l, t);
                            }
                        }
                        Field::Val(l, c) => {
                            // a field-level binding `x = chain` (it binds in the ENCLOSING scope; the
                            // field's value is the verdict): bare binders only
                            if !matches!(&c.pat, None | Some(Pat::Bind(_))) {
                                return Err("binding chain with a non-binder pattern inside a tuple field".into());
                            }
                            env.kill_pending();
                            self.in_field.set(self.in_field.get() + 1);
                            let r = if c.pat.is_some() {
                                if matches!(c.terms.as_slice(), [Term::Fn { .. }]) {
                                    self.in_field.set(self.in_field.get() - 1);
                                    return Err("function definition inside a tuple field".into());
                                }
                                self.chain(env, tin, c, false, cx, fs).map(|(ty, _, f)| (ty, f))
                            } else {
                                self.terms(env, tin, &c.terms, false, cx, fs)
                            };
                            self.in_field.set(self.in_field.get() - 1);
                            let (ty, _) = r?;
                            env.kill_pending();
                            if ty.is_never() {
                                return Err("never-typed field".into());
                            }
                            if let Some(l) = l {
                                if !has_spread && ftys.iter().any(|(k, _)| k.as_ref() == Some(l)) {
                                    return Err("duplicate field label".into());
                                }
                                if fields.iter().filter(|g| matches!(g, Field::Val(Some(k), _) if k == l)).count() > 1 {
                                    return Err("duplicate field label".into());
                                }
                            }
                            set_or_append(&mut ftys, l.clone(), ty);
                        }
                    }
                }
                let n = match name {
                    TupName::Anon => None,
                    TupName::Named(n) => Some(n.clone()),
                    TupName::Inherit => match (&inherited, fields.first()) {
                        (Some(n), Some(Field::Spread(first))) => {
                            // `x[..., …]`: inside the brackets a bare `...` means "x again", so a later spread
                            // of the FLOWING value cannot be written there — the printed source would denote
                            // another program
                            if first.is_some() && fields.iter().skip(1).any(|f| matches!(f, Field::Spread(None))) {
                                return Err("spread of the flowing value inside `x[..., …]` (not expressible: `...` there means x)".into());
                            }
                            n.clone()
                        }
                        _ => return Err("inherited tuple name without a leading spread".into()),
                    },
                };
                Ok(Ty::Tup(n, ftys))
            }
            Term::Match(p) => {
                let (vty, _) = self.check_pat(env, p, tin, false, self.flow.get().1 && !self.flow.get().0)?;
                Ok(vty)
            }
            Term::Block(e) => {
                let mut inner = Env { vars: env.vars.clone(), depth: env.depth + 1 };
                inner.kill_pending();
                let depth = self.in_field.replace(0);
                let ic = self.in_cond.replace(false);
                let mm = self.multi_match_cond.replace(false);
                let nl = self.non_last_cond.replace(false);
                let pm = self.prov_matches.get();
                let ac = self.in_any_cond.replace(false);
                self.fn_block_depth.set(self.fn_block_depth.get() + 1);
                let r = self.branches(&inner, tin, e, tail, cx);
                self.fn_block_depth.set(self.fn_block_depth.get() - 1);
                self.in_any_cond.set(ac);
                self.prov_matches.set(pm);
                self.in_field.set(depth);
                self.in_cond.set(ic);
                self.multi_match_cond.set(mm);
                self.non_last_cond.set(nl);
                r
            }
            Term::Fn { param, body } => {
                let depth = self.in_field.replace(0);
                let ic = self.in_cond.replace(false);
                let mm = self.multi_match_cond.replace(false);
                let nl = self.non_last_cond.replace(false);
                let pm = self.prov_matches.get();
                let ac = self.in_any_cond.replace(false);
                let bd = self.fn_block_depth.replace(0);
                let r = self.function(env, param, body);
                self.fn_block_depth.set(bd);
                self.in_any_cond.set(ac);
                self.prov_matches.set(pm);
                self.in_field.set(depth);
                self.in_cond.set(ic);
                self.multi_match_cond.set(mm);
                self.non_last_cond.set(nl);
                let (ty, rec) = r?;
                if rec {
                    return Err("count-down function not bound to a name".into());
                }
                Ok(ty)
            }
            Term::Access(Src::Ripple, accs) => project(tin, accs, "~"),
            Term::Access(Src::Builtin(n), accs) => {
                let (p, r) = builtin_sig(n).ok_or("builtin outside the fragment")?;
                if !accs.is_empty() || !tin.sub(&p) {
                    return Err(format!("builtin {n} applied to {}", tin.src()));
                }
                Ok(r)
            }
            Term::Access(Src::Var(x), accs) => {
                let v = env.read(x)?.clone();
                let ty = project(&v.ty, accs, x)?;
                match &ty {
                    Ty::Fn(..) => self.call(&ty, tin, v.rec, terms, i),
                    _ if ty.top_fn() => Err(format!("callable-ness of {x} not statically evident")),
                    _ => Ok(ty),
                }
            }
            Term::Access(Src::Param, accs) => {
                let p = cx.param.clone().ok_or("$ outside a function")?;
                let ty = project(&p, accs, "$")?;
                match &ty {
                    Ty::Fn(..) => self.call(&ty, tin, false, terms, i),
                    _ if ty.top_fn() => Err("callable-ness of $ not statically evident".into()),
                    _ => Ok(ty),
                }
            }
            Term::Ref(Src::Var(x), accs) => {
                let v = env.read(x)?.clone();
                if v.rec {
                    return Err("count-down function passed by value".into());
                }
                project(&v.ty, accs, x)
            }
            Term::Ref(Src::Param, accs) => {
                let p = cx.param.clone().ok_or("$ outside a function")?;
                project(&p, accs, "$")
            }
            Term::Ref(Src::Builtin(n), _) => {
                let (p, r) = builtin_sig(n).ok_or("builtin outside the fragment")?;
                Ok(Ty::Fn(Box::new(p), Box::new(r)))
            }
            Term::Ref(Src::Ripple, _) => Err("&~".into()),
            Term::Tail(None) => {
                if !tail || !cx.rec {
                    return Err("`^` outside the guarded tail position of a count-down function".into());
                }
                let p = cx.param.clone().unwrap();
                let ok = match &p {
                    Ty::Int => i >= 2 && is_param_dec(&terms[i - 2..i], &[]),
                    Ty::Tup(None, fs) if fs.len() == 2 => {
                        i >= 1
                            && matches!(&terms[i - 1], Term::Tuple(TupName::Anon, gs) if gs.len() == 2
                                && matches!(&gs[0], Field::Val(None, c) if c.pat.is_none() && is_param_dec(&c.terms, &[Acc::Index(0)])))
                    }
                    _ => false,
                };
                if !ok || !tin.sub(&p) {
                    return Err("`^` argument is not a decrement of the parameter".into());
                }
                Ok(Ty::never())
            }
            Term::Tail(Some((x, accs))) => {
                if !tail || cx.param.is_none() {
                    return Err("`^f` outside tail position".into());
                }
                let v = env.read(x)?.clone();
                let ty = project(&v.ty, accs, x)?;
                let Ty::Fn(p, r) = &ty else { return Err("`^f` of a non-function".into()) };
                if v.rec && !small_arg_before(terms, i, p) {
                    return Err("count-down function tail-called with an argument not known to be small".into());
                }
                // F5: the compiler does not check the argument; a nilary target must get nil
                if !(tin.sub(p)) {
                    return Err("`^f` argument does not fit the parameter".into());
                }
                Ok((**r).clone())
            }
            Term::TailRipple => {
                if !tail || cx.param.is_none() {
                    return Err("`^~` outside tail position".into());
                }
                match tin {
                    Ty::Fn(p, r) if p.is_nil() => Ok((**r).clone()),
                    _ => Err("`^~` of a non-nilary flow".into()),
                }
            }
        }
    }

    // ---------------------------------------------------------------------------------------------
    // chains, sequences, blocks, functions
    // ---------------------------------------------------------------------------------------------

    /// returns (type, variables pending on the chain's success)
    fn chain(&self, env: &mut Env, tin: &Ty, c: &Chain, tail: bool, cx: &Cx, fs: (bool, bool)) -> R<(Ty, Vec<String>, (bool, bool))> {
        // f = #T { … }
        if let (Some(Pat::Bind(name)), [Term::Fn { param, body }]) = (&c.pat, c.terms.as_slice()) {
            let (ty, rec) = self.function(env, param, body)?;
            env.bind(name, ty, St::Definite);
            env.vars.last_mut().unwrap().rec = rec;
            return Ok((Ty::ok(), vec![], (true, false)));
        }
        let (ty, fs_out) = self.terms(env, tin, &c.terms, tail && c.pat.is_none(), cx, fs)?;
        match &c.pat {
            Some(p) => {
                if ty.is_never() {
                    return Err("binding a tail call".into());
                }
                env.kill_pending();
                if fs_out.1 && !fs_out.0 {
                    self.prov_matches.set(self.prov_matches.get() + 1);
                }
                let (vty, refutable) = self.check_pat(env, p, &ty, true, fs_out.1 && !fs_out.0)?;
                Ok((vty, if refutable { env.pending() } else { vec![] }, (true, fs_out.1)))
            }
            None => {
                if matches!(c.terms.last(), Some(Term::Match(_))) {
                    Ok((ty, env.pending(), fs_out))
                } else {
                    env.kill_pending();
                    Ok((ty, vec![], fs_out))
                }
            }
        }
    }

    fn seq(&self, env: &mut Env, tin: &Ty, cs: &[Chain], tail: bool, cx: &Cx) -> R<(Ty, Vec<String>)> {
        // a sequence starts from the block parameter (provenance known), not from a verdict
        let mut fs = (false, true);
        if cs.is_empty() {
            return Err("empty sequence".into());
        }
        let mut input = tin.clone();
        let mut may_nil = false;
        let mut last = tin.clone();
        let mut pending = vec![];
        for (i, c) in cs.iter().enumerate() {
            let is_last = i + 1 == cs.len();
            let (ty, pend, fs_out) = self.chain(env, &input, c, tail && is_last, cx, fs)?;
            fs = fs_out;
            last = if may_nil { ty.with_nil() } else { ty.clone() };
            pending = pend;
            if !is_last {
                if ty.is_nil() || ty.is_never() {
                    return Err("statically dead steps".into());
                }
                env.settle(&pending);
                env.kill_pending();
                pending.clear();
                if ty.contains_nil() {
                    may_nil = true;
                }
                input = ty.without_nil();
            }
        }
        Ok((last, pending))
    }

    fn branches(&self, env: &Env, tin: &Ty, e: &Expr, tail: bool, cx: &Cx) -> R<Ty> {
        self.branches_from(env, tin, &e.branches, tail, cx, cx)
    }

    /// `cx_first` applies to the first branch (the guard of a count-down function), `cx` to the rest
    fn branches_from(&self, env: &Env, tin: &Ty, bs: &[Branch], tail: bool, cx_first: &Cx, cx: &Cx) -> R<Ty> {
        if bs.is_empty() {
            return Err("empty block".into());
        }
        let mut types: Vec<Ty> = vec![];
        let mut exhaustive = false;
        for (i, b) in bs.iter().enumerate() {
            let is_last = i + 1 == bs.len();
            let c = if i == 0 { cx_first } else { cx };
            let mut benv = Env { vars: env.vars.clone(), depth: env.depth + 1 };
            benv.kill_pending();
            let ic = self.in_cond.replace(b.cons.is_some());
            let mm = self.multi_match_cond.replace(cond_match_count(&b.cond) >= 2);
            let nl = self.non_last_cond.replace(!is_last);
            self.prov_matches.set(0);
            let ac = self.in_any_cond.replace(true);
            let r = self.seq(&mut benv, tin, &b.cond, tail && b.cons.is_none() && is_last, c);
            self.in_any_cond.set(ac);
            self.in_cond.set(ic);
            self.multi_match_cond.set(mm);
            self.non_last_cond.set(nl);
            let (cty, pending) = r?;
            if cty.is_nil() {
                if b.cons.is_some() {
                    return Err("consequence of a statically dead condition".into());
                }
                if is_last {
                    types.push(Ty::nil());
                }
                continue;
            }
            match &b.cons {
                Some(k) => {
                    if cty.is_never() {
                        return Err("consequence after a tail call".into());
                    }
                    benv.settle(&pending);
                    benv.kill_pending();
                    let (kty, _) = self.seq(&mut benv, tin, k, tail, c)?;
                    types.push(kty);
                    if is_last && !cty.contains_nil() {
                        exhaustive = true;
                    }
                }
                None => {
                    if is_last {
                        types.push(cty.clone());
                        if !cty.contains_nil() {
                            exhaustive = true;
                        }
                    } else {
                        let t = cty.without_nil();
                        if !t.is_never() || cty.is_never() {
                            types.push(t);
                        }
                    }
                }
            }
        }
        if !exhaustive {
            types.push(Ty::nil());
        }
        Ok(Ty::union(types))
    }

    fn function(&self, env: &Env, param: &Ty, body: &Option<Expr>) -> R<(Ty, bool)> {
        let mut cap = Env { vars: env.vars.clone(), depth: env.depth + 1 };
        cap.kill_pending();
        // a function body is compiled with a fresh scope stack: captures are plain locals without
        // provenance, and no narrowing recorded outside is visible inside — rebinding a captured name
        // inside the body is not the open "stale type after rebinding" shape
        for v in cap.vars.iter_mut() {
            v.prov = false;
            v.used.set(false);
        }
        let Some(body) = body else {
            if param.is_nil() {
                return Err("identity function of nil".into());
            }
            return Ok((Ty::Fn(Box::new(param.clone()), Box::new(param.clone())), false));
        };
        let guard_shaped = (*param == Ty::Int || matches!(param, Ty::Tup(None, fs) if fs.len() == 2 && fs[0].1 == Ty::Int && fs[0].0.is_none()))
            && body.branches.len() >= 2
            && body.branches[0].cons.is_some()
            && body.branches[0].cond.len() == 1
            && guard_chain(&body.branches[0].cond[0], param);
        let cx0 = Cx { param: Some(param.clone()), rec: false };
        let r = if guard_shaped {
            let cx1 = Cx { param: Some(param.clone()), rec: true };
            self.branches_from(&cap, param, &body.branches, true, &cx0, &cx1)?
        } else {
            self.branches_from(&cap, param, &body.branches, true, &cx0, &cx0)?
        };
        let r = if r.is_never() { Ty::nil() } else { r };
        // a guard-shaped function is treated as a count-down function (small arguments only)
        Ok((Ty::Fn(Box::new(param.clone()), Box::new(r)), guard_shaped))
    }
}

/// sub-patterns (below the top) that constrain the TYPE of their position
fn constraining_subpatterns(p: &Pat) -> usize {
    fn one(q: &Pat) -> usize {
        match q {
            Pat::Bind(_) | Pat::Wild | Pat::Lit(_) | Pat::Str(_) | Pat::Pin(_) => 0,
            Pat::Tup(_, fs) => 1 + fs.iter().map(|(_, r)| one(r)).sum::<usize>(),
            Pat::Part(_, fs) => 1 + fs.iter().map(|(_, r)| r.as_ref().map(one).unwrap_or(0)).sum::<usize>(),
            Pat::Star(_) | Pat::Type(_) | Pat::As(..) | Pat::Alt(_) => 1,
        }
    }
    match p {
        Pat::Tup(_, fs) => fs.iter().map(|(_, r)| one(r)).sum(),
        Pat::Part(_, fs) => fs.iter().map(|(_, r)| r.as_ref().map(one).unwrap_or(0)).sum(),
        _ => 0,
    }
}

fn pins_of(p: &Pat) -> Vec<String> {
    match p {
        Pat::Pin(x) => vec![x.clone()],
        Pat::Tup(_, fs) => fs.iter().flat_map(|(_, q)| pins_of(q)).collect(),
        Pat::Part(_, fs) => fs.iter().flat_map(|(_, q)| q.as_ref().map(pins_of).unwrap_or_default()).collect(),
        Pat::Alt(ps) => ps.iter().flat_map(pins_of).collect(),
        _ => vec![],
    }
}

/// a binder that occurs twice with at least one occurrence below the top level of a tuple pattern
/// A structured sub-pattern on a union-typed field that accepts EVERY variant of the field's type and
/// constrains nothing inside (binders / placeholders only): the field's type after the match is the
/// type before it, so the open finding about narrowed field types (the tuple id later tests expect)
/// does not apply.
fn non_narrowing(p: &Pat, t: &Ty) -> bool {
    let plain = |q: &Pat| matches!(q, Pat::Bind(_) | Pat::Wild);
    match p {
        Pat::Tup(n, pfs) => {
            pfs.iter().all(|(_, q)| plain(q))
                && t.variants().iter().all(|v| match v {
                    Ty::Tup(m, fs) => m == n && fs.len() == pfs.len() && fs.iter().zip(pfs).all(|(f, q)| f.0 == q.0 && !f.1.contains_nil()),
                    _ => false,
                })
        }
        Pat::Part(n, pfs) => {
            pfs.iter().all(|(_, q)| q.as_ref().map(|q| plain(q)).unwrap_or(true))
                && t.variants().iter().all(|v| match v {
                    Ty::Tup(m, fs) => {
                        (n.is_none() || m == n)
                            && pfs.iter().all(|(l, _)| fs.iter().any(|f| f.0.as_ref() == Some(l) && !f.1.contains_nil()))
                    }
                    _ => false,
                })
        }
        _ => false,
    }
}

fn nested_repeat(p: &Pat) -> bool {
    fn collect(q: &Pat, depth: usize, out: &mut Vec<(String, usize)>) {
        match q {
            Pat::Bind(x) | Pat::As(_, x) => out.push((x.clone(), depth)),
            Pat::Tup(_, fs) => fs.iter().for_each(|(_, r)| collect(r, depth + 1, out)),
            Pat::Part(_, fs) => fs.iter().for_each(|(l, r)| match r {
                Some(r) => collect(r, depth + 1, out),
                None => out.push((l.clone(), depth + 1)),
            }),
            _ => {}
        }
    }
    let mut occ = vec![];
    collect(p, 0, &mut occ);
    occ.iter().enumerate().any(|(i, (x, d))| occ.iter().enumerate().any(|(j, (y, e))| i != j && x == y && (*d >= 2 || *e >= 2)))
}

fn pat_has_value_requirement_below(p: &Pat) -> bool {
    match p {
        Pat::Tup(_, fs) => fs.iter().any(|(_, q)| matches!(q, Pat::Lit(_) | Pat::Str(_) | Pat::Pin(_)) || pat_has_value_requirement_below(q)),
        Pat::Part(_, fs) => fs.iter().any(|(_, q)| q.as_ref().map(|q| matches!(q, Pat::Lit(_) | Pat::Str(_) | Pat::Pin(_)) || pat_has_value_requirement_below(q)).unwrap_or(false)),
        _ => false,
    }
}

fn non_type_alt_inside_partial(p: &Pat, inside: bool) -> bool {
    match p {
        Pat::Alt(ps) => (inside && ps.iter().any(|q| !matches!(q, Pat::Type(_)) && !matches!(q, Pat::Tup(_, fs) if fs.is_empty()))) || ps.iter().any(|q| non_type_alt_inside_partial(q, inside)),
        Pat::Tup(_, fs) => fs.iter().any(|(_, q)| non_type_alt_inside_partial(q, inside)),
        Pat::Part(_, fs) => fs.iter().any(|(_, q)| q.as_ref().map(|q| non_type_alt_inside_partial(q, true)).unwrap_or(false)),
        _ => false,
    }
}

fn alt_of_structured(p: &Pat) -> bool {
    match p {
        Pat::Alt(ps) if matches!(ps.as_slice(), [Pat::Tup(Some(_), fs), Pat::Bind(v)] if matches!(fs.as_slice(), [(None, Pat::Bind(w))] if w == v)) => false,
        Pat::Alt(ps) => ps.iter().any(|q| !matches!(q, Pat::Lit(_) | Pat::Type(_) | Pat::Wild) && !matches!(q, Pat::Tup(_, fs) if fs.is_empty())),
        Pat::Tup(_, fs) => fs.iter().any(|(_, q)| alt_of_structured(q)),
        Pat::Part(_, fs) => fs.iter().any(|(_, q)| q.as_ref().map(alt_of_structured).unwrap_or(false)),
        _ => false,
    }
}


fn cond_match_count(cond: &[Chain]) -> usize {
    cond.iter().map(|c| c.pat.is_some() as usize + c.terms.iter().filter(|t| matches!(t, Term::Match(_))).count()).sum()
}

fn pat_is_value_test(p: &Pat) -> bool {
    matches!(p, Pat::Lit(_) | Pat::Str(_) | Pat::Pin(_))
}

/// something directly in the condition that makes the compiler give up complement narrowing for the
/// branch: a builtin call, a (non-redundant) block, a tail call, a literal / pin test
fn cond_has_disabler(cond: &[Chain]) -> bool {
    cond.iter().any(|c| {
        c.pat.as_ref().map(pat_is_value_test).unwrap_or(false)
            || c.terms.iter().any(|t| match t {
                Term::Access(Src::Builtin(_), _) => true,
                Term::Block(e) => e.branches.len() > 1 || e.branches.iter().any(|b| b.cons.is_some()),
                Term::Tail(_) | Term::TailRipple => true,
                Term::Match(p) => pat_is_value_test(p),
                _ => false,
            })
    })
}

fn is_observe_step(c: &Chain) -> Option<Vec<String>> {
    if c.pat.is_some() || c.terms.len() != 1 {
        return None;
    }
    let Term::Tuple(TupName::Anon, fs) = &c.terms[0] else { return None };
    let mut names = vec![];
    for f in fs {
        match f {
            Field::Val(None, ch) if ch.pat.is_none() => match ch.terms.as_slice() {
                [Term::Access(Src::Var(x), a)] if a.is_empty() => names.push(x.clone()),
                _ => return None,
            },
            _ => return None,
        }
    }
    if names.is_empty() { None } else { Some(names) }
}

/// `Ok(())` iff the program lies in the compared fragment (see module comment).
/// open finding (registered at the freeze, not analysed): a field-level binding inside a tuple that is itself
/// the value of a BINDING chain — `_ = [~, d = [~, =4]], [] = d.1` answers [] (the nil test on the inner
/// variable's field fails)
fn field_binding_inside_bound_tuple(chains: &[Chain]) -> bool {
    fn tuple_has_field_binding(t: &Term) -> bool {
        match t {
            Term::Tuple(_, fs) => fs.iter().any(|f| match f {
                Field::Val(_, c) => c.pat.is_some() || c.terms.iter().any(tuple_has_field_binding),
                _ => false,
            }),
            _ => false,
        }
    }
    fn in_expr(e: &Expr) -> bool {
        e.branches.iter().any(|b| field_binding_inside_bound_tuple(&b.cond) || b.cons.as_ref().map(|k| field_binding_inside_bound_tuple(k)).unwrap_or(false))
    }
    fn in_term(t: &Term) -> bool {
        match t {
            Term::Block(e) | Term::Fn { body: Some(e), .. } => in_expr(e),
            Term::Tuple(_, fs) => fs.iter().any(|f| matches!(f, Field::Val(_, c) if field_binding_inside_bound_tuple(std::slice::from_ref(c)))),
            Term::Interp(segs) => segs.iter().any(|g| matches!(g, Seg::Hole(e) if in_expr(e))),
            _ => false,
        }
    }
    chains.iter().any(|c| (c.pat.is_some() && c.terms.iter().any(tuple_has_field_binding)) || c.terms.iter().any(in_term))
}

pub fn validate(p: &Program) -> R<()> {
    if p.steps.is_empty() {
        return Err("empty program".into());
    }
    if p.prints_ambiguously() {
        return Err("prints ambiguously".into());
    }
    if field_binding_inside_bound_tuple(&p.steps) {
        return Err("field-level binding inside a tuple bound by its chain (open finding)".into());
    }
    let v = V { flow: std::cell::Cell::new((false, true)), last_narrows: std::cell::Cell::new(false), in_field: std::cell::Cell::new(0), in_cond: std::cell::Cell::new(false), multi_match_cond: std::cell::Cell::new(false), non_last_cond: std::cell::Cell::new(false), prov_matches: std::cell::Cell::new(0), in_any_cond: std::cell::Cell::new(false), fn_block_depth: std::cell::Cell::new(0) };
    let cx = Cx { param: None, rec: false };
    let mut env = Env::default();
    let n = p.steps.len();
    // the final observation step `[a, b, …]` may read variables that may be nil
    let (body, observe) = match is_observe_step(&p.steps[n - 1]) {
        Some(names) if n >= 2 => (&p.steps[..n - 1], Some(names)),
        _ => (&p.steps[..], None),
    };
    let (ty, pending) = v.seq(&mut env, &Ty::nil(), body, false, &cx)?;
    if let Some(names) = observe {
        if ty.is_nil() || ty.is_never() {
            return Err("statically dead observation".into());
        }
        env.settle(&pending);
        env.kill_pending();
        for x in names {
            match env.lookup(&x) {
                Some(var) if var.st == St::Definite && !var.ty.top_fn() => {}
                Some(_) => return Err(format!("observed variable {x} not definitely bound or a function")),
                None => return Err(format!("observed variable {x} unbound")),
            }
        }
    }
    Ok(())
}
