//! Core-program generator (DESIGN §2.5 "Core programs"): builds an AST of the documented core
//! language once; `ast.rs` prints it both as Quiver source and as the S-expression the Lean
//! reference evaluator reads. The generator tracks simple static types itself — always an
//! *over-approximation* of what the compiler infers (the compiler narrows more) — so that most
//! programs are accepted, and it only emits programs whose meaning the spec fixes:
//!   * a variable is read bare only if its type is exactly a function (it is called) or contains no
//!     function at the top level (it replaces the flow): callable-ness is statically evident;
//!   * variables bound by a refutable match are read only after the step boundary / `=>` that
//!     guarantees the match succeeded;
//!   * values containing functions are never compared (pins, repeated binders, literals);
//!   * `^` only in tail position, and recursion only through a guarded count-down (`$ < 1` commits to
//!     the base case first), so every program terminates.
//! It also steers around the OPEN compiler findings (F25, and the partial-pattern / rebinding
//! candidates; notes/C02.md "Findings"): `validate.rs` is the authoritative membership test — every
//! generated program must pass it. Witnesses of the open findings live in
//! corpus/C02/known-findings.qv, repaired ones in corpus/C02/regressions.qv.
//!
//! Reuse: `Gen::new(rng).program()` → `ast::Program`; `.features` lists what the program exercises.
#![allow(dead_code)]
use super::ast::*;
use qverif::Rng;

#[derive(Clone, Debug, PartialEq)]
enum St {
    /// bound on every path that reaches the reader
    Definite,
    /// bound by the refutable match that ends the current chain: definite after the step boundary
    Pending,
    /// possibly bound by a failed match: never read (but it shadows)
    Dead,
}

#[derive(Clone, Debug)]
struct Var {
    name: String,
    ty: Ty,
    st: St,
    /// guarded count-down function: call only with a small integer argument, never pass by value
    rec: bool,
}

impl Var {
    /// F25: the compiler strips nil from the type of a freshly bound variable at the next step
    /// boundary; a variable whose type is `T | []` is only ever *observed* (final result).
    fn tainted(&self) -> bool {
        self.ty.contains_nil() && !self.ty.is_nil()
    }
}

#[derive(Clone, Debug, Default)]
struct Env {
    vars: Vec<Var>,
}

impl Env {
    fn lookup(&self, name: &str) -> Option<&Var> {
        self.vars.iter().rev().find(|v| v.name == name)
    }
    /// visible (not shadowed), definitely bound variables, including nil-tainted ones
    fn observable(&self) -> Vec<Var> {
        let mut seen: Vec<&str> = vec![];
        let mut out = vec![];
        for v in self.vars.iter().rev() {
            if seen.contains(&v.name.as_str()) {
                continue;
            }
            seen.push(&v.name);
            if v.st == St::Definite {
                out.push(v.clone());
            }
        }
        out
    }
    fn readable(&self) -> Vec<Var> {
        self.observable().into_iter().filter(|v| !v.tainted()).collect()
    }
    fn bind(&mut self, name: &str, ty: Ty, st: St) {
        self.vars.push(Var { name: name.to_string(), ty, st, rec: false });
    }
    fn settle(&mut self, names: &[String]) {
        for n in names {
            if let Some(v) = self.vars.iter_mut().rev().find(|v| &v.name == n) {
                if v.st == St::Pending {
                    v.st = St::Definite;
                }
            }
        }
    }
    fn kill_pending(&mut self) {
        for v in self.vars.iter_mut() {
            if v.st == St::Pending {
                v.st = St::Dead;
            }
        }
    }
    fn pending(&self) -> Vec<String> {
        self.vars.iter().filter(|v| v.st == St::Pending).map(|v| v.name.clone()).collect()
    }
}

#[derive(Clone, Debug)]
struct Cx {
    /// type of `$` (None at top level)
    param: Option<Ty>,
    /// inside the guarded part of a count-down function: `^` allowed in tail position
    rec: bool,
}

/// A generated sequence with what the caller needs to know about it.
struct SeqOut {
    chains: Vec<Chain>,
    ty: Ty,
    /// variables that are definitely bound once the sequence is known to have produced non-nil
    pending: Vec<String>,
    /// the compiler might see some step as statically nil (F22 matters then)
    static_nil_risk: bool,
}

pub struct Gen {
    pub rng: Rng,
    counter: usize,
    pub features: Vec<&'static str>,
    /// size budget (number of terms still allowed); keeps programs small
    budget: i32,
    /// the next generated term must not consume the flow
    fresh_start: bool,
    /// a function defined in the previous step: call it soon
    pending_call: Option<String>,
    /// a chain (with its type) to be emitted verbatim as the next step (probe families that need an exact call)
    pending_chain: Option<(Chain, Ty)>,
}

const TUPLE_NAMES: &[&str] = &["A", "B", "C", "P"];
const LABELS: &[&str] = &["x", "y", "z", "k", "m"];
const VAR_POOL: &[&str] = &["a", "b", "c", "d", "e", "g", "h", "n", "p", "q"];

fn int2() -> Ty {
    Ty::Tup(None, vec![(None, Ty::Int), (None, Ty::Int)])
}

fn lit_int(v: i64) -> Term {
    Term::Lit(Lit::Int(v))
}

fn pair(a: Vec<Term>, b: Vec<Term>) -> Term {
    Term::Tuple(TupName::Anon, vec![Field::Val(None, Chain::new(a)), Field::Val(None, Chain::new(b))])
}

fn builtin(name: &str) -> Term {
    Term::Access(Src::Builtin(name.into()), vec![])
}

impl Gen {
    pub fn new(rng: Rng) -> Gen {
        Gen { rng, counter: 0, features: vec![], budget: 0, fresh_start: false, pending_call: None, pending_chain: None }
    }

    fn feat(&mut self, f: &'static str) {
        if !self.features.contains(&f) {
            self.features.push(f);
        }
    }

    fn chance(&mut self, num: u64, den: u64) -> bool {
        self.rng.chance(num, den)
    }

    fn low(&self) -> bool {
        self.budget <= 0
    }

    /// a variable name: sometimes an already visible one (deliberate shadowing), else fresh
    fn var_name(&mut self, env: &Env, avoid: &[String]) -> String {
        self.var_name_for(env, avoid, None)
    }

    /// `ty` = the type the new variable will have. Rebinding a visible name is only generated when
    /// old and new type are equal and contain no union (F28: a narrowing recorded for a name
    /// survives its rebinding).
    fn var_name_for(&mut self, env: &Env, avoid: &[String], ty: Option<&Ty>) -> String {
        let _ = ty;
        if self.chance(1, 5) && !env.vars.is_empty() {
            let v = &env.vars[self.rng.usize(env.vars.len())];
            if !avoid.contains(&v.name) {
                self.feat("shadowing");
                return v.name.clone();
            }
        }
        for _ in 0..4 {
            let n = VAR_POOL[self.rng.usize(VAR_POOL.len())].to_string();
            if env.lookup(&n).is_none() && !avoid.contains(&n) {
                return n;
            }
        }
        self.counter += 1;
        format!("v{}", self.counter)
    }

    // --------------------------------------------------------------------------------------------
    // types
    // --------------------------------------------------------------------------------------------

    fn gen_data_ty(&mut self, d: u32) -> Ty {
        match self.rng.below(if d == 0 { 3 } else { 9 }) {
            0 | 1 => Ty::Int,
            2 => Ty::Bin,
            3 | 4 | 5 => {
                let n = self.rng.usize(3) + 1;
                let name = if self.chance(1, 2) { Some(TUPLE_NAMES[self.rng.usize(4)].to_string()) } else { None };
                let labelled = self.chance(1, 2);
                let mut labels: Vec<&str> = LABELS.to_vec();
                self.rng.shuffle(&mut labels);
                let mut fs = vec![];
                for i in 0..n {
                    let l = if labelled && (i == 0 || self.chance(3, 4)) { Some(labels[i].to_string()) } else { None };
                    fs.push((l, self.gen_data_ty(d - 1)));
                }
                Ty::Tup(name, fs)
            }
            6 => {
                if self.chance(1, 2) {
                    Ty::union(vec![Ty::Int, Ty::Bin])
                } else {
                    // `Name[T] | T`: what `(Name[v] | v)` unwraps
                    let t = if self.chance(2, 3) { Ty::Int } else { Ty::Bin };
                    Ty::union(vec![Ty::Tup(Some(TUPLE_NAMES[self.rng.usize(4)].to_string()), vec![(None, t.clone())]), t])
                }
            }
            7 => Ty::union(vec![Ty::Tup(Some("A".into()), vec![(None, self.gen_data_ty(0))]), Ty::Tup(Some("B".into()), vec![])]),
            _ => Ty::union(vec![self.gen_data_ty(d - 1), Ty::nil()]),
        }
    }

    fn gen_param_ty(&mut self) -> Ty {
        self.gen_param_ty0()
    }

    fn gen_param_ty0(&mut self) -> Ty {
        match self.rng.below(12) {
            0 | 1 => Ty::nil(),
            2 | 3 | 4 => Ty::Int,
            5 => int2(),
            6 => Ty::Fn(Box::new(Ty::Int), Box::new(Ty::Int)),
            7 => Ty::Tup(None, vec![(None, Ty::Fn(Box::new(Ty::Int), Box::new(Ty::Int.with_nil()))), (None, Ty::Int)]),
            _ => self.gen_data_ty(2),
        }
    }

    // --------------------------------------------------------------------------------------------
    // programs, sequences, chains
    // --------------------------------------------------------------------------------------------

    /// Closures with DIFFERENT numbers of captures that tail-call each other by name and then
    /// recurse on themselves, reading captures / the parameter after the recursion:
    ///   c1 = …, c2 = …, g = #'int { | [$, 1] cmp =-1 => [$, c1, c2] | … [$, 1] sub ^ },
    ///   f = #'int { [$, k] add ^g }, n f
    fn tail_chain_program(&mut self) -> Program {
        let mut steps: Vec<Chain> = vec![];
        let mut env = Env::default();
        let cx = Cx { param: None, rec: false };
        // some locals first (slot numbers vary)
        let nloc = self.rng.usize(4);
        let mut caps: Vec<String> = vec![];
        for _ in 0..nloc {
            let name = self.var_name(&env, &[]);
            let v = self.rng.range(2, 40);
            steps.push(Chain { pat: Some(Pat::Bind(name.clone())), terms: vec![lit_int(v)] });
            env.bind(&name, Ty::Int, St::Definite);
            caps.push(name);
        }
        // G: count-down closure; captures a random subset (0..=nloc) of the locals
        let mut gcaps = caps.clone();
        self.rng.shuffle(&mut gcaps);
        let ng = self.rng.usize(gcaps.len() + 1);
        gcaps.truncate(ng);
        let tuple_param = self.chance(1, 3);
        let (gp, base_acc) = if tuple_param {
            (Ty::Tup(None, vec![(None, Ty::Int), (None, Ty::Int)]), vec![Acc::Index(0)])
        } else {
            (Ty::Int, vec![])
        };
        let guard = Chain::new(vec![
            pair(vec![Term::Access(Src::Param, base_acc.clone())], vec![lit_int(1)]),
            builtin("integer_compare"),
            Term::Match(Pat::Lit(Lit::Int(-1))),
        ]);
        // base case: read parameter and captures AFTER the recursion steps
        let mut base_fields = vec![Field::Val(None, Chain::new(vec![Term::Access(Src::Param, vec![])]))];
        for c in &gcaps {
            base_fields.push(Field::Val(None, Chain::new(vec![Term::Access(Src::Var(c.clone()), vec![])])));
        }
        let base = vec![Chain::new(vec![Term::Tuple(TupName::Anon, base_fields)])];
        let k = self.rng.range(1, 2);
        let dec = vec![pair(vec![Term::Access(Src::Param, base_acc.clone())], vec![lit_int(k)]), builtin("integer_subtract")];
        let rec_terms = if tuple_param {
            // second component: accumulates a capture or the old second component
            let second = if !gcaps.is_empty() && self.chance(1, 2) {
                vec![pair(vec![Term::Access(Src::Param, vec![Acc::Index(1)])], vec![Term::Access(Src::Var(gcaps[0].clone()), vec![])]), builtin("integer_add")]
            } else {
                vec![Term::Access(Src::Param, vec![Acc::Index(1)])]
            };
            vec![pair(dec, second), Term::Tail(None)]
        } else {
            let mut t = dec;
            t.push(Term::Tail(None));
            t
        };
        let mut gbranches = vec![Branch { cond: vec![guard], cons: Some(base) }];
        if self.chance(1, 3) {
            // an extra guarded branch that binds before recursing
            let b = self.var_name(&env, &caps);
            gbranches.push(Branch {
                cond: vec![Chain::new(vec![Term::Match(Pat::Bind(b.clone()))]), Chain::new(vec![
                    pair(vec![Term::Access(Src::Param, base_acc.clone())], vec![lit_int(3)]),
                    builtin("integer_compare"),
                    Term::Match(Pat::Lit(Lit::Int(1))),
                ])],
                cons: Some(vec![Chain::new(rec_terms.clone())]),
            });
        }
        gbranches.push(Branch { cond: vec![Chain::new(rec_terms)], cons: None });
        let g = self.var_name(&env, &caps);
        steps.push(Chain { pat: Some(Pat::Bind(g.clone())), terms: vec![Term::Fn { param: gp.clone(), body: Some(Expr { branches: gbranches }) }] });
        env.bind(&g, Ty::Fn(Box::new(gp.clone()), Box::new(Ty::Int)), St::Definite);
        // F: captures g plus a DIFFERENT number of locals; tail-calls g by name
        let mut fcaps = caps.clone();
        self.rng.shuffle(&mut fcaps);
        let nf = self.rng.usize(fcaps.len() + 1);
        fcaps.truncate(nf);
        let mut sum: Vec<Term> = vec![Term::Access(Src::Param, vec![])];
        for c in &fcaps {
            // fold the captures into a small argument: ($ + c) mod 5
            sum = vec![pair(sum, vec![Term::Access(Src::Var(c.clone()), vec![])]), builtin("integer_add")];
        }
        let small = vec![pair(sum, vec![lit_int(5)]), builtin("integer_modulo")];
        let fterms = if tuple_param {
            vec![pair(small, vec![lit_int(self.rng.range(0, 9))]), Term::Tail(Some((g.clone(), vec![])))]
        } else {
            let mut t = small;
            t.push(Term::Tail(Some((g.clone(), vec![]))));
            t
        };
        let f = self.var_name(&env, &[g.clone()]);
        // optionally a middle function: f ^-> m ^-> g (chained named tail calls)
        let mut target = f.clone();
        steps.push(Chain {
            pat: Some(Pat::Bind(f.clone())),
            terms: vec![Term::Fn { param: Ty::Int, body: Some(Expr { branches: vec![Branch { cond: vec![Chain::new(fterms)], cons: None }] }) }],
        });
        env.bind(&f, Ty::Fn(Box::new(Ty::Int), Box::new(Ty::Int)), St::Definite);
        if self.chance(1, 3) {
            let m = self.var_name(&env, &[g.clone(), f.clone()]);
            let extra: Vec<Term> = caps.iter().take(1).map(|c| Term::Access(Src::Var(c.clone()), vec![])).collect();
            let mut body = vec![pair(vec![pair(vec![Term::Access(Src::Param, vec![])], if extra.is_empty() { vec![lit_int(1)] } else { extra }), builtin("integer_add")], vec![lit_int(4)]), builtin("integer_modulo")];
            body.push(Term::Tail(Some((f.clone(), vec![]))));
            steps.push(Chain {
                pat: Some(Pat::Bind(m.clone())),
                terms: vec![Term::Fn { param: Ty::Int, body: Some(Expr { branches: vec![Branch { cond: vec![Chain::new(body)], cons: None }] }) }],
            });
            target = m;
        }
        let _ = cx;
        // call it (twice, different arguments), observe
        let a1 = self.rng.range(0, 9);
        let a2 = self.rng.range(0, 9);
        steps.push(Chain::new(vec![Term::Tuple(
            TupName::Anon,
            vec![
                Field::Val(None, Chain::new(vec![lit_int(a1), Term::Access(Src::Var(target.clone()), vec![])])),
                Field::Val(None, Chain::new(vec![lit_int(a2), Term::Access(Src::Var(target.clone()), vec![])])),
            ],
        )]));
        self.feat("probe-tail-chain");
        Program { steps }
    }

    pub fn program(&mut self) -> Program {
        if self.chance(1, 16) {
            return self.tail_chain_program();
        }
        self.budget = 4 + self.rng.below(12) as i32;
        let mut env = Env::default();
        let cx = Cx { param: None, rec: false };
        let max_steps = 2 + self.rng.usize(4);
        let out = self.gen_seq(&mut env, &Ty::nil(), 3, false, &cx, max_steps);
        let mut steps = out.chains;
        // observe many locals at the end (slot alignment after failed matches / blocks / shadowing)
        if !out.ty.is_nil() && !out.ty.is_never() && self.chance(3, 4) {
            env.settle(&out.pending);
            if let Some(t) = self.observe(&env) {
                self.feat("observe-locals");
                steps.push(Chain::new(vec![t]));
            }
        }
        Program { steps }
    }

    /// `[a, b, c, …]` of visible non-function variables
    fn observe(&mut self, env: &Env) -> Option<Term> {
        let rs: Vec<Var> = env.observable().into_iter().filter(|v| !v.ty.top_fn()).collect();
        if rs.is_empty() {
            return None;
        }
        let mut fields = vec![];
        for v in rs.iter().take(6) {
            fields.push(Field::Val(None, Chain::new(vec![Term::Access(Src::Var(v.name.clone()), vec![])])));
        }
        Some(Term::Tuple(TupName::Anon, fields))
    }

    /// A sequence `c₁, c₂, …` starting from a flow of type `tin`; static type as `compile_sequence`
    /// computes it (the last chain's type, plus nil if an earlier step can be nil).
    fn gen_seq(&mut self, env: &mut Env, tin: &Ty, d: u32, tail: bool, cx: &Cx, max_steps: usize) -> SeqOut {
        let cap = if self.low() { 1 } else { max_steps.max(1) };
        let n = 1 + self.rng.usize(cap);
        let mut chains = vec![];
        let mut input = tin.clone();
        let mut may_nil = false;
        let mut last = tin.clone();
        let mut pending = vec![];
        let mut risk = false;
        for i in 0..n {
            if i > 0 && self.low() {
                break;
            }
            let is_last = i + 1 == n;
            // open finding (verdict provenance): the step after a match-terminated step must not
            // consume the verdict
            let prev_verdict =
                chains.last().map(|c: &Chain| c.pat.is_some() || matches!(c.terms.last(), Some(Term::Match(_)))).unwrap_or(false);
            let _ = prev_verdict;
            let (c, ty, pend, r) = self.gen_step(env, &input, d, tail && is_last, cx, is_last);
            self.fresh_start = false;
            chains.push(c);
            risk |= r;
            last = if may_nil { ty.with_nil() } else { ty.clone() };
            pending = pend;
            if ty.is_nil() || ty.is_never() {
                // the rest would be statically dead
                env.kill_pending();
                pending.clear();
                break;
            }
            if !is_last {
                // step boundary: reaching the next step means this chain's value was non-nil
                env.settle(&pending);
                env.kill_pending();
                pending.clear();
                if ty.contains_nil() {
                    may_nil = true;
                    self.feat("seq-may-short-circuit");
                }
                input = ty.without_nil();
            }
        }
        SeqOut { chains, ty: last, pending, static_nil_risk: risk }
    }

    /// One step of a sequence: the chain, its type, the variables that become definite once the
    /// step is known to have produced a non-nil value, and whether the compiler might see the step
    /// as statically nil.
    fn gen_step(&mut self, env: &mut Env, tin: &Ty, d: u32, tail: bool, cx: &Cx, is_last: bool) -> (Chain, Ty, Vec<String>, bool) {
        let roll = self.rng.below(10);
        if let Some((c, ty)) = self.pending_chain.take() {
            env.kill_pending();
            self.fresh_start = false;
            return (c, ty, vec![], false);
        }
        if let Some(fname) = self.pending_call.take() {
            // call the function defined in the previous step (functions that are never applied test
            // nothing but their compilation)
            if let Some(f) = env.readable().into_iter().find(|v| v.name == fname && matches!(v.ty, Ty::Fn(..))) {
                if self.chance(4, 5) && !tail {
                    let (mut ts, mut ty) = self.gen_call(env, tin, d, cx, &f);
                    env.kill_pending();
                    if self.chance(1, 3) && !ty.is_never() && !self.low() {
                        let (more, t2, _) = self.gen_term(env, &ty, d.saturating_sub(1), false, cx);
                        ts.extend(more);
                        ty = t2;
                    }
                    self.feat("call-after-definition");
                    if !ty.is_nil() && !ty.is_never() && self.chance(1, 2) {
                        // keep the result: `(T)r = … f` / `r = … f`
                        let (pat, binds, irref, vt) = self.gen_pat_for(env, &ty, d, PatUse::Binding);
                        env.kill_pending();
                        let st = if irref { St::Definite } else { St::Pending };
                        let mut names = vec![];
                        for (n, t) in binds {
                            env.bind(&n, t, st.clone());
                            names.push(n);
                        }
                        let risk = !irref && !surely_possible(&pat, &ty);
                        return (Chain { pat: Some(pat), terms: ts }, vt, if irref { vec![] } else { names }, risk);
                    }
                    let pending = if matches!(ts.last(), Some(Term::Match(_))) { env.pending() } else { vec![] };
                    if pending.is_empty() {
                        env.kill_pending();
                    }
                    let risk = ty.contains_nil();
                    return (Chain::new(ts), ty, pending, risk);
                }
            }
        }
        if !is_last && !tail && self.chance(1, 9) && !self.low() {
            if let Some(r) = self.closure_probe(env) {
                return r;
            }
        }
        if !is_last && !tail && self.chance(1, 30) && !self.low() {
            if let Some(r) = self.repeat_probe(env) {
                return r;
            }
        }
        if !is_last && !tail && self.chance(1, 14) && !self.low() {
            // alternation probe: `f = #(N[T] | T) { =(N[v] | v) => [v] }` — a specific alternative before a
            // catch-all binder of the same name; the call in the next step passes either variant
            let t = if self.chance(2, 3) { Ty::Int } else { Ty::Bin };
            let n = TUPLE_NAMES[self.rng.usize(4)].to_string();
            let p = Ty::union(vec![Ty::Tup(Some(n.clone()), vec![(None, t.clone())]), t.clone()]);
            let v = self.var_name(env, &[]);
            let name = self.var_name(env, &[v.clone()]);
            if v != name && env.lookup(&v).is_none() && env.lookup(&name).is_none() {
                let pat = Pat::Alt(vec![Pat::Tup(Some(n), vec![(None, Pat::Bind(v.clone()))]), Pat::Bind(v.clone())]);
                let vt = Ty::union(vec![t.clone(), p.clone()]);
                let body = Expr {
                    branches: vec![Branch {
                        cond: vec![Chain::new(vec![Term::Match(pat)])],
                        cons: Some(vec![Chain::new(vec![Term::Tuple(
                            TupName::Anon,
                            vec![Field::Val(None, Chain::new(vec![Term::Access(Src::Var(v), vec![])]))],
                        )])]),
                    }],
                };
                let fty = Ty::Fn(Box::new(p.clone()), Box::new(Ty::Tup(None, vec![(None, vt)])));
                env.bind(&name, fty, St::Definite);
                self.pending_call = Some(name.clone());
                self.feat("alternation-probe");
                self.fresh_start = false;
                return (Chain { pat: Some(Pat::Bind(name)), terms: vec![Term::Fn { param: p, body: Some(body) }] }, Ty::ok(), vec![], false);
            }
        }
        if !is_last && d > 0 && roll < 2 && self.budget > 3 {
            // f = #T { … }
            self.fresh_start = false;
            let (t, ty, rec) = self.gen_fn(env, d - 1);
            let name = self.var_name(env, &[]);
            env.bind(&name, ty, St::Definite);
            env.vars.last_mut().unwrap().rec = rec;
            self.pending_call = Some(name.clone());
            self.feat("fn-def");
            return (Chain { pat: Some(Pat::Bind(name)), terms: vec![t] }, Ty::ok(), vec![], false);
        }
        if !is_last && !tail && self.chance(1, 8) && !self.low() {
            // scope probe: a single-branch, `=>`-less block whose binding SHADOWS a visible variable; the
            // outer variable must be untouched afterwards (the final observation reads it). Every
            // binding form (in-chain match, chain binding, tuple-field binding, in-field match, nested
            // block) × every placement the simplifier may strip (sole term of a step = "lifted",
            // after another term of the chain = "spliced") × one or two steps.
            let outer: Vec<Var> = env.readable().into_iter().filter(|v| !v.ty.top_fn()).collect();
            if !outer.is_empty() {
                let x = outer[self.rng.usize(outer.len())].clone();
                let (v, vty) = self.gen_lit();
                let (w, wty) = self.gen_lit();
                if !wty.is_nil() && !vty.is_nil() {
                    let xn = x.name.clone();
                    // spliced placement: a literal before the block; inside, `~` is that literal
                    let spliced = self.chance(1, 2);
                    let (lead, lty) = self.gen_lit();
                    let spliced = spliced && !lty.is_nil();
                    let (vt, vty) = if spliced && self.chance(1, 2) { (Term::Access(Src::Ripple, vec![]), lty.clone()) } else { (v, vty) };
                    let form = self.rng.below(5);
                    let bind_step: Chain = match form {
                        0 => Chain::new(vec![vt.clone(), Term::Match(Pat::Bind(xn.clone()))]),
                        1 => Chain { pat: Some(Pat::Bind(xn.clone())), terms: vec![vt.clone()] },
                        2 => Chain::new(vec![Term::Tuple(
                            TupName::Anon,
                            vec![Field::Val(None, Chain { pat: Some(Pat::Bind(xn.clone())), terms: vec![vt.clone()] }), Field::Val(None, Chain::new(vec![w.clone()]))],
                        )]),
                        3 => Chain::new(vec![Term::Tuple(
                            TupName::Anon,
                            vec![Field::Val(None, Chain::new(vec![vt.clone(), Term::Match(Pat::Bind(xn.clone()))])), Field::Val(None, Chain::new(vec![w.clone()]))],
                        )]),
                        _ => Chain::new(vec![Term::Block(Expr {
                            branches: vec![Branch { cond: vec![Chain::new(vec![vt.clone(), Term::Match(Pat::Bind(xn.clone()))])], cons: None }],
                        })]),
                    };
                    let bind_ty = match form {
                        2 | 3 => Ty::Tup(None, vec![(None, Ty::ok()), (None, wty.clone())]),
                        _ => Ty::ok(),
                    };
                    let mut steps = vec![bind_step];
                    let ty = match self.rng.below(3) {
                        0 => bind_ty,
                        1 if form != 4 => {
                            // read the shadowing binding inside
                            steps.push(Chain::new(vec![Term::Tuple(
                                TupName::Anon,
                                vec![Field::Val(None, Chain::new(vec![Term::Access(Src::Var(xn.clone()), vec![])])), Field::Val(None, Chain::new(vec![w]))],
                            )]));
                            Ty::Tup(None, vec![(None, vty), (None, wty)])
                        }
                        _ => {
                            steps.push(Chain::new(vec![w]));
                            wty
                        }
                    };
                    self.feat("scope-probe-block-step");
                    self.feat(match (form, spliced) {
                        (0, false) => "scope-probe-match-sole",
                        (0, true) => "scope-probe-match-spliced",
                        (1, false) => "scope-probe-chainbind-sole",
                        (1, true) => "scope-probe-chainbind-spliced",
                        (2, false) => "scope-probe-fieldbind-sole",
                        (2, true) => "scope-probe-fieldbind-spliced",
                        (3, false) => "scope-probe-fieldmatch-sole",
                        (3, true) => "scope-probe-fieldmatch-spliced",
                        (_, false) => "scope-probe-nested-sole",
                        (_, true) => "scope-probe-nested-spliced",
                    });
                    let blk = Term::Block(Expr { branches: vec![Branch { cond: steps, cons: None }] });
                    env.kill_pending();
                    let terms = if spliced { vec![lead, blk] } else { vec![blk] };
                    return (Chain::new(terms), ty, vec![], false);
                }
            }
        }
        if !tail && roll < 5 {
            // p = chain
            let (terms, ty, _) = self.gen_terms(env, tin, d, false, cx);
            if ty.is_never() || ty.is_nil() {
                let risk = ty.is_nil();
                return (Chain::new(terms), ty, vec![], risk);
            }
            env.kill_pending();
            let (pat, binds, irref, vt) = self.gen_pat_for(env, &ty, d, PatUse::Binding);
            let st = if irref { St::Definite } else { St::Pending };
            let mut names = vec![];
            for (n, t) in binds {
                env.bind(&n, t, st.clone());
                names.push(n);
            }
            self.feat("bind-chain");
            let risk = !irref && !surely_possible(&pat, &ty);
            return (Chain { pat: Some(pat), terms }, vt, if irref { vec![] } else { names }, risk);
        }
        let (terms, ty, pre_last) = self.gen_terms(env, tin, d, tail, cx);
        let risk = if !ty.contains_nil() {
            false
        } else if let Some(Term::Match(p)) = terms.last() {
            !surely_possible(p, &pre_last)
        } else {
            true
        };
        // pending variables: only those bound by a refutable match that is the chain's last term
        if !matches!(terms.last(), Some(Term::Match(_))) {
            env.kill_pending();
            return (Chain::new(terms), ty, vec![], risk);
        }
        let pending = env.pending();
        (Chain::new(terms), ty, pending, risk)
    }

    /// The terms of one chain from flow `tin`: (terms, type, type of the flow before the last term).
    fn gen_terms(&mut self, env: &mut Env, tin: &Ty, d: u32, tail: bool, cx: &Cx) -> (Vec<Term>, Ty, Ty) {
        let n = if self.low() {
            1
        } else {
            match self.rng.below(10) {
                0..=4 => 1,
                5..=8 => 2,
                _ => 3,
            }
        };
        let mut terms = vec![];
        let mut cur = tin.clone();
        let mut pre_last = tin.clone();
        for i in 0..n {
            let is_last = i + 1 == n;
            // a pending match followed by another term: its variables may be unbound from here on
            env.kill_pending();
            pre_last = cur.clone();
            let (ts, ty, pre) = self.gen_term(env, &cur, d, tail && is_last, cx);
            if let Some(p) = pre {
                pre_last = p;
            }
            terms.extend(ts);
            cur = ty;
            if cur.is_never() {
                break;
            }
            if cur.contains_nil() && !is_last {
                self.feat("nil-may-flow-in-chain");
            }
        }
        (terms, cur, pre_last)
    }

    // --------------------------------------------------------------------------------------------
    // terms
    // --------------------------------------------------------------------------------------------

    fn gen_lit(&mut self) -> (Term, Ty) {
        match self.rng.below(16) {
            12..=15 | 0..=6 => {
                let v = match self.rng.below(8) {
                    0 => 0,
                    1 => 1,
                    2 => -1,
                    3 => self.rng.range(-5, 5),
                    4 => self.rng.range(-1000, 1000),
                    5 => (self.rng.next() >> 2) as i64,
                    _ => self.rng.range(0, 12),
                };
                (lit_int(v), Ty::Int)
            }
            7..=8 => {
                let n = self.rng.usize(3);
                (Term::Lit(Lit::Bin(self.rng.bytes(n))), Ty::Bin)
            }
            9 | 11 => {
                self.feat("string");
                let words = ["", "a", "hi", "foo", "zz top"];
                (Term::Str(words[self.rng.usize(words.len())].to_string()), Ty::str_())
            }
            10 => (Term::Tuple(TupName::Anon, vec![]), Ty::nil()),
            _ => {
                let n = ["Ok", "A", "B"][self.rng.usize(3)];
                (Term::Tuple(TupName::Named(n.into()), vec![]), Ty::Tup(Some(n.into()), vec![]))
            }
        }
    }

    /// accessors into a (non-union) tuple type: returns path and resulting type
    fn pick_path(&mut self, ty: &Ty, max: usize) -> Option<(Vec<Acc>, Ty)> {
        let mut path = vec![];
        let mut cur = ty.clone();
        for _ in 0..max {
            match &cur {
                Ty::Tup(_, fs) if !fs.is_empty() => {
                    let i = self.rng.usize(fs.len());
                    let (l, t) = &fs[i];
                    match l {
                        Some(l) if self.chance(3, 4) => path.push(Acc::Label(l.clone())),
                        _ => path.push(Acc::Index(i)),
                    }
                    cur = t.clone();
                    if self.chance(1, 2) {
                        break;
                    }
                }
                _ => break,
            }
        }
        if path.is_empty() { None } else { Some((path, cur)) }
    }

    /// May the value of static type `t` be read bare (callable-ness statically evident)?
    fn bare_ok(t: &Ty) -> bool {
        matches!(t, Ty::Fn(..)) || !t.top_fn()
    }

    /// One term (sometimes a short idiom of several terms) receiving a flow of type `tin`. The third
    /// component is the type of the flow right before the *last* returned term when that differs
    /// from `tin` (idioms of several terms).
    fn gen_term(&mut self, env: &mut Env, tin: &Ty, d: u32, tail: bool, cx: &Cx) -> (Vec<Term>, Ty, Option<Ty>) {
        self.budget -= 1;
        if self.fresh_start {
            // a term that replaces the flow: literal, data variable, parameter, arithmetic on those
            self.fresh_start = false;
            let nil = Ty::nil();
            let data: Vec<Var> = env.readable().into_iter().filter(|v| !v.ty.top_fn()).collect();
            return match self.rng.below(4) {
                0 if !data.is_empty() => {
                    let v = data[self.rng.usize(data.len())].clone();
                    self.feat("var");
                    (vec![Term::Access(Src::Var(v.name.clone()), vec![])], v.ty.clone(), None)
                }
                1 => {
                    let ts = self.gen_arith(env, &nil, 0, cx);
                    (ts, Ty::Int, Some(int2()))
                }
                _ => {
                    let (t, ty) = self.gen_lit();
                    (vec![t], ty, None)
                }
            };
        }
        let small = self.low() || d == 0;
        // tail calls
        if tail && cx.param.is_some() && d > 0 {
            if cx.rec && self.chance(1, 2) {
                if let Some(ts) = self.gen_self_tail(env, tin, d, cx) {
                    self.feat("tail-self");
                    return (ts, Ty::never(), Some(Ty::Int));
                }
            }
            if self.chance(1, 5) {
                if let Some((ts, ty)) = self.gen_named_tail(env, tin, d, cx) {
                    return (ts, ty, Some(Ty::Int));
                }
            }
        }
        let readable = env.readable();
        let data_vars: Vec<&Var> = readable.iter().filter(|v| !v.ty.top_fn()).collect();
        let fn_vars: Vec<&Var> = readable.iter().filter(|v| matches!(v.ty, Ty::Fn(..))).collect();
        let mut opts: Vec<(&'static str, u64)> = vec![("lit", 4), ("match", if tin.is_nil() { 1 } else { 6 })];
        if !tin.is_nil() {
            opts.push(("ripple", 2));
        }
        if !small {
            opts.push(("tuple", 4));
            opts.push(("block", 5));
            opts.push(("arith", 3));
            opts.push(("fnlit", 1));
        } else {
            opts.push(("arith0", 2));
        }
        if matches!(tin, Ty::Tup(_, fs) if !fs.is_empty()) {
            opts.push(("ripple-acc", 4));
        }
        if !data_vars.is_empty() {
            opts.push(("var", 4));
        }
        if !fn_vars.is_empty() {
            opts.push(("call", 10));
            opts.push(("ref", 1));
        }
        if let Some(p) = &cx.param {
            if !p.top_fn() && !p.is_nil() {
                opts.push(("param", 3));
            }
        }
        if tin.sub(&int2()) {
            opts.push(("builtin-on-flow", 8));
        }
        // a string with holes: needs a `Str` to put into a hole (a variable, the flowing value)
        let str_vars: Vec<String> = data_vars.iter().filter(|v| v.ty == Ty::str_()).map(|v| v.name.clone()).collect();
        if !str_vars.is_empty() || *tin == Ty::str_() {
            opts.push(("interp", 6));
        }
        let total: u64 = opts.iter().map(|o| o.1).sum();
        let mut r = self.rng.below(total);
        let mut kind = opts[0].0;
        for (k, w) in &opts {
            if r < *w {
                kind = k;
                break;
            }
            r -= *w;
        }
        match kind {
            "lit" => {
                let (t, ty) = self.gen_lit();
                (vec![t], ty, None)
            }
            "interp" => {
                // `"{x}"` (a string that is nothing but one hole), `"a{x}"`, `"{~}-{x}"`, …
                let words = ["", "", "a", "hi ", "-", "="];
                let nholes = if self.chance(2, 3) { 1 } else { 2 };
                let mut segs = vec![];
                for h in 0..nholes {
                    if h > 0 || self.chance(1, 2) {
                        let w = words[self.rng.usize(words.len())];
                        if !w.is_empty() {
                            segs.push(Seg::Text(w.to_string()));
                        }
                    }
                    let hole_terms = if *tin == Ty::str_() && (str_vars.is_empty() || self.chance(1, 2)) {
                        vec![Term::Access(Src::Ripple, vec![])]
                    } else if !str_vars.is_empty() {
                        vec![Term::Access(Src::Var(str_vars[self.rng.usize(str_vars.len())].clone()), vec![])]
                    } else {
                        vec![Term::Str("z".into())]
                    };
                    segs.push(Seg::Hole(Expr { branches: vec![Branch { cond: vec![Chain::new(hole_terms)], cons: None }] }));
                }
                if self.chance(1, 3) {
                    let w = words[self.rng.usize(words.len())];
                    if !w.is_empty() {
                        segs.push(Seg::Text(w.to_string()));
                    }
                }
                self.feat(if segs.len() == 1 { "string-sole-hole" } else { "string-interpolation" });
                (vec![Term::Interp(segs)], Ty::str_(), None)
            }
            "ripple" => {
                self.feat("ripple");
                (vec![Term::Access(Src::Ripple, vec![])], tin.clone(), None)
            }
            "ripple-acc" => {
                let (path, ty) = self.pick_path(tin, 2).unwrap();
                self.feat("ripple-access");
                // `~.x` is never called, even if it is a function
                (vec![Term::Access(Src::Ripple, path)], ty, None)
            }
            "match" => {
                let (pat, binds, irref, vty) = self.gen_pat_for(env, tin, d, PatUse::InChain);
                let st = if irref { St::Definite } else { St::Pending };
                for (n, t) in binds {
                    env.bind(&n, t, st.clone());
                }
                self.feat(if irref { "match-irrefutable" } else { "match-refutable" });
                (vec![Term::Match(pat)], vty, None)
            }
            "tuple" => {
                if self.chance(1, 5) {
                    if let Some((ts, ty)) = self.gen_spread_tuple(env, tin, d, cx) {
                        return (ts, ty, None);
                    }
                }
                let (ts, ty) = self.gen_tuple(env, tin, d, cx);
                (ts, ty, None)
            }
            "block" => {
                let (e, ty) = self.gen_block(env, tin, d - 1, tail, cx);
                self.feat("block");
                (vec![Term::Block(e)], ty, None)
            }
            "arith" | "arith0" => {
                let dd = if kind == "arith0" { 0 } else { d - 1 };
                let ts = self.gen_arith(env, tin, dd, cx);
                (ts, Ty::Int, Some(int2()))
            }
            "builtin-on-flow" => {
                let op = *self.rng.pick(&["integer_add", "integer_subtract", "integer_multiply", "integer_compare"]);
                self.feat("builtin-on-flow");
                (vec![builtin(op)], Ty::Int, None)
            }
            "fnlit" => {
                let (t, ty, rec) = self.gen_fn(env, d - 1);
                if rec || matches!(t, Term::Fn { body: None, .. }) {
                    // a count-down function must stay under a name so that calls keep arguments small;
                    // `#T` directly before a `{ … }` term would read as a function with that body
                    let (t, ty) = self.gen_lit();
                    return (vec![t], ty, None);
                }
                self.feat("fn-literal-value");
                (vec![t], ty, None)
            }
            "var" => {
                let v = (*self.rng.pick(&data_vars)).clone();
                if self.chance(1, 2) {
                    if let Some((path, ty)) = self.pick_path(&v.ty, 2) {
                        if let Ty::Fn(p, r) = &ty {
                            // a function-valued field read bare is *called* with the flow
                            if p.is_nil() || tin.sub(p) {
                                self.feat("call-field");
                                return (vec![Term::Access(Src::Var(v.name.clone()), path)], (**r).clone(), None);
                            }
                            self.feat("ref-field");
                            return (vec![Term::Ref(Src::Var(v.name.clone()), path)], ty, None);
                        }
                        if Self::bare_ok(&ty) {
                            self.feat("var-access");
                            return (vec![Term::Access(Src::Var(v.name.clone()), path)], ty, None);
                        }
                    }
                }
                self.feat("var");
                (vec![Term::Access(Src::Var(v.name.clone()), vec![])], v.ty.clone(), None)
            }
            "call" => {
                let f = (*self.rng.pick(&fn_vars)).clone();
                let (ts, ty) = self.gen_call(env, tin, d, cx, &f);
                (ts, ty, Some(Ty::Int))
            }
            "ref" => {
                let f = (*self.rng.pick(&fn_vars)).clone();
                if f.rec {
                    let (t, ty) = self.gen_lit();
                    return (vec![t], ty, None);
                }
                self.feat("ref");
                (vec![Term::Ref(Src::Var(f.name.clone()), vec![])], f.ty.clone(), None)
            }
            "param" => {
                let p = cx.param.clone().unwrap();
                if self.chance(1, 2) {
                    if let Some((path, ty)) = self.pick_path(&p, 2) {
                        if let Ty::Fn(fp, fr) = &ty {
                            if fp.is_nil() || tin.sub(fp) {
                                self.feat("call-parameter-field");
                                return (vec![Term::Access(Src::Param, path)], (**fr).clone(), None);
                            }
                        } else if Self::bare_ok(&ty) {
                            self.feat("param-access");
                            return (vec![Term::Access(Src::Param, path)], ty, None);
                        }
                    }
                }
                self.feat("param");
                (vec![Term::Access(Src::Param, vec![])], p, None)
            }
            _ => unreachable!(),
        }
    }

    fn gen_tuple(&mut self, env: &mut Env, tin: &Ty, d: u32, cx: &Cx) -> (Vec<Term>, Ty) {
        let n = match self.rng.below(8) {
            0 => 1,
            1..=5 => 2,
            _ => {
                if self.low() {
                    2
                } else {
                    3
                }
            }
        };
        let name = if self.chance(2, 5) { Some(TUPLE_NAMES[self.rng.usize(4)].to_string()) } else { None };
        let labelled = self.chance(1, 3);
        let mut labels: Vec<&str> = LABELS.to_vec();
        self.rng.shuffle(&mut labels);
        let mut fields = vec![];
        let mut ftys = vec![];
        for i in 0..n {
            env.kill_pending();
            let (terms, ty) = if self.chance(1, 3) && !tin.is_nil() && !tin.top_fn() {
                self.feat("ripple-in-field");
                (vec![Term::Access(Src::Ripple, vec![])], tin.clone())
            } else if self.chance(1, 2) || self.low() {
                // a single term
                let (ts, ty, _) = self.gen_term(env, tin, d - 1, false, cx);
                (ts, ty)
            } else {
                let (ts, ty, _) = self.gen_terms(env, tin, d - 1, false, cx);
                (ts, ty)
            };
            // bindings made by refutable matches inside a field may be unbound afterwards
            env.kill_pending();
            let l = if labelled && (i == 0 || self.chance(3, 4)) { Some(labels[i].to_string()) } else { None };
            let ty = if ty.is_never() { Ty::Int } else { ty };
            // a field-level binding `x = chain`: binds in the enclosing scope, the field is the verdict
            if self.chance(1, 14) && !ty.contains_nil() && !ty.has_fn() && !matches!(terms.last(), Some(Term::Match(_))) {
                let name = self.var_name(env, &[]);
                env.bind(&name, ty.clone(), St::Definite);
                self.feat("field-binding");
                fields.push(Field::Val(l.clone(), Chain { pat: Some(Pat::Bind(name)), terms }));
                ftys.push((l, Ty::ok()));
                continue;
            }
            fields.push(Field::Val(l.clone(), Chain::new(terms)));
            ftys.push((l, ty));
        }
        self.feat("tuple");
        (vec![Term::Tuple(name.clone().map(TupName::Named).unwrap_or(TupName::Anon), fields)], Ty::Tup(name, ftys))
    }

    /// a tuple built with spreads: `[...a, y: 3]`, `a[..., y: 3]`, `~[..., y: 2]`, `B[...]`, `[w: 0, ...a, ...b]`
    fn gen_spread_tuple(&mut self, env: &mut Env, tin: &Ty, d: u32, cx: &Cx) -> Option<(Vec<Term>, Ty)> {
        let mut sources: Vec<(Option<String>, Ty)> = env
            .readable()
            .into_iter()
            .filter(|v| matches!(&v.ty, Ty::Tup(_, fs) if !fs.is_empty()))
            .map(|v| (Some(v.name.clone()), v.ty.clone()))
            .collect();
        if matches!(tin, Ty::Tup(_, fs) if !fs.is_empty()) {
            sources.push((None, tin.clone()));
            sources.push((None, tin.clone()));
        }
        if sources.is_empty() {
            return None;
        }
        let first = sources[self.rng.usize(sources.len())].clone();
        let mut fields: Vec<Field> = vec![];
        let mut ftys: Vec<(Option<String>, Ty)> = vec![];
        let mut inherited: Option<Option<String>> = None;
        let add_spread = |src: &(Option<String>, Ty), fields: &mut Vec<Field>, ftys: &mut Vec<(Option<String>, Ty)>, inh: &mut Option<Option<String>>| {
            let Ty::Tup(n, sfs) = &src.1 else { return };
            if inh.is_none() {
                *inh = Some(n.clone());
            }
            for (l, t) in sfs {
                set_or_append(ftys, l.clone(), t.clone());
            }
            fields.push(Field::Spread(src.0.clone()));
        };
        let name = match self.rng.below(4) {
            0 => TupName::Inherit,
            1 => TupName::Named(TUPLE_NAMES[self.rng.usize(4)].to_string()),
            _ => TupName::Anon,
        };
        // a leading explicit field only when the name is not inherited
        let mut used_labels: Vec<String> = vec![];
        let explicit = |g: &mut Gen, env: &mut Env, fields: &mut Vec<Field>, ftys: &mut Vec<(Option<String>, Ty)>, used: &mut Vec<String>| {
            let existing: Vec<String> = ftys.iter().filter_map(|f| f.0.clone()).filter(|l| !used.contains(l)).collect();
            let label = if !existing.is_empty() && g.chance(1, 2) {
                Some(existing[g.rng.usize(existing.len())].clone())
            } else if g.chance(2, 3) {
                let l = LABELS[g.rng.usize(LABELS.len())].to_string();
                if used.contains(&l) { None } else { Some(l) }
            } else {
                None
            };
            if let Some(l) = &label {
                used.push(l.clone());
            }
            env.kill_pending();
            let (ts, ty) = if g.chance(1, 4) && !tin.top_fn() {
                (vec![Term::Access(Src::Ripple, vec![])], tin.clone())
            } else {
                let (ts, ty, _) = g.gen_term(env, tin, d.saturating_sub(1), false, cx);
                (ts, ty)
            };
            env.kill_pending();
            let ty = if ty.is_never() { Ty::Int } else { ty };
            fields.push(Field::Val(label.clone(), Chain::new(ts)));
            set_or_append(ftys, label, ty);
        };
        // arrangement: explicit fields and one or two spreads in ANY order (an inherited name needs the
        // spread first); an explicit field written BEFORE a spread may carry a label the spread also has
        // (the later source wins, the position is that of the first occurrence)
        let second = if self.chance(1, 3) { Some(sources[self.rng.usize(sources.len())].clone()) } else { None };
        let upcoming: Vec<String> = [Some(&first), second.as_ref()]
            .into_iter()
            .flatten()
            .filter_map(|s| if let Ty::Tup(_, fs) = &s.1 { Some(fs.iter().filter_map(|f| f.0.clone()).collect::<Vec<_>>()) } else { None })
            .flatten()
            .collect();
        let mut items: Vec<u8> = vec![1]; // 1 = first spread, 2 = second spread, 0 = explicit field
        if second.is_some() {
            items.push(2);
        }
        for _ in 0..self.rng.usize(3) {
            items.push(0);
        }
        if matches!(name, TupName::Inherit) {
            let mut rest: Vec<u8> = items[1..].to_vec();
            self.rng.shuffle(&mut rest);
            items.truncate(1);
            items.extend(rest);
        } else {
            self.rng.shuffle(&mut items);
        }
        for (k, it) in items.iter().enumerate() {
            match it {
                1 => add_spread(&first, &mut fields, &mut ftys, &mut inherited),
                2 => add_spread(second.as_ref().unwrap(), &mut fields, &mut ftys, &mut inherited),
                _ => {
                    let spread_follows = items[k + 1..].iter().any(|j| *j != 0);
                    if spread_follows && !upcoming.is_empty() && self.chance(2, 3) {
                        // pre-seed the label choice with a label of an upcoming spread
                        let cands: Vec<String> = upcoming.iter().filter(|l| !used_labels.contains(l)).cloned().collect();
                        if !cands.is_empty() {
                            let l = cands[self.rng.usize(cands.len())].clone();
                            used_labels.push(l.clone());
                            env.kill_pending();
                            let (ts, ty, _) = self.gen_term(env, tin, d.saturating_sub(1), false, cx);
                            env.kill_pending();
                            let ty = if ty.is_never() { Ty::Int } else { ty };
                            fields.push(Field::Val(Some(l.clone()), Chain::new(ts)));
                            set_or_append(&mut ftys, Some(l), ty);
                            self.feat("spread-explicit-before-same-label");
                            continue;
                        }
                    }
                    explicit(self, env, &mut fields, &mut ftys, &mut used_labels);
                }
            }
        }
        let n = match &name {
            TupName::Anon => None,
            TupName::Named(n) => Some(n.clone()),
            TupName::Inherit => inherited.clone().flatten(),
        };
        self.feat("spread");
        Some((vec![Term::Tuple(name, fields)], Ty::Tup(n, ftys)))
    }

    /// `[A, B] __integer_op__`
    fn gen_arith(&mut self, env: &mut Env, tin: &Ty, d: u32, cx: &Cx) -> Vec<Term> {
        let op = match self.rng.below(14) {
            0..=4 => "integer_add",
            5..=6 => "integer_subtract",
            7..=8 => "integer_multiply",
            9..=11 => "integer_compare",
            12 => "integer_divide",
            _ => "integer_modulo",
        };
        let a = self.gen_of_type(env, tin, &Ty::Int, d, cx);
        let b = self.gen_of_type(env, tin, &Ty::Int, d, cx);
        self.feat("arith");
        vec![pair(a, b), builtin(op)]
    }

    /// a small integer argument (for count-down functions)
    fn small_int_terms(&mut self, env: &mut Env, tin: &Ty, d: u32, cx: &Cx) -> Vec<Term> {
        if self.chance(2, 3) || d == 0 {
            vec![lit_int(self.rng.range(-1, 9))]
        } else {
            let a = self.gen_of_type(env, tin, &Ty::Int, d - 1, cx);
            vec![pair(a, vec![lit_int(7)]), builtin("integer_modulo")]
        }
    }

    fn rec_arg(&mut self, env: &mut Env, tin: &Ty, d: u32, cx: &Cx, p: &Ty) -> Vec<Term> {
        match p {
            Ty::Int => self.small_int_terms(env, tin, d, cx),
            Ty::Tup(None, fs) => {
                let first = self.small_int_terms(env, tin, d, cx);
                let second = self.gen_of_type(env, tin, &fs[1].1, d.saturating_sub(1), cx);
                vec![pair(first, second)]
            }
            _ => unreachable!(),
        }
    }

    fn gen_call(&mut self, env: &mut Env, tin: &Ty, d: u32, cx: &Cx, f: &Var) -> (Vec<Term>, Ty) {
        let Ty::Fn(p, r) = &f.ty else { unreachable!() };
        let callee = Term::Access(Src::Var(f.name.clone()), vec![]);
        if f.rec {
            let mut ts = self.rec_arg(env, tin, d, cx, p);
            ts.push(callee);
            self.feat("call-recursive");
            return (ts, (**r).clone());
        }
        if p.is_nil() {
            self.feat("call-nilary");
            return (vec![callee], (**r).clone());
        }
        if tin.sub(p) && self.chance(2, 3) {
            self.feat("call-with-flow");
            return (vec![callee], (**r).clone());
        }
        let mut ts = self.gen_of_type(env, tin, p, d.saturating_sub(1), cx);
        ts.push(callee);
        self.feat("call-with-built-arg");
        (ts, (**r).clone())
    }

    /// `… ^` inside the guarded part of a count-down function
    fn gen_self_tail(&mut self, env: &mut Env, tin: &Ty, d: u32, cx: &Cx) -> Option<Vec<Term>> {
        let p = cx.param.clone()?;
        let k = self.rng.range(1, 3);
        let dec = |base: Vec<Acc>| -> Vec<Term> {
            vec![pair(vec![Term::Access(Src::Param, base)], vec![lit_int(k)]), builtin("integer_subtract")]
        };
        match &p {
            Ty::Int => {
                let mut ts = dec(vec![]);
                ts.push(Term::Tail(None));
                Some(ts)
            }
            Ty::Tup(None, fs) if fs.len() == 2 => {
                let second = self.gen_of_type(env, tin, &fs[1].1, d.saturating_sub(1), cx);
                Some(vec![pair(dec(vec![Acc::Index(0)]), second), Term::Tail(None)])
            }
            _ => None,
        }
    }

    /// `arg ^g` / `&g ^~` in tail position
    fn gen_named_tail(&mut self, env: &mut Env, tin: &Ty, d: u32, cx: &Cx) -> Option<(Vec<Term>, Ty)> {
        let fns: Vec<Var> = env.readable().into_iter().filter(|v| matches!(v.ty, Ty::Fn(..))).collect();
        if fns.is_empty() {
            return None;
        }
        let f = fns[self.rng.usize(fns.len())].clone();
        let Ty::Fn(p, r) = &f.ty else { unreachable!() };
        if f.rec {
            let mut ts = self.rec_arg(env, tin, d, cx, p);
            ts.push(Term::Tail(Some((f.name.clone(), vec![]))));
            self.feat("tail-named");
            return Some((ts, (**r).clone()));
        }
        if p.is_nil() {
            if self.chance(1, 2) {
                self.feat("tail-ripple");
                return Some((vec![Term::Ref(Src::Var(f.name.clone()), vec![]), Term::TailRipple], (**r).clone()));
            }
            self.feat("tail-named");
            return Some((vec![Term::Tuple(TupName::Anon, vec![]), Term::Tail(Some((f.name.clone(), vec![])))], (**r).clone()));
        }
        let mut ts = self.gen_of_type(env, tin, p, d.saturating_sub(1), cx);
        ts.push(Term::Tail(Some((f.name.clone(), vec![]))));
        self.feat("tail-named");
        Some((ts, (**r).clone()))
    }

    /// Terms that turn a flow of type `tin` into a value of (a subtype of) `want`.
    fn gen_of_type(&mut self, env: &mut Env, tin: &Ty, want: &Ty, d: u32, cx: &Cx) -> Vec<Term> {
        self.budget -= 1;
        let readable = env.readable();
        // existing values of a fitting type
        let mut cands: Vec<Vec<Term>> = vec![];
        if tin.sub(want) && !tin.is_nil() && !tin.top_fn() {
            cands.push(vec![Term::Access(Src::Ripple, vec![])]);
        }
        for v in &readable {
            if v.rec {
                continue;
            }
            if v.ty.sub(want) {
                if matches!(v.ty, Ty::Fn(..)) {
                    cands.push(vec![Term::Ref(Src::Var(v.name.clone()), vec![])]);
                } else if !v.ty.top_fn() {
                    cands.push(vec![Term::Access(Src::Var(v.name.clone()), vec![])]);
                }
            } else if let Ty::Tup(_, fs) = &v.ty {
                for (i, (l, t)) in fs.iter().enumerate() {
                    if t.sub(want) && !t.top_fn() {
                        let acc = match l {
                            Some(l) => Acc::Label(l.clone()),
                            None => Acc::Index(i),
                        };
                        cands.push(vec![Term::Access(Src::Var(v.name.clone()), vec![acc])]);
                    }
                }
            } else if let Ty::Fn(p, r) = &v.ty {
                if r.sub(want) && d > 0 && !r.top_fn() {
                    if p.is_nil() {
                        cands.push(vec![Term::Access(Src::Var(v.name.clone()), vec![])]);
                    } else if tin.sub(p) {
                        cands.push(vec![Term::Access(Src::Ripple, vec![]), Term::Access(Src::Var(v.name.clone()), vec![])]);
                    }
                }
            }
        }
        if let Some(p) = &cx.param {
            if p.sub(want) && !p.top_fn() && !p.is_nil() {
                cands.push(vec![Term::Access(Src::Param, vec![])]);
            } else if let Ty::Tup(_, fs) = p {
                for (i, (l, t)) in fs.iter().enumerate() {
                    if t.sub(want) && !t.top_fn() {
                        let acc = match l {
                            Some(l) if self.rng.chance(1, 2) => Acc::Label(l.clone()),
                            _ => Acc::Index(i),
                        };
                        cands.push(vec![Term::Access(Src::Param, vec![acc])]);
                    }
                }
            }
        }
        if !cands.is_empty() && self.chance(3, 5) {
            let i = self.rng.usize(cands.len());
            return cands.swap_remove(i);
        }
        // construct
        match want {
            Ty::Int => {
                if d > 0 && self.budget > 0 && self.chance(1, 3) {
                    self.gen_arith(env, tin, d - 1, cx)
                } else {
                    vec![lit_int(self.rng.range(-3, 12))]
                }
            }
            Ty::Bin => {
                let n = self.rng.usize(3);
                vec![Term::Lit(Lit::Bin(self.rng.bytes(n)))]
            }
            Ty::Tup(name, fs) => {
                if *want == Ty::str_() && self.chance(1, 2) {
                    return vec![Term::Str("s".into())];
                }
                let mut fields = vec![];
                for (l, t) in fs {
                    let terms = self.gen_of_type(env, tin, t, d.saturating_sub(1), cx);
                    fields.push(Field::Val(l.clone(), Chain::new(terms)));
                }
                vec![Term::Tuple(name.clone().map(TupName::Named).unwrap_or(TupName::Anon), fields)]
            }
            Ty::Union(vs) => {
                if vs.is_empty() {
                    return vec![lit_int(0)];
                }
                let v = vs[self.rng.usize(vs.len())].clone();
                self.gen_of_type(env, tin, &v, d, cx)
            }
            Ty::Fn(p, r) => {
                // #p { <value of r> } — a closure over the visible bindings
                let mut inner = Env { vars: env.vars.clone() };
                inner.kill_pending();
                let icx = Cx { param: Some((**p).clone()), rec: false };
                let terms = self.gen_of_type(&mut inner, p, r, d.saturating_sub(1), &icx);
                self.feat("fn-literal-argument");
                vec![Term::Fn {
                    param: (**p).clone(),
                    body: Some(Expr { branches: vec![Branch { cond: vec![Chain::new(terms)], cons: None }] }),
                }]
            }
        }
    }

    // --------------------------------------------------------------------------------------------
    // blocks and functions
    // --------------------------------------------------------------------------------------------

    /// `{ b₁ | b₂ | … }` with parameter type `tin`; static type as `compile_scoped_expression`.
    fn gen_block(&mut self, env: &Env, tin: &Ty, d: u32, tail: bool, cx: &Cx) -> (Expr, Ty) {
        let n = if self.low() {
            1 + self.rng.usize(2)
        } else {
            match self.rng.below(10) {
                0..=1 => 1,
                2..=6 => 2,
                7..=8 => 3,
                _ => 4,
            }
        };
        self.gen_branches(env, tin, d, tail, cx, n)
    }

    /// One branch condition (and the environment after it, with the condition's bindings settled).
    fn gen_cond(&mut self, env: &Env, tin: &Ty, d: u32, tail_cond: bool, cx: &Cx) -> (Vec<Chain>, Ty, Env) {
        let mut benv = Env { vars: env.vars.clone() };
        benv.kill_pending();
        let mut cond: Vec<Chain>;
        let mut cty: Ty;
        let mut pending: Vec<String>;
        if self.chance(3, 5) {
            // begins by matching the block parameter
            let (pat, binds, irref, vty) = self.gen_pat_for(&benv, tin, d, PatUse::InChain);
            let st = if irref { St::Definite } else { St::Pending };
            pending = vec![];
            for (nm, t) in binds {
                benv.bind(&nm, t, st.clone());
                if !irref {
                    pending.push(nm);
                }
            }
            self.feat("branch-match-on-parameter");
            cty = vty;
            let mut first = vec![Term::Match(pat)];
            if self.chance(1, 6) && !self.low() && !cty.is_nil() {
                // the chain goes on after the match (nil flows on; the match's variables may be unbound)
                benv.kill_pending();
                pending.clear();
                let (ts, ty, _) = self.gen_term(&mut benv, &cty, d.saturating_sub(1), false, cx);
                first.extend(ts);
                cty = ty;
                if matches!(first.last(), Some(Term::Match(_))) {
                    pending = benv.pending();
                }
                self.feat("branch-match-then-more-terms");
            }
            cond = vec![Chain::new(first)];
            if self.chance(1, 3) && !self.low() && !cty.is_nil() && !cty.is_never() {
                // more steps after the match (guards)
                benv.settle(&pending);
                benv.kill_pending();
                let may_nil = cty.contains_nil();
                let more = self.gen_seq(&mut benv, &cty.without_nil(), d, tail_cond, cx, 2);
                self.fresh_start = false;
                cond.extend(more.chains);
                cty = if may_nil { more.ty.with_nil() } else { more.ty };
                pending = more.pending;
                self.feat("branch-match-then-guard-steps");
            }
        } else {
            let out = self.gen_seq(&mut benv, tin, d, tail_cond, cx, 2);
            cond = out.chains;
            cty = out.ty;
            pending = out.pending;
        }
        benv.settle(&pending);
        benv.kill_pending();
        (cond, cty, benv)
    }

    /// Fall-through probe: a bodiless branch that BINDS and then fails at run time (value-dependent
    /// guard), followed by a branch that stores a local (its own binding or a nested block's
    /// parameter) and reads it back — the later branch must not see the earlier one's slots.
    fn fallthrough_probe(&mut self, env: &Env, tin: &Ty) -> Option<(Expr, Ty)> {
        let x = self.var_name(env, &[]);
        let y = self.var_name(env, &[x.clone()]);
        let z = self.var_name(env, &[x.clone(), y.clone()]);
        // branch 1 (bodiless): bind, then a guard that fails for most values
        let k1 = self.rng.range(20, 99);
        let b1 = if *tin == Ty::Int && self.chance(1, 2) {
            // =x, [x, k] compare =0        (fails unless the parameter is k)
            vec![
                Chain::new(vec![Term::Match(Pat::Bind(x.clone()))]),
                Chain::new(vec![pair(vec![Term::Access(Src::Var(x.clone()), vec![])], vec![lit_int(k1)]), builtin("integer_compare"), Term::Match(Pat::Lit(Lit::Int(0)))]),
            ]
        } else {
            // x = k1, y = k2, [x, y] compare =0   (two bindings, then fails)
            vec![
                Chain { pat: Some(Pat::Bind(x.clone())), terms: vec![lit_int(k1)] },
                Chain { pat: Some(Pat::Bind(y.clone())), terms: vec![lit_int(k1 + 1)] },
                Chain::new(vec![pair(vec![Term::Access(Src::Var(x.clone()), vec![])], vec![Term::Access(Src::Var(y.clone()), vec![])]), builtin("integer_compare"), Term::Match(Pat::Lit(Lit::Int(0)))]),
            ]
        };
        // optional second failing bodiless branch: a tuple pattern with binders on a non-tuple-ish value
        let mut branches = vec![Branch { cond: b1, cons: None }];
        if self.chance(1, 3) {
            let w = self.var_name(env, &[x.clone(), y.clone(), z.clone()]);
            branches.push(Branch {
                cond: vec![Chain::new(vec![
                    pair(vec![lit_int(1)], vec![lit_int(2)]),
                    Term::Match(Pat::Tup(None, vec![(None, Pat::Bind(w.clone())), (None, Pat::Lit(Lit::Int(3)))])),
                ])],
                cons: None,
            });
        }
        // later branch: stores a local and reads it back
        let k2 = self.rng.range(100, 199);
        let (later, ty) = match self.rng.below(3) {
            0 => (
                // z = k2, [z, k2]
                Branch {
                    cond: vec![
                        Chain { pat: Some(Pat::Bind(z.clone())), terms: vec![lit_int(k2)] },
                        Chain::new(vec![pair(vec![Term::Access(Src::Var(z.clone()), vec![])], vec![lit_int(k2)])]),
                    ],
                    cons: None,
                },
                Ty::Tup(None, vec![(None, Ty::Int), (None, Ty::Int)]),
            ),
            1 => (
                // k2 { =z => [z] }     (nested block: its parameter slot)
                Branch {
                    cond: vec![Chain::new(vec![
                        lit_int(k2),
                        Term::Block(Expr {
                            branches: vec![Branch {
                                cond: vec![Chain::new(vec![Term::Match(Pat::Bind(z.clone()))])],
                                cons: Some(vec![Chain::new(vec![Term::Tuple(
                                    TupName::Anon,
                                    vec![Field::Val(None, Chain::new(vec![Term::Access(Src::Var(z.clone()), vec![])]))],
                                )])]),
                            }],
                        }),
                    ])],
                    cons: None,
                },
                Ty::Tup(None, vec![(None, Ty::Int)]),
            ),
            _ => (
                // [k2, k2 + 1] =[z, y] => [y, z]
                Branch {
                    cond: vec![Chain::new(vec![
                        pair(vec![lit_int(k2)], vec![lit_int(k2 + 1)]),
                        Term::Match(Pat::Tup(None, vec![(None, Pat::Bind(z.clone())), (None, Pat::Bind(y.clone()))])),
                    ])],
                    cons: Some(vec![Chain::new(vec![pair(
                        vec![Term::Access(Src::Var(y.clone()), vec![])],
                        vec![Term::Access(Src::Var(z.clone()), vec![])],
                    )])]),
                },
                Ty::Tup(None, vec![(None, Ty::Int), (None, Ty::Int)]),
            ),
        };
        branches.push(later);
        let ty = if branches.last().map(|b| b.cons.is_some()).unwrap_or(false) { ty.with_nil() } else { ty };
        self.feat("probe-fallthrough-after-binding-branch");
        // the last branch's condition can fail only in the third form (never: the pattern is exact)
        Some((Expr { branches }, ty))
    }

    fn gen_branches(&mut self, env: &Env, tin: &Ty, d: u32, tail: bool, cx: &Cx, n: usize) -> (Expr, Ty) {
        if !tail && !cx.rec && self.chance(1, 14) {
            if let Some(r) = self.fallthrough_probe(env, tin) {
                return r;
            }
        }
        let mut branches = vec![];
        let mut types: Vec<Ty> = vec![];
        let mut exhaustive = false;
        for i in 0..n {
            if i > 0 && self.low() {
                break;
            }
            let is_last = i + 1 == n;
            let has_cons = self.chance(3, 5);
            let (cond, cty, mut benv) = self.gen_cond(env, tin, d, tail && !has_cons && is_last, cx);
            if cty.is_nil() {
                // statically dead branch (the compiler skips it; nil only counts for the last one)
                branches.push(Branch { cond, cons: None });
                if is_last {
                    types.push(Ty::nil());
                }
                continue;
            }
            if has_cons && !cty.is_never() {
                let out = self.gen_seq(&mut benv, tin, d, tail, cx, 2);
                if out.ty.contains_nil() {
                    self.feat("consequence-may-fail");
                }
                if is_last && cty.contains_nil() {
                    self.feat("last-branch-consequence-refutable-condition");
                }
                types.push(out.ty);
                if is_last && !cty.contains_nil() {
                    exhaustive = true;
                }
                branches.push(Branch { cond, cons: Some(out.chains) });
                self.feat("consequence");
            } else {
                if is_last {
                    types.push(cty.clone());
                    if !cty.contains_nil() {
                        exhaustive = true;
                    }
                } else {
                    let t = cty.without_nil();
                    if !t.is_never() || cty.is_never() {
                        types.push(t);
                    }
                }
                branches.push(Branch { cond, cons: None });
            }
        }
        if n > 1 {
            self.feat("branches");
        }
        if !exhaustive {
            types.push(Ty::nil());
        }
        (Expr { branches }, Ty::union(types))
    }

    /// `#T { … }`: returns the term, its type, and whether it is a guarded count-down function.
    /// a literal of a simple data type
    fn lit_of_type(&mut self, ty: &Ty) -> Option<Term> {
        match ty {
            Ty::Int => Some(lit_int(self.rng.range(-3, 12))),
            Ty::Bin => {
                let n = self.rng.usize(3);
                Some(Term::Lit(Lit::Bin(self.rng.bytes(n))))
            }
            Ty::Tup(n, fs) => {
                let mut fields = vec![];
                for (l, t) in fs {
                    fields.push(Field::Val(l.clone(), Chain::new(vec![self.lit_of_type(t)?])));
                }
                Some(Term::Tuple(n.clone().map(TupName::Named).unwrap_or(TupName::Anon), fields))
            }
            _ => None,
        }
    }

    /// repeated-identifier probes: `g = #T { =PAT => <the bound names> | 0 }` whose pattern repeats a name,
    /// called in the next step from a context that addresses its operands BY POSITION — `v [ARG g, ~]`:
    /// the second field's `~` is a Pick below whatever the first field's call left — with an argument
    /// that makes the equality hold or FAIL (about half each). Families: the two occurrences share a path
    /// prefix (same sub-tuple, at several depths, named / unnamed containers); the first occurrence sits
    /// inside a sub-pattern the compiler analyses once per VARIANT of a union-typed field (tuple pattern,
    /// partial pattern), the repetition after it (20d41f1).
    fn repeat_probe(&mut self, env: &mut Env) -> Option<(Chain, Ty, Vec<String>, bool)> {
        let g = self.var_name(env, &[]);
        let a = self.var_name(env, &[g.clone()]);
        let b = self.var_name(env, &[g.clone(), a.clone()]);
        if g == a || g == b || a == b || env.lookup(&g).is_some() || env.lookup(&a).is_some() || env.lookup(&b).is_some() {
            return None;
        }
        let int = |z: i64| Term::Lit(Lit::Int(z));
        let tupv = |n: Option<&str>, fs: Vec<(Option<&str>, Term)>| {
            Term::Tuple(
                match n {
                    Some(n) => TupName::Named(n.to_string()),
                    None => TupName::Anon,
                },
                fs.into_iter().map(|(l, t)| Field::Val(l.map(|l| l.to_string()), Chain::new(vec![t]))).collect(),
            )
        };
        let u = |n: Option<&str>, fs: Vec<(Option<&str>, Ty)>| Ty::Tup(n.map(|n| n.to_string()), fs.into_iter().map(|(l, t)| (l.map(|l| l.to_string()), t)).collect());
        let pt = |n: Option<&str>, fs: Vec<Pat>| Pat::Tup(n.map(|n| n.to_string()), fs.into_iter().map(|p| (None, p)).collect());
        let x = self.rng.range(0, 3);
        let y = if self.chance(1, 2) { x } else { self.rng.range(0, 3) };
        let z = self.rng.range(0, 9);
        let ba = || Pat::Bind(a.clone());
        let bb = || Pat::Bind(b.clone());
        let kind = self.rng.below(7);
        // parameter type, pattern, argument, names to return
        let (pty, pat, arg, outs, feat): (Ty, Pat, Term, Vec<String>, &'static str) = match kind {
            0 => (
                u(None, vec![(None, u(None, vec![(None, Ty::Int), (None, Ty::Int)])), (None, Ty::Int)]),
                pt(None, vec![pt(None, vec![ba(), ba()]), bb()]),
                tupv(None, vec![(None, tupv(None, vec![(None, int(x)), (None, int(y))])), (None, int(z))]),
                vec![a.clone(), b.clone()],
                "repeat-probe-shared-prefix",
            ),
            1 => (
                u(Some("A"), vec![(None, Ty::Int), (None, u(None, vec![(None, u(None, vec![(None, Ty::Int), (None, Ty::Int)])), (None, Ty::Int)]))]),
                pt(Some("A"), vec![Pat::Wild, pt(None, vec![pt(None, vec![ba(), ba()]), bb()])]),
                tupv(
                    Some("A"),
                    vec![(None, int(z)), (None, tupv(None, vec![(None, tupv(None, vec![(None, int(x)), (None, int(y))])), (None, int(z + 1))]))],
                ),
                vec![a.clone(), b.clone()],
                "repeat-probe-shared-prefix-deep",
            ),
            2 => (
                u(Some("C"), vec![(None, u(Some("P"), vec![(None, Ty::Int), (None, Ty::Int)])), (None, Ty::Int)]),
                pt(Some("C"), vec![pt(Some("P"), vec![ba(), ba()]), Pat::Wild]),
                tupv(Some("C"), vec![(None, tupv(Some("P"), vec![(None, int(x)), (None, int(y))])), (None, int(z))]),
                vec![a.clone()],
                "repeat-probe-shared-prefix-named",
            ),
            3 => (
                // three occurrences: two share the container, the third sits outside
                u(None, vec![(None, u(None, vec![(None, Ty::Int), (None, Ty::Int)])), (None, Ty::Int)]),
                pt(None, vec![pt(None, vec![ba(), ba()]), ba()]),
                tupv(None, vec![(None, tupv(None, vec![(None, int(x)), (None, int(y))])), (None, int(if self.chance(1, 2) { x } else { z }))]),
                vec![a.clone()],
                "repeat-probe-shared-prefix-and-outside",
            ),
            4 => (
                // the first occurrence inside a tuple pattern on a union-typed field (both variants match)
                u(
                    None,
                    vec![
                        (None, Ty::union(vec![u(None, vec![(None, Ty::Int), (None, Ty::Int)]), u(None, vec![(None, Ty::Int), (None, Ty::Bin)])])),
                        (None, Ty::Int),
                    ],
                ),
                pt(None, vec![pt(None, vec![ba(), Pat::Wild]), ba()]),
                tupv(
                    None,
                    vec![
                        (None, tupv(None, vec![(None, int(x)), (None, if self.chance(1, 2) { int(z) } else { Term::Lit(Lit::Bin(vec![z as u8])) })])),
                        (None, int(y)),
                    ],
                ),
                vec![a.clone()],
                "repeat-probe-after-multi-variant-tuple",
            ),
            5 => {
                // … inside a partial pattern on a union of named tuples with the same label
                let (n1, n2) = ("A", "B");
                let which = if self.chance(1, 2) { n1 } else { n2 };
                (
                    u(None, vec![(None, Ty::union(vec![u(Some(n1), vec![(Some("k"), Ty::Int)]), u(Some(n2), vec![(Some("k"), Ty::Int)])])), (None, Ty::Int)]),
                    pt(None, vec![Pat::Part(None, vec![("k".to_string(), Some(ba()))]), ba()]),
                    tupv(None, vec![(None, tupv(Some(which), vec![(Some("k"), int(x))])), (None, int(y))]),
                    vec![a.clone()],
                    "repeat-probe-after-partial-on-union",
                )
            }
            _ => {
                // … the field bound under its own label by the partial pattern, repeated as a binder
                let which = if self.chance(1, 2) { "A" } else { "B" };
                (
                    u(None, vec![(None, Ty::union(vec![u(Some("A"), vec![(Some("k"), Ty::Int)]), u(Some("B"), vec![(Some("k"), Ty::Int)])])), (None, Ty::Int)]),
                    pt(None, vec![Pat::Part(None, vec![("k".to_string(), None)]), Pat::Bind("k".to_string())]),
                    tupv(None, vec![(None, tupv(Some(which), vec![(Some("k"), int(x))])), (None, int(y))]),
                    vec!["k".to_string()],
                    "repeat-probe-after-partial-label-on-union",
                )
            }
        };
        if outs.iter().any(|o| o == "k") && env.lookup("k").is_some() {
            return None;
        }
        let res = if outs.len() == 1 {
            Term::Access(Src::Var(outs[0].clone()), vec![])
        } else {
            Term::Tuple(TupName::Anon, outs.iter().map(|o| Field::Val(None, Chain::new(vec![Term::Access(Src::Var(o.clone()), vec![])]))).collect())
        };
        let rty = if outs.len() == 1 { Ty::Int } else { Ty::Tup(None, outs.iter().map(|_| (None, Ty::Int)).collect()) };
        let body = Expr {
            branches: vec![
                Branch { cond: vec![Chain::new(vec![Term::Match(pat)])], cons: Some(vec![Chain::new(vec![res])]) },
                Branch { cond: vec![Chain::new(vec![int(0)])], cons: None },
            ],
        };
        let ret = Ty::union(vec![rty, Ty::Int]);
        let fty = Ty::Fn(Box::new(pty.clone()), Box::new(ret.clone()));
        env.bind(&g, fty, St::Definite);
        // next step: `v [ARG g, ~]`
        let v = self.rng.range(10, 99);
        let call = Chain::new(vec![
            int(v),
            Term::Tuple(
                TupName::Anon,
                vec![
                    Field::Val(None, Chain::new(vec![arg, Term::Access(Src::Var(g.clone()), vec![])])),
                    Field::Val(None, Chain::new(vec![Term::Access(Src::Ripple, vec![])])),
                ],
            ),
        ]);
        self.pending_chain = Some((call, Ty::Tup(None, vec![(None, ret), (None, Ty::Int)])));
        self.feat("repeat-probe");
        self.feat(feat);
        self.fresh_start = false;
        Some((Chain { pat: Some(Pat::Bind(g)), terms: vec![Term::Fn { param: pty, body: Some(body) }] }, Ty::ok(), vec![], false))
    }

    /// closure probes: `f = #{ … }` (called in the next step) whose body
    ///  * uses an outer variable ONLY through a pin, in every pattern position (in-chain match, chain
    ///    binding pattern, inside a tuple pattern of either) — the free-variable collector has to see it;
    ///  * reads a path `p.x` of an outer tuple AFTER rebinding `p` locally / in front of a nested
    ///    closure / by a block binder — the pre-evaluated captured path must not win over the new `p`.
    fn closure_probe(&mut self, env: &mut Env) -> Option<(Chain, Ty, Vec<String>, bool)> {
        let outer: Vec<Var> = env.readable().into_iter().filter(|v| !v.ty.has_fn()).collect();
        if outer.is_empty() {
            return None;
        }
        let ints: Vec<Var> = outer.iter().filter(|v| v.ty == Ty::Int).cloned().collect();
        let tups: Vec<(Var, Acc, Ty)> = outer
            .iter()
            .filter_map(|v| {
                if let Ty::Tup(_, fs) = &v.ty {
                    let cands: Vec<(Acc, Ty)> = fs
                        .iter()
                        .enumerate()
                        .filter(|(_, (_, t))| matches!(t, Ty::Int | Ty::Bin))
                        .map(|(i, (l, t))| (l.clone().map(Acc::Label).unwrap_or(Acc::Index(i)), t.clone()))
                        .collect();
                    if cands.is_empty() { None } else { Some((v.clone(), cands[0].0.clone(), cands[0].1.clone())) }
                } else {
                    None
                }
            })
            .collect();
        let pin_family = !ints.is_empty() && (tups.is_empty() || self.chance(1, 2));
        let unit = || Term::Tuple(TupName::Anon, vec![]);
        let (body, rty): (Expr, Ty) = if pin_family {
            let y = ints[self.rng.usize(ints.len())].name.clone();
            let v = lit_int(self.rng.range(-1, 4));
            let w = lit_int(self.rng.range(5, 9));
            let avoid: Vec<String> = vec![y.clone()];
            let z = self.var_name(env, &avoid);
            if z == y || env.lookup(&z).is_some() {
                return None;
            }
            let form = self.rng.below(4);
            let (cond, binds_z): (Chain, bool) = match form {
                0 => (Chain::new(vec![v, Term::Match(Pat::Pin(y.clone()))]), false),
                1 => (Chain { pat: Some(Pat::Pin(y.clone())), terms: vec![v] }, false),
                2 => (
                    Chain {
                        pat: Some(Pat::Tup(None, vec![(None, Pat::Pin(y.clone())), (None, Pat::Bind(z.clone()))])),
                        terms: vec![pair(vec![v], vec![w.clone()])],
                    },
                    true,
                ),
                _ => (
                    Chain::new(vec![
                        pair(vec![v], vec![w.clone()]),
                        Term::Match(Pat::Tup(None, vec![(None, Pat::Pin(y.clone())), (None, Pat::Bind(z.clone()))])),
                    ]),
                    true,
                ),
            };
            self.feat(match form {
                0 => "closure-probe-pin-inchain",
                1 => "closure-probe-pin-binding",
                2 => "closure-probe-pin-binding-tuple",
                _ => "closure-probe-pin-inchain-tuple",
            });
            let seen = if binds_z { Term::Access(Src::Var(z.clone()), vec![]) } else { lit_int(self.rng.range(10, 20)) };
            match self.rng.below(3) {
                0 => (Expr { branches: vec![Branch { cond: vec![cond], cons: None }] }, Ty::ok().with_nil()),
                1 => (Expr { branches: vec![Branch { cond: vec![cond, Chain::new(vec![seen])], cons: None }] }, Ty::Int.with_nil()),
                _ => (
                    Expr {
                        branches: vec![
                            Branch { cond: vec![cond], cons: Some(vec![Chain::new(vec![seen])]) },
                            Branch { cond: vec![Chain::new(vec![lit_int(self.rng.range(20, 30))])], cons: None },
                        ],
                    },
                    Ty::Int,
                ),
            }
        } else {
            if tups.is_empty() {
                return None;
            }
            let (p, acc, fty) = tups[self.rng.usize(tups.len())].clone();
            let newv = self.lit_of_type(&p.ty)?;
            let pn = p.name.clone();
            let read = || Term::Access(Src::Var(pn.clone()), vec![acc.clone()]);
            let rebind = Chain { pat: Some(Pat::Bind(pn.clone())), terms: vec![newv.clone()] };
            let form = self.rng.below(4);
            self.feat(match form {
                0 => "closure-probe-path-rebound",
                1 => "closure-probe-path-nested-closure",
                2 => "closure-probe-path-block-binder",
                _ => "closure-probe-path-block-then-outer",
            });
            match form {
                0 => (Expr { branches: vec![Branch { cond: vec![rebind, Chain::new(vec![read()])], cons: None }] }, fty.clone()),
                1 => {
                    let g = self.var_name(env, &[pn.clone()]);
                    if g == pn || env.lookup(&g).is_some() {
                        return None;
                    }
                    let inner = Term::Fn {
                        param: Ty::nil(),
                        body: Some(Expr { branches: vec![Branch { cond: vec![Chain::new(vec![read()])], cons: None }] }),
                    };
                    (
                        Expr {
                            branches: vec![Branch {
                                cond: vec![
                                    rebind,
                                    Chain { pat: Some(Pat::Bind(g.clone())), terms: vec![inner] },
                                    Chain::new(vec![unit(), Term::Access(Src::Var(g), vec![])]),
                                ],
                                cons: None,
                            }],
                        },
                        fty.clone(),
                    )
                }
                2 => (
                    Expr {
                        branches: vec![Branch {
                            cond: vec![Chain::new(vec![
                                newv,
                                Term::Block(Expr {
                                    branches: vec![Branch { cond: vec![Chain::new(vec![Term::Match(Pat::Bind(pn.clone()))])], cons: Some(vec![Chain::new(vec![read()])]) }],
                                }),
                            ])],
                            cons: None,
                        }],
                    },
                    fty.clone(),
                ),
                _ => (
                    Expr {
                        branches: vec![Branch {
                            cond: vec![Chain::new(vec![pair(
                                vec![Term::Block(Expr { branches: vec![Branch { cond: vec![rebind, Chain::new(vec![read()])], cons: None }] })],
                                vec![read()],
                            )])],
                            cons: None,
                        }],
                    },
                    Ty::Tup(None, vec![(None, fty.clone()), (None, fty.clone())]),
                ),
            }
        };
        let name = self.var_name(env, &[]);
        if env.lookup(&name).is_some() {
            return None;
        }
        let fty = Ty::Fn(Box::new(Ty::nil()), Box::new(rty));
        env.bind(&name, fty, St::Definite);
        self.pending_call = Some(name.clone());
        self.feat("closure-probe");
        self.fresh_start = false;
        Some((Chain { pat: Some(Pat::Bind(name)), terms: vec![Term::Fn { param: Ty::nil(), body: Some(body) }] }, Ty::ok(), vec![], false))
    }

    fn gen_fn(&mut self, env: &Env, d: u32) -> (Term, Ty, bool) {
        let recursive = self.chance(3, 10) && d > 0 && !self.low();
        let mut cap = Env { vars: env.vars.clone() };
        cap.kill_pending();
        if !cap.readable().is_empty() {
            self.feat("closure-may-capture");
        }
        if recursive {
            let p = if self.chance(1, 2) { Ty::Int } else { Ty::Tup(None, vec![(None, Ty::Int), (None, self.gen_data_ty(1))]) };
            let base_acc = if p == Ty::Int { vec![] } else { vec![Acc::Index(0)] };
            // | [$, 1] __integer_compare__ =-1 => base      ($ < 1 commits to the base case)
            let guard = Chain::new(vec![
                pair(vec![Term::Access(Src::Param, base_acc)], vec![lit_int(1)]),
                builtin("integer_compare"),
                Term::Match(Pat::Lit(Lit::Int(-1))),
            ]);
            let cx0 = Cx { param: Some(p.clone()), rec: false };
            let mut benv = Env { vars: cap.vars.clone() };
            let base = self.gen_seq(&mut benv, &p, d, true, &cx0, 2);
            let cx1 = Cx { param: Some(p.clone()), rec: true };
            let nb = 1 + self.rng.usize(2);
            let (rest, rty) = self.gen_branches(&cap, &p, d, true, &cx1, nb);
            let mut branches = vec![Branch { cond: vec![guard], cons: Some(base.chains) }];
            branches.extend(rest.branches);
            let r = Ty::union(vec![base.ty, rty]);
            self.feat("fn-recursive");
            return (Term::Fn { param: p.clone(), body: Some(Expr { branches }) }, Ty::Fn(Box::new(p), Box::new(r)), true);
        }
        let p = self.gen_param_ty();
        if !p.has_fn() && !p.is_nil() && self.chance(1, 10) {
            self.feat("fn-identity");
            return (Term::Fn { param: p.clone(), body: None }, Ty::Fn(Box::new(p.clone()), Box::new(p)), false);
        }
        let cx = Cx { param: Some(p.clone()), rec: false };
        let (body, r) = if let Ty::Fn(fp, fr) = &p {
            // body applies the parameter: `<arg> $`
            let mut e2 = Env { vars: cap.vars.clone() };
            let mut ts = self.gen_of_type(&mut e2, &p, fp, 1, &Cx { param: None, rec: false });
            ts.push(Term::Access(Src::Param, vec![]));
            self.feat("call-parameter");
            (Expr { branches: vec![Branch { cond: vec![Chain::new(ts)], cons: None }] }, (**fr).clone())
        } else {
            let n = 1 + self.rng.usize(if self.low() { 1 } else { 3 });
            self.gen_branches(&cap, &p, d, true, &cx, n)
        };
        let r = if r.is_never() { Ty::nil() } else { r };
        (Term::Fn { param: p.clone(), body: Some(body) }, Ty::Fn(Box::new(p), Box::new(r)), false)
    }

    // --------------------------------------------------------------------------------------------
    // patterns
    // --------------------------------------------------------------------------------------------

    /// A pattern for a scrutinee of static type `ty`: returns the pattern, the variables it binds
    /// with their types, and whether it is irrefutable on `ty`.
    fn gen_pat_for(&mut self, env: &Env, ty: &Ty, d: u32, usage: PatUse) -> (Pat, Vec<(String, Ty)>, bool, Ty) {
        // F25: on a scrutinee that may be nil only nil-rejecting patterns (or the nil test itself)
        let maybe_nil = ty.contains_nil() && !ty.is_nil();
        let mut pat;
        let mut tries = 0;
        loop {
            let mut used: Vec<(String, Ty)> = vec![];
            let structural = maybe_nil || self.chance(1, if usage == PatUse::Binding { 3 } else { 2 });
            pat = self.gen_pat(env, ty, d.min(2), structural, &mut used);
            tries += 1;
            let bad_start = usage == PatUse::Binding && matches!(pat, Pat::Type(_) | Pat::Lit(_) | Pat::Str(_) | Pat::Pin(_) | Pat::Wild | Pat::Alt(_));
            let nil_accepting = maybe_nil && accepts_nil(&pat) && !matches!(&pat, Pat::Tup(None, fs) if fs.is_empty());
            if !bad_start && !nil_accepting {
                break;
            }
            if tries >= 6 {
                pat = if maybe_nil {
                    self.feat("nil-test");
                    Pat::Tup(None, vec![])
                } else {
                    let n = self.var_name(env, &[]);
                    Pat::Bind(n)
                };
                if usage == PatUse::Binding && maybe_nil {
                    // `(T)x = …` : bind, but fail on nil — the documented idiom
                    let t = ty.without_nil();
                    if !t.has_fn() && !t.is_never() && type_test_decided(&t, ty) {
                        let n = self.var_name(env, &[]);
                        self.feat("pattern-as");
                        pat = Pat::As(t, n);
                    } else {
                        pat = Pat::Tup(Some("Zed".into()), vec![(None, Pat::Bind(self.var_name(env, &[])))]);
                    }
                }
                break;
            }
        }
        let binds = pat_binds(&pat, ty).unwrap_or_default();
        let mut all = vec![];
        pat.vars(&mut all);
        let mut out = binds.clone();
        for v in all {
            if !out.iter().any(|(n, _)| *n == v) {
                out.push((v, Ty::nil()));
            }
        }
        let irref = pat_binds(&pat, ty).is_some() && pat_irrefutable(&pat, ty);
        let vty = verdict_type(&pat, ty, irref);
        (pat, out, irref, vty)
    }

    fn gen_pat(&mut self, env: &Env, ty: &Ty, d: u32, structural: bool, used: &mut Vec<(String, Ty)>) -> Pat {
        let variants = ty.variants();
        let comparable = !ty.has_fn();
        let roll = self.rng.below(20);
        // binder / placeholder
        if (!structural && roll < 8) || roll < 3 || variants.is_empty() {
            if roll == 0 {
                return Pat::Wild;
            }
            // repeated binder (equality with its first occurrence) when both sides are comparable
            // (F23: not when both may be nil)
            if comparable && !used.is_empty() && self.chance(1, 4) {
                let (n, t) = used[self.rng.usize(used.len())].clone();
                if !t.has_fn() {
                    self.feat("pattern-repeated-binder");
                    return Pat::Bind(n);
                }
            }
            let avoid: Vec<String> = used.iter().map(|u| u.0.clone()).collect();
            let n = self.var_name_for(env, &avoid, Some(ty));
            used.push((n.clone(), ty.clone()));
            return Pat::Bind(n);
        }
        // `(Name[v] | v)`: a specific alternative, then a catch-all binder of the same name
        if comparable && !ty.contains_nil() && variants.len() >= 2 && self.chance(1, 3) {
            let wrapped: Vec<(String, Ty)> = variants
                .iter()
                .filter_map(|x| match x {
                    Ty::Tup(Some(m), gs) if gs.len() == 1 && gs[0].0.is_none() => Some((m.clone(), gs[0].1.clone())),
                    _ => None,
                })
                .collect();
            if !wrapped.is_empty() {
                let (m, _) = wrapped[self.rng.usize(wrapped.len())].clone();
                let avoid: Vec<String> = used.iter().map(|u| u.0.clone()).collect();
                let n = self.var_name_for(env, &avoid, None);
                if !used.iter().any(|u| u.0 == n) {
                    let ps = vec![Pat::Tup(Some(m), vec![(None, Pat::Bind(n.clone()))]), Pat::Bind(n.clone())];
                    if let Some((_, t)) = unwrap_or_self(&ps, ty) {
                        used.push((n, t));
                        self.feat("pattern-alternation-unwrap-or-self");
                        return Pat::Alt(ps);
                    }
                }
            }
        }
        let v = variants[self.rng.usize(variants.len())].clone();
        match roll {
            3..=4 if comparable => {
                // pin an existing variable of a comparable type (F23: not when both may be nil)
                let cands: Vec<Var> =
                    env.readable().into_iter().filter(|x| !x.ty.has_fn()).collect();
                if !cands.is_empty() {
                    self.feat("pattern-pin");
                    return Pat::Pin(cands[self.rng.usize(cands.len())].name.clone());
                }
                self.lit_pat_for(&v)
            }
            5..=7 => self.lit_pat_for(&v),
            8 => {
                // type pattern / type-ascribed binder
                let t = match self.rng.below(4) {
                    0 => Ty::Int,
                    1 => Ty::Bin,
                    2 => Ty::union(vec![Ty::Int, Ty::Bin]),
                    _ => {
                        if v.has_fn() {
                            Ty::Int
                        } else {
                            v.clone()
                        }
                    }
                };
                if t.is_never() || !type_test_decided(&t, ty) || !ty.variants().iter().any(|x| x.sub(&t)) {
                    return self.lit_pat_for(&v);
                }
                if self.chance(1, 2) && matches!(t, Ty::Int | Ty::Bin | Ty::Union(_)) {
                    self.feat("pattern-type");
                    Pat::Type(t)
                } else {
                    let avoid: Vec<String> = used.iter().map(|u| u.0.clone()).collect();
                    let n = self.var_name(env, &avoid);
                    used.push((n.clone(), t.clone()));
                    self.feat("pattern-as");
                    Pat::As(t, n)
                }
            }
            9 => {
                // alternation of binder-free patterns
                let a = self.lit_pat_for(&v);
                let w = variants[self.rng.usize(variants.len())].clone();
                let b = self.lit_pat_for(&w);
                self.feat("pattern-alternation");
                Pat::Alt(vec![a, b])
            }
            _ => match &v {
                Ty::Tup(name, fs) if !fs.is_empty() => {
                    let mode = self.rng.below(12);
                    if mode == 0 && fs.iter().any(|f| f.0.is_some()) && variants.len() == 1 {
                        // star: binds every labelled field under its label
                        let labels: Vec<String> = fs.iter().filter_map(|f| f.0.clone()).collect();
                        if labels.iter().all(|l| !used.iter().any(|u| &u.0 == l) && env.lookup(l).is_none()) {
                            for (l, t) in fs {
                                if let Some(l) = l {
                                    used.push((l.clone(), t.clone()));
                                }
                            }
                            self.feat("pattern-star");
                            return Pat::Star(if self.chance(1, 2) { name.clone() } else { None });
                        }
                    }
                    if mode <= 2 && fs.iter().any(|f| f.0.is_some()) {
                        // partial pattern over some of the labelled fields
                        let mut pfs = vec![];
                        for (l, t) in fs {
                            let Some(l) = l else { continue };
                            if self.chance(2, 3) {
                                if self.chance(1, 2) && !used.iter().any(|u| &u.0 == l) {
                                    used.push((l.clone(), t.clone()));
                                    pfs.push((l.clone(), None));
                                } else {
                                    let p = self.gen_pat(env, t, d.saturating_sub(1), false, used);
                                    pfs.push((l.clone(), Some(p)));
                                }
                            }
                        }
                        if !pfs.is_empty() {
                            let nm = match self.rng.below(5) {
                                0 => Some("Zed".to_string()),
                                1 => None,
                                _ => name.clone(),
                            };
                            self.feat("pattern-partial");
                            return Pat::Part(nm, pfs);
                        }
                    }
                    // exact tuple pattern, sometimes deliberately off (name / arity / label)
                    let mut pfs: Vec<(Option<String>, Pat)> = vec![];
                    for (l, t) in fs {
                        let p = if d == 0 {
                            if self.chance(1, 3) { Pat::Wild } else { self.gen_pat(env, t, 0, false, used) }
                        } else {
                            let s = self.chance(1, 2);
                            self.gen_pat(env, t, d - 1, s, used)
                        };
                        pfs.push((l.clone(), p));
                    }
                    if v == Ty::str_() && self.chance(1, 2) {
                        self.feat("pattern-string");
                        return Pat::Str(["", "a", "hi", "s"][self.rng.usize(4)].to_string());
                    }
                    let mut nm = name.clone();
                    match self.rng.below(20) {
                        0 => {
                            nm = Some("Zed".into());
                            self.feat("pattern-wrong-name");
                        }
                        1 => {
                            pfs.push((None, Pat::Wild));
                            self.feat("pattern-wrong-arity");
                        }
                        2 if pfs.len() > 1 => {
                            pfs.pop();
                            self.feat("pattern-wrong-arity");
                        }
                        3 => {
                            let i = self.rng.usize(pfs.len());
                            pfs[i].0 = match &pfs[i].0 {
                                Some(_) => None,
                                None => Some("w".into()),
                            };
                            self.feat("pattern-wrong-label");
                        }
                        _ => {}
                    }
                    self.feat("pattern-tuple");
                    Pat::Tup(nm, pfs)
                }
                _ => self.lit_pat_for(&v),
            },
        }
    }

    fn lit_pat_for(&mut self, v: &Ty) -> Pat {
        self.feat("pattern-literal");
        match v {
            Ty::Int => Pat::Lit(Lit::Int(self.rng.range(-1, 5))),
            Ty::Bin => {
                let n = self.rng.usize(2);
                Pat::Lit(Lit::Bin(self.rng.bytes(n)))
            }
            Ty::Tup(n, fs) if fs.is_empty() => Pat::Tup(n.clone(), vec![]),
            Ty::Tup(n, fs) => {
                let mut pfs = vec![];
                for (l, t) in fs {
                    let tv = t.variants();
                    let p = if t.has_fn() || tv.is_empty() || self.rng.chance(1, 2) {
                        Pat::Wild
                    } else {
                        let pick = tv[self.rng.usize(tv.len())].clone();
                        self.lit_pat_for(&pick)
                    };
                    pfs.push((l.clone(), p));
                }
                Pat::Tup(n.clone(), pfs)
            }
            _ => Pat::Wild,
        }
    }
}

/// Static type of a match verdict, over-approximating the compiler's: it types the verdict `Ok` only
/// when the pattern has no run-time requirement at all, and as `Ok | []` whenever the matched type
/// contains nil (F25) — and in some more cases that are not worth mirroring (e.g. `=Ok` on a flow
/// narrowed to `Ok`). So: `Ok` only for a bare binder / placeholder on a nil-free type.
pub fn verdict_type(pat: &Pat, ty: &Ty, irrefutable: bool) -> Ty {
    if irrefutable && !ty.contains_nil() && matches!(pat, Pat::Bind(_) | Pat::Wild) {
        Ty::ok()
    } else {
        Ty::ok().with_nil()
    }
}

#[derive(Clone, Copy, PartialEq, Debug)]
pub enum PatUse {
    /// `p = chain`
    Binding,
    /// `… =p`
    InChain,
}

// ------------------------------------------------------------------------------------------------
// static analysis of patterns against the generator's types
// ------------------------------------------------------------------------------------------------

fn merge(into: &mut Vec<(String, Ty)>, from: Vec<(String, Ty)>) {
    for (n, t) in from {
        if let Some(e) = into.iter_mut().find(|e| e.0 == n) {
            e.1 = Ty::union(vec![e.1.clone(), t]);
        } else {
            into.push((n, t));
        }
    }
}

fn part_name_ok(n: &Option<String>, m: &Option<String>) -> bool {
    n.is_none() || n == m
}

/// Can two types share a value? (conservative: `false` only when certainly disjoint)
pub fn disjoint(a: &Ty, b: &Ty) -> bool {
    a.variants().iter().all(|x| b.variants().iter().all(|y| disjoint1(x, y)))
}

fn disjoint1(a: &Ty, b: &Ty) -> bool {
    match (a, b) {
        (Ty::Int, Ty::Int) | (Ty::Bin, Ty::Bin) | (Ty::Fn(..), Ty::Fn(..)) => false,
        (Ty::Tup(n, fs), Ty::Tup(m, gs)) => {
            n != m || fs.len() != gs.len() || fs.iter().zip(gs).any(|((l, t), (k, u))| l != k || disjoint(t, u))
        }
        _ => true,
    }
}

/// The implementation tests types at run time by the *construction-site* tuple type, not by deep
/// inspection of the value (C08): the outcome is fixed by the spec only where every variant of the
/// scrutinee's static type is contained in the tested type or disjoint from it (DESIGN §5 C02).
pub fn type_test_decided(t: &Ty, scrutinee: &Ty) -> bool {
    scrutinee.variants().iter().all(|v| v.sub(t) || disjoint(v, t))
}

/// does the pattern match the value nil?
pub fn accepts_nil(p: &Pat) -> bool {
    match p {
        Pat::Bind(_) | Pat::Wild => true,
        Pat::Lit(_) | Pat::Str(_) => false,
        Pat::Pin(_) => true,
        Pat::Tup(n, fs) => n.is_none() && fs.is_empty(),
        Pat::Part(n, fs) => n.is_none() && fs.is_empty(),
        Pat::Star(n) => n.is_none(),
        Pat::Type(t) | Pat::As(t, _) => t.contains_nil(),
        Pat::Alt(ps) => ps.iter().any(accepts_nil),
    }
}

/// Variables bound by `pat` on a scrutinee of type `ty` with their (over-approximated) types; `None`
/// if no variant of `ty` can match structurally.
pub fn pat_binds(pat: &Pat, ty: &Ty) -> Option<Vec<(String, Ty)>> {
    match pat {
        Pat::Bind(x) => Some(vec![(x.clone(), ty.clone())]),
        Pat::Wild | Pat::Lit(_) | Pat::Pin(_) | Pat::Type(_) | Pat::Str(_) => Some(vec![]),
        Pat::As(t, x) => {
            let vs: Vec<Ty> = ty.variants().into_iter().filter(|v| v.sub(t)).collect();
            if vs.is_empty() { Some(vec![(x.clone(), t.clone())]) } else { Some(vec![(x.clone(), Ty::union(vs))]) }
        }
        Pat::Tup(n, pfs) => {
            let mut out: Option<Vec<(String, Ty)>> = None;
            for v in ty.variants() {
                let Ty::Tup(m, fs) = &v else { continue };
                if n != m || fs.len() != pfs.len() || fs.iter().zip(pfs).any(|(f, p)| f.0 != p.0) {
                    continue;
                }
                let mut here = vec![];
                let mut ok = true;
                for ((_, t), (_, p)) in fs.iter().zip(pfs) {
                    match pat_binds(p, t) {
                        Some(b) => merge(&mut here, b),
                        None => {
                            ok = false;
                            break;
                        }
                    }
                }
                if ok {
                    let mut acc = out.take().unwrap_or_default();
                    merge(&mut acc, here);
                    out = Some(acc);
                }
            }
            out
        }
        Pat::Part(n, pfs) => {
            let mut out: Option<Vec<(String, Ty)>> = None;
            for v in ty.variants() {
                let Ty::Tup(m, fs) = &v else { continue };
                if !part_name_ok(n, m) {
                    continue;
                }
                let mut here = vec![];
                let mut ok = true;
                for (l, p) in pfs {
                    let Some((_, t)) = fs.iter().find(|f| f.0.as_ref() == Some(l)) else {
                        ok = false;
                        break;
                    };
                    match p {
                        None => merge(&mut here, vec![(l.clone(), t.clone())]),
                        Some(p) => match pat_binds(p, t) {
                            Some(b) => merge(&mut here, b),
                            None => {
                                ok = false;
                                break;
                            }
                        },
                    }
                }
                if ok {
                    let mut acc = out.take().unwrap_or_default();
                    merge(&mut acc, here);
                    out = Some(acc);
                }
            }
            out
        }
        Pat::Star(n) => {
            let mut out: Option<Vec<(String, Ty)>> = None;
            for v in ty.variants() {
                let Ty::Tup(m, fs) = &v else { continue };
                if !part_name_ok(n, m) {
                    continue;
                }
                let here: Vec<(String, Ty)> = fs.iter().filter_map(|(l, t)| l.clone().map(|l| (l, t.clone()))).collect();
                let mut acc = out.take().unwrap_or_default();
                merge(&mut acc, here);
                out = Some(acc);
            }
            out
        }
        Pat::Alt(ps) => match unwrap_or_self(ps, ty) {
            Some(b) => Some(vec![b]),
            None => ps.first().and_then(|p| pat_binds(p, ty)),
        },
    }
}

/// the alternation `(Name[v] | v)` ("unwrap or self": an earlier, specific alternative and a LATER
/// catch-all binder of the same name) on a scrutinee with a variant `Name[T]`: the variable and its type
pub fn unwrap_or_self(ps: &[Pat], ty: &Ty) -> Option<(String, Ty)> {
    let [Pat::Tup(Some(n), fs), Pat::Bind(v)] = ps else { return None };
    let [(None, Pat::Bind(w))] = fs.as_slice() else { return None };
    if v != w {
        return None;
    }
    let inner = ty.variants().into_iter().find_map(|x| match x {
        Ty::Tup(Some(m), gs) if m == *n && gs.len() == 1 && gs[0].0.is_none() => Some(gs[0].1.clone()),
        _ => None,
    })?;
    if ty.has_fn() || ty.contains_nil() {
        return None;
    }
    Some((v.clone(), Ty::union(vec![inner, ty.clone()])))
}

pub fn pat_has_pin_or_repeat(p: &Pat) -> bool {
    fn go(p: &Pat, seen: &mut Vec<String>) -> bool {
        match p {
            Pat::Pin(_) => true,
            Pat::Bind(x) | Pat::As(_, x) => {
                if seen.contains(x) {
                    return true;
                }
                seen.push(x.clone());
                false
            }
            Pat::Tup(_, fs) => fs.iter().any(|(_, q)| go(q, seen)),
            Pat::Part(_, fs) => fs.iter().any(|(l, q)| match q {
                Some(q) => go(q, seen),
                None => {
                    if seen.contains(l) {
                        return true;
                    }
                    seen.push(l.clone());
                    false
                }
            }),
            Pat::Alt(ps) => ps.iter().any(|q| go(q, seen)),
            _ => false,
        }
    }
    go(p, &mut vec![])
}

/// Does `pat` match every value of type `ty`?
pub fn pat_irrefutable(pat: &Pat, ty: &Ty) -> bool {
    if pat_has_pin_or_repeat(pat) {
        return false;
    }
    let vs = ty.variants();
    !vs.is_empty() && vs.iter().all(|v| irref1(pat, v))
}

fn irref1(pat: &Pat, v: &Ty) -> bool {
    match pat {
        Pat::Bind(_) | Pat::Wild => true,
        Pat::Lit(_) | Pat::Pin(_) | Pat::Str(_) => false,
        Pat::Type(t) | Pat::As(t, _) => v.sub(t),
        Pat::Tup(n, pfs) => match v {
            Ty::Tup(m, fs) => {
                n == m
                    && fs.len() == pfs.len()
                    && fs.iter().zip(pfs).all(|((l, t), (k, p))| l == k && !t.is_never() && t.variants().iter().all(|tv| irref1(p, tv)))
            }
            _ => false,
        },
        Pat::Part(n, pfs) => match v {
            Ty::Tup(m, fs) => {
                part_name_ok(n, m)
                    && pfs.iter().all(|(l, p)| match fs.iter().find(|f| f.0.as_ref() == Some(l)) {
                        Some((_, t)) => match p {
                            None => true,
                            Some(p) => !t.is_never() && t.variants().iter().all(|tv| irref1(p, tv)),
                        },
                        None => false,
                    })
            }
            _ => false,
        },
        Pat::Star(n) => matches!(v, Ty::Tup(m, _) if part_name_ok(n, m)),
        Pat::Alt(ps) => ps.iter().any(|p| irref1(p, v)),
    }
}

/// Whatever subset of `ty`'s variants the compiler has narrowed the scrutinee to, can the pattern
/// still match some value (so that the compiler cannot type the match as statically nil)?
pub fn surely_possible(pat: &Pat, ty: &Ty) -> bool {
    let vs = ty.variants();
    !vs.is_empty() && vs.iter().all(|v| possible1(pat, v))
}

fn possible1(pat: &Pat, v: &Ty) -> bool {
    match pat {
        Pat::Bind(_) | Pat::Wild => true,
        Pat::Lit(Lit::Int(_)) => *v == Ty::Int,
        Pat::Lit(Lit::Bin(_)) => *v == Ty::Bin,
        Pat::Str(_) => *v == Ty::str_(),
        Pat::Pin(_) => false,
        Pat::Type(t) | Pat::As(t, _) => v.sub(t),
        Pat::Tup(n, pfs) => match v {
            Ty::Tup(m, fs) => n == m && fs.len() == pfs.len() && fs.iter().zip(pfs).all(|((l, t), (k, p))| l == k && surely_possible(p, t)),
            _ => false,
        },
        Pat::Part(n, pfs) => match v {
            Ty::Tup(m, fs) => {
                part_name_ok(n, m)
                    && pfs.iter().all(|(l, p)| match fs.iter().find(|f| f.0.as_ref() == Some(l)) {
                        Some((_, t)) => match p {
                            None => true,
                            Some(p) => surely_possible(p, t),
                        },
                        None => false,
                    })
            }
            _ => false,
        },
        Pat::Star(n) => matches!(v, Ty::Tup(m, _) if part_name_ok(n, m)),
        Pat::Alt(ps) => ps.iter().any(|p| possible1(p, v)),
    }
}
