//! Convert the real parser's AST (`quiver_compiler::ast`) into the C02 core AST, so that corpus
//! files and the repository's own test sources can be written as plain Quiver and still be given to
//! the Lean reference evaluator. Anything outside the fragment is `Err(reason)`.
#![allow(dead_code)]
use super::ast as my;
use quiver_compiler::ast as q;
use std::collections::HashMap;

type R<T> = Result<T, String>;

struct Cv {
    aliases: HashMap<String, q::Type>,
}

fn mentions_param(e: &q::Expression) -> bool {
    format!("{e:?}").contains("Parameter")
}

impl Cv {
    fn ty(&self, t: &q::Type, depth: usize) -> R<my::Ty> {
        if depth > 8 {
            return Err("type alias too deep".into());
        }
        Ok(match t {
            q::Type::Primitive(q::PrimitiveType::Int) => my::Ty::Int,
            q::Type::Primitive(q::PrimitiveType::Bin) => my::Ty::Bin,
            q::Type::Primitive(q::PrimitiveType::Ref) => return Err("ref type".into()),
            q::Type::Tuple(tt) => {
                if tt.is_partial {
                    return Err("partial type".into());
                }
                let mut fs = vec![];
                for f in &tt.fields {
                    match f {
                        q::FieldType::Field { name, type_def } => fs.push((name.clone(), self.ty(type_def, depth + 1)?)),
                        q::FieldType::Spread { .. } => return Err("type spread".into()),
                    }
                }
                my::Ty::Tup(tt.name.clone(), fs)
            }
            q::Type::Function(f) => my::Ty::Fn(Box::new(self.ty(&f.input, depth + 1)?), Box::new(self.ty(&f.output, depth + 1)?)),
            q::Type::Union(u) => {
                let mut vs = vec![];
                for v in &u.types {
                    vs.push(self.ty(v, depth + 1)?);
                }
                my::Ty::union(vs)
            }
            q::Type::Identifier { name, arguments } => {
                if !arguments.is_empty() {
                    return Err("type arguments".into());
                }
                match self.aliases.get(name) {
                    Some(t) => self.ty(t, depth + 1)?,
                    None => return Err(format!("type variable or unknown alias '{name}")),
                }
            }
            _ => return Err("type outside the fragment".into()),
        })
    }

    /// a type in *pattern* position: partial types become partial patterns over type patterns
    fn ty_pat(&self, t: &q::Type) -> R<my::Pat> {
        if let q::Type::Tuple(tt) = t {
            if tt.is_partial {
                let mut fs = vec![];
                for f in &tt.fields {
                    match f {
                        q::FieldType::Field { name: Some(n), type_def } => fs.push((n.clone(), Some(self.ty_pat(type_def)?))),
                        _ => return Err("partial type field".into()),
                    }
                }
                return Ok(my::Pat::Part(tt.name.clone(), fs));
            }
        }
        if let q::Type::Identifier { name, arguments } = t {
            if arguments.is_empty() {
                if let Some(a) = self.aliases.get(name) {
                    return self.ty_pat(a);
                }
            }
        }
        let ty = self.ty(t, 0)?;
        if ty.has_fn() {
            return Err("function type in pattern".into());
        }
        Ok(my::Pat::Type(ty))
    }

    fn lit(&self, l: &q::Literal) -> R<my::Lit> {
        Ok(match l {
            q::Literal::Integer(i) => {
                use std::str::FromStr;
                my::Lit::Int(i64::from_str(&i.to_string()).map_err(|_| "integer literal beyond i64".to_string())?)
            }
            q::Literal::Binary(b) => my::Lit::Bin(b.clone()),
        })
    }

    fn pat(&self, m: &q::Match) -> R<my::Pat> {
        Ok(match m {
            q::Match::Identifier(x, _) => my::Pat::Bind(x.clone()),
            q::Match::Literal(l) => my::Pat::Lit(self.lit(l)?),
            q::Match::String(_, bytes) => my::Pat::Tup(Some("Str".into()), vec![(None, my::Pat::Lit(my::Lit::Bin(bytes.clone())))]),
            q::Match::Tuple(t) => {
                let mut fs = vec![];
                for f in &t.fields {
                    fs.push((f.name.clone(), self.pat(&f.pattern)?));
                }
                my::Pat::Tup(t.name.clone(), fs)
            }
            q::Match::Partial(p) => {
                let mut fs = vec![];
                for f in &p.fields {
                    fs.push((
                        f.name.clone(),
                        match &f.pattern {
                            Some(p) => Some(self.pat(p)?),
                            None => None,
                        },
                    ));
                }
                my::Pat::Part(p.name.clone(), fs)
            }
            q::Match::Star(n) => my::Pat::Star(n.clone()),
            q::Match::Placeholder => my::Pat::Wild,
            q::Match::Reference(x, _) => my::Pat::Pin(x.clone()),
            q::Match::Type(t) => self.ty_pat(t)?,
            q::Match::Or(ps) => {
                let mut v = vec![];
                for p in ps {
                    v.push(self.pat(p)?);
                }
                my::Pat::Alt(v)
            }
            q::Match::As(t, x, _) => {
                let ty = self.ty(t, 0)?;
                if ty.has_fn() {
                    return Err("function type in pattern".into());
                }
                my::Pat::As(ty, x.clone())
            }
        })
    }

    fn accs(&self, a: &[q::AccessPath]) -> Vec<my::Acc> {
        a.iter()
            .map(|x| match x {
                q::AccessPath::Field(l) => my::Acc::Label(l.clone()),
                q::AccessPath::Index(i) => my::Acc::Index(*i),
            })
            .collect()
    }

    fn term(&self, t: &q::Term) -> R<my::Term> {
        Ok(match t {
            q::Term::Literal(l) => my::Term::Lit(self.lit(l)?),
            q::Term::Tuple(tp) => {
                let name = match &tp.name {
                    q::TupleName::Anonymous => my::TupName::Anon,
                    q::TupleName::Named(n) => my::TupName::Named(n.clone()),
                    q::TupleName::Inherit => my::TupName::Inherit,
                };
                let mut fs = vec![];
                for f in &tp.fields {
                    match &f.value {
                        q::FieldValue::Chain(c) => fs.push(my::Field::Val(f.name.clone(), self.chain(c)?)),
                        q::FieldValue::Spread(x) => fs.push(my::Field::Spread(x.clone())),
                    }
                }
                my::Term::Tuple(name, fs)
            }
            q::Term::String(_, segs, ..) if segs.iter().any(|s| matches!(s, q::StrSegment::Hole(_))) => {
                let mut out = vec![];
                for s in segs {
                    match s {
                        q::StrSegment::Text(b) => match String::from_utf8(b.clone()) {
                            Ok(t) if t.chars().all(|c| c.is_ascii_alphanumeric() || " -_.,:=".contains(c)) => out.push(my::Seg::Text(t)),
                            _ => return Err("string interpolation with text that needs escaping".into()),
                        },
                        q::StrSegment::Hole(e) => out.push(my::Seg::Hole(self.expr(e)?)),
                    }
                }
                my::Term::Interp(out)
            }
            q::Term::String(_, segs, ..) => {
                let mut bytes = vec![];
                for s in segs {
                    match s {
                        q::StrSegment::Text(b) => bytes.extend(b.clone()),
                        q::StrSegment::Hole(_) => return Err("string interpolation".into()),
                    }
                }
                my::Term::Tuple(
                    my::TupName::Named("Str".into()),
                    vec![my::Field::Val(None, my::Chain::new(vec![my::Term::Lit(my::Lit::Bin(bytes))]))],
                )
            }
            q::Term::Match(m) => my::Term::Match(self.pat(m)?),
            q::Term::Block(e) => my::Term::Block(self.expr(e)?),
            q::Term::Function(f) => {
                let param = match &f.parameter_type {
                    None => {
                        if f.body.as_ref().map(mentions_param).unwrap_or(false) {
                            return Err("parameter-less function literal using $ (inferred parameter)".into());
                        }
                        my::Ty::nil()
                    }
                    Some(t) => match self.ty(t, 0) {
                        Ok(t) => t,
                        // only nil-ness of the parameter type matters to the semantics
                        Err(_) => my::Ty::Int,
                    },
                };
                let body = match &f.body {
                    Some(b) => Some(self.expr(b)?),
                    None => None,
                };
                my::Term::Fn { param, body }
            }
            q::Term::Access(a) => match &a.source {
                None | Some(q::AccessSource::Ripple) => my::Term::Access(my::Src::Ripple, self.accs(&a.accessors)),
                Some(q::AccessSource::Identifier(x)) => my::Term::Access(my::Src::Var(x.clone()), self.accs(&a.accessors)),
                Some(q::AccessSource::Parameter) => my::Term::Access(my::Src::Param, self.accs(&a.accessors)),
                Some(q::AccessSource::Builtin(n)) => {
                    if !a.accessors.is_empty() {
                        return Err("accessor on builtin".into());
                    }
                    my::Term::Access(my::Src::Builtin(n.clone()), vec![])
                }
                Some(q::AccessSource::TailCall(None)) => my::Term::Tail(None),
                Some(q::AccessSource::TailCall(Some(f))) => my::Term::Tail(Some((f.clone(), self.accs(&a.accessors)))),
                Some(q::AccessSource::TailCallRipple) => my::Term::TailRipple,
                Some(q::AccessSource::Import(_)) => return Err("import".into()),
                Some(q::AccessSource::Self_) => return Err("self".into()),
            },
            q::Term::Reference(a) => match &a.source {
                Some(q::AccessSource::Identifier(x)) => my::Term::Ref(my::Src::Var(x.clone()), self.accs(&a.accessors)),
                Some(q::AccessSource::Parameter) => my::Term::Ref(my::Src::Param, self.accs(&a.accessors)),
                Some(q::AccessSource::Builtin(n)) => my::Term::Ref(my::Src::Builtin(n.clone()), vec![]),
                _ => return Err("reference outside the fragment".into()),
            },
            q::Term::Spawn(..) | q::Term::Self_ | q::Term::Select(..) | q::Term::Process(_) => return Err("process term".into()),
        })
    }

    fn chain(&self, c: &q::Chain) -> R<my::Chain> {
        let mut terms = vec![];
        for t in &c.terms {
            terms.push(self.term(t)?);
        }
        let pat = match &c.match_pattern {
            Some(m) => Some(self.pat(m)?),
            None => None,
        };
        Ok(my::Chain { pat, terms })
    }

    fn seq(&self, s: &q::Sequence) -> R<Vec<my::Chain>> {
        s.chains.iter().map(|c| self.chain(c)).collect()
    }

    fn expr(&self, e: &q::Expression) -> R<my::Expr> {
        let mut branches = vec![];
        for b in &e.branches {
            branches.push(my::Branch {
                cond: self.seq(&b.condition)?,
                cons: match &b.consequence {
                    Some(k) => Some(self.seq(k)?),
                    None => None,
                },
            });
        }
        Ok(my::Expr { branches })
    }
}

pub fn convert(p: &q::Program) -> R<my::Program> {
    let mut cv = Cv { aliases: HashMap::new() };
    for s in &p.statements {
        if let q::Statement::TypeAlias { name, type_parameters, type_definition, .. } = s {
            match name {
                Some(n) if type_parameters.is_empty() => {
                    cv.aliases.insert(n.clone(), type_definition.clone());
                }
                _ => {}
            }
        }
    }
    let mut steps = vec![];
    for s in &p.statements {
        if let q::Statement::Expression(seq) = s {
            steps.extend(cv.seq(seq)?);
        }
    }
    if steps.is_empty() {
        return Err("no expression".into());
    }
    Ok(my::Program { steps })
}

pub fn convert_source(src: &str) -> R<my::Program> {
    let ast = qverif::catch(|| quiver_compiler::parse(src)).map_err(|p| format!("parser panic: {p}"))?.map_err(|e| format!("parse error: {e:?}"))?;
    convert(&ast)
}
