//! The "rectypes" stream: programs over RECURSIVE type aliases (`'list = Nil | Cons['int, ^]`,
//! `'tree = Leaf['int] | Node[^, ^]`) — tail-recursive functions whose branches destructure the recursive
//! value to several depths, in any order, with literal tests, guards and catch-alls; applied to literal
//! lists / trees and to each other's results.
//!
//! The harness's own AST has no recursive types, so this family is generated as SOURCE TEXT: the
//! implementation runs the text as written, the reference evaluator gets the real parser's AST converted
//! by `from_real` (parameter types matter to the reference semantics only through nil-ness; patterns on
//! recursive values are ordinary tuple patterns). Every program is inside what the spec fixes by
//! construction: `^` only as the last term of a consequence, always on a structurally smaller value (so
//! every run terminates), no read of a variable of a failed match, no type test.
use qverif::Rng;

pub struct ListGen<'a> {
    pub r: &'a mut Rng,
    counter: u32,
    /// steer around the two findings of this family (notes/C02-fixes/10 and 12, landed as 28d0afc / cfcf2ea —
    /// OFF; kept for trying reverts) — only in functions whose recursive value is a FIELD of the parameter:
    /// (10) no pattern that constrains the tail after a branch that narrowed the field; (12) no branch after
    /// the field is used up.
    pub steer: bool,
    /// notes/C02-fixes/14 has landed (f168b79): a BINDER on a narrowed `('list | [])` field may be passed on as a list
    pub opt_binder: bool,
    /// the tail bound inside a structured sub-pattern on a `('list | [])` field may be passed on as a list
    /// (open: it is typed `Cons | Nil | []`, see notes/C02-fixes/14 "REMAINS")
    pub opt_tail: bool,
    /// arguments of partial-typed parameters may have the partial's fields anywhere (open finding
    /// typing=partial-typed-parameter-read-by-position: today only tuples that START with them, in order, are
    /// read right)
    pub any_layout: bool,
}

/// a branch of a generated function
#[derive(Clone)]
struct Br {
    src: String,
    /// handles the base variant (`Nil` / `Leaf`) whatever else the argument holds
    base: bool,
    /// handles every `Cons` / `Node`
    all: bool,
    /// constrains the recursive part (the tail / a subtree) by a sub-pattern
    nested: bool,
}

fn br(src: String, base: bool, all: bool, nested: bool) -> Br {
    Br { src, base, all, nested }
}

pub struct Fun {
    pub name: String,
    /// "acc" : ['list, 'int] -> int-ish, "rev" : ['list, 'list] -> list, "one" : 'list -> int-ish,
    /// "tree" : 'tree -> int-ish
    pub kind: &'static str,
    pub src: String,
    /// every argument of the parameter type is handled by some branch (the result is never the
    /// fall-through nil) — only such results are passed on to other functions
    pub total: bool,
}

impl<'a> ListGen<'a> {
    pub fn new(r: &'a mut Rng) -> Self {
        ListGen { r, counter: 0, steer: false, opt_binder: true, opt_tail: false, any_layout: false }
    }

    fn k(&mut self) -> i64 {
        self.r.range(0, 3)
    }

    fn fresh(&mut self, base: &str) -> String {
        self.counter += 1;
        format!("{base}{}", self.counter)
    }

    pub fn list_lit(&mut self) -> String {
        let n = self.r.usize(5);
        let mut s = "Nil".to_string();
        for _ in 0..n {
            s = format!("Cons[{}, {s}]", self.k());
        }
        s
    }

    pub fn tree_lit(&mut self, d: u32) -> String {
        if d == 0 || self.r.chance(1, 3) {
            format!("Leaf[{}]", self.k())
        } else {
            format!("Node[{}, {}]", self.tree_lit(d - 1), self.tree_lit(d - 1))
        }
    }

    fn op(&mut self) -> &'static str {
        ["__integer_add__", "__integer_multiply__", "__integer_subtract__"][self.r.usize(3)]
    }

    /// an integer expression over the given integer variables
    fn int_expr(&mut self, vars: &[&str]) -> String {
        match self.r.below(4) {
            0 if !vars.is_empty() => vars[self.r.usize(vars.len())].to_string(),
            1 if vars.len() >= 2 => {
                let a = vars[self.r.usize(vars.len())];
                let b = vars[self.r.usize(vars.len())];
                format!("[{a}, {b}] {}", self.op())
            }
            2 if !vars.is_empty() => {
                let a = vars[self.r.usize(vars.len())];
                format!("[{a}, {}] {}", self.k(), self.op())
            }
            _ => self.k().to_string(),
        }
    }

    /// a result of ANY type (the function's result type is then a union, and the call site's type is
    /// specialised per argument where the function dispatches on its parameter)
    fn any_result(&mut self, vars: &[&str]) -> String {
        match self.r.below(8) {
            0 => format!("0x0{}", self.k()),
            1 => {
                let e = self.int_expr(vars);
                format!("[{e}, {}]", self.k())
            }
            2 => format!("A[{}]", self.int_expr(vars)),
            _ => self.int_expr(vars),
        }
    }

    /// sometimes a block of type tests on the result of a call
    fn post(&mut self) -> String {
        if self.r.chance(1, 2) {
            return String::new();
        }
        let mut tests = vec!["='int => 1", "='bin => 2", "=[_, _] => 3", "=A[_] => 4", "=A[x] => x", "=('int)x => [x, 1] __integer_add__"];
        self.r.shuffle(&mut tests);
        let n = 1 + self.r.usize(3);
        let mut brs: Vec<String> = tests.into_iter().take(n).map(|t| format!("| {t}")).collect();
        if self.r.chance(2, 3) {
            brs.push(format!("| {}", 5 + self.k()));
        }
        format!(" {{ {} }}", brs.join(" "))
    }

    /// `['list, 'int]` → integer: a fold with an accumulator
    fn fun_acc(&mut self) -> Fun {
        let name = self.fresh("f");
        let mut pool: Vec<Br> = vec![];
        let ret_a = self.int_expr(&["a"]);
        pool.push(br(format!("=[Nil, a] => {ret_a}"), true, false, false));
        let acc = self.int_expr(&["a", "h"]);
        pool.push(br(format!("=[Cons[h, t], a] => [t, {acc}] ^"), false, true, false));
        let ret = self.int_expr(&["a", "h"]);
        pool.push(br(format!("=[Cons[h, Nil], a] => {ret}"), false, false, true));
        let k = self.k();
        pool.push(br(format!("=[Cons[{k}, t], a] => [t, a] ^"), false, false, false));
        let acc2 = self.int_expr(&["a", "h", "g"]);
        if self.r.chance(1, 2) {
            pool.push(br(format!("=[Cons[h, Cons[g, t]], a] => [Cons[g, t], {acc2}] ^"), false, false, true));
        } else {
            pool.push(br(format!("=[Cons[h, Cons[g, t]], a] => [t, {acc2}] ^"), false, false, true));
        }
        let k2 = self.k();
        let ret_h = self.int_expr(&["h"]);
        pool.push(br(format!("=[Cons[h, t], {k2}] => {ret_h}"), false, false, false));
        pool.push(br("=[_, a] => a".to_string(), true, true, false));
        let k3 = self.k();
        let verdict = [-1, 0, 1][self.r.usize(3)];
        let acc3 = self.int_expr(&["a", "h"]);
        pool.push(br(format!("=[Cons[h, t], a], [h, {k3}] __integer_compare__ ={verdict} => [t, {acc3}] ^"), false, false, false));
        self.assemble(name, "acc", "['list, 'int]", pool)
    }

    /// `['list, 'list]` → list: reverse / map / filter onto an accumulator
    fn fun_rev(&mut self) -> Fun {
        let name = self.fresh("r");
        let mut pool: Vec<Br> = vec![];
        pool.push(br("=[Nil, a] => a".to_string(), true, false, false));
        let e = self.int_expr(&["h"]);
        pool.push(br(format!("=[Cons[h, t], a] => [t, Cons[{e}, a]] ^"), false, true, false));
        let k = self.k();
        pool.push(br(format!("=[Cons[{k}, t], a] => [t, a] ^"), false, false, false));
        pool.push(br("=[Cons[h, Nil], a] => Cons[h, a]".to_string(), false, false, true));
        pool.push(br("=[Cons[h, Cons[g, t]], a] => [t, Cons[g, Cons[h, a]]] ^".to_string(), false, false, true));
        pool.push(br("=[_, a] => a".to_string(), true, true, false));
        self.assemble(name, "rev", "['list, 'list]", pool)
    }

    /// `'list` → integer (or nil): walks down the list
    fn fun_one(&mut self) -> Fun {
        let name = self.fresh("g");
        let mut pool: Vec<Br> = vec![];
        let k = self.k();
        let r0 = self.any_result(&[]);
        let _ = k;
        pool.push(br(format!("=Nil => {r0}"), true, false, false));
        let r1 = self.any_result(&["h"]);
        pool.push(br(format!("=Cons[h, Nil] => {r1}"), false, false, true));
        pool.push(br("=Cons[_, t] => t ^".to_string(), false, true, false));
        let (k1, k2) = (self.k(), self.k());
        pool.push(br(format!("=Cons[h, Cons[{k1}, _]] => [h, {k2}] {}", self.op()), false, false, true));
        let (k3, k4) = (self.k(), self.k());
        pool.push(br(format!("=Cons[{k3}, _] => {k4}"), false, false, false));
        let r2 = self.any_result(&["h"]);
        pool.push(br(format!("=Cons[h, _] => {r2}"), false, true, false));
        pool.push(br("=Cons[_, Cons[_, t]] => t ^".to_string(), false, false, true));
        self.assemble(name, "one", "'list", pool)
    }

    /// `'tree` → integer (or nil)
    fn fun_tree(&mut self) -> Fun {
        let name = self.fresh("w");
        let mut pool: Vec<Br> = vec![];
        let e = self.int_expr(&["v"]);
        let e = if self.r.chance(1, 2) { e } else { self.any_result(&["v"]) };
        pool.push(br(format!("=Leaf[v] => {e}"), true, false, false));
        pool.push(br("=Node[l, _] => l ^".to_string(), false, true, false));
        pool.push(br("=Node[_, r] => r ^".to_string(), false, true, false));
        let r3 = self.any_result(&["v"]);
        pool.push(br(format!("=Node[Leaf[v], _] => {r3}"), false, false, true));
        pool.push(br("=Node[Node[l, _], r] => Node[l, r] ^".to_string(), false, false, true));
        let k = self.k();
        pool.push(br(format!("=Node[_, Leaf[{k}]] => {k}"), false, false, true));
        self.assemble(name, "tree", "'tree", pool)
    }

    /// `[('list | []), 'int]` → integer: the recursive union flattened together with nil in a FIELD; after
    /// the nil case the list is handed on to a total fold — as a whole (binder) or taken apart first
    fn fun_opt(&mut self, fold: &str) -> Fun {
        let name = self.fresh("o");
        let k = self.k();
        let mut brs = vec![format!("| =[[], a] => {}", self.int_expr(&["a"]))];
        if self.r.chance(1, 2) {
            brs.push(format!("| =[Nil, a] => {k}"));
        }
        let mut kinds = vec![0];
        if self.opt_tail {
            kinds.extend([1, 2]);
        }
        if self.opt_binder {
            kinds.push(3);
        }
        match kinds[self.r.usize(kinds.len())] {
            0 => brs.push(format!(
                "| =[Cons[h, Nil], a] => {} | =[Cons[h, Cons[g, _]], a] => {}",
                self.int_expr(&["a", "h"]),
                self.int_expr(&["a", "h", "g"])
            )),
            1 => brs.push(format!("| =[Cons[h, t], a] => [t, {}] {fold}", self.int_expr(&["a", "h"]))),
            2 => brs.push(format!("| =[Cons[h, Cons[g, t]], a] => [Cons[g, t], {}] {fold} | =[Cons[h, Nil], a] => h", self.int_expr(&["a", "h"]))),
            _ => brs.push(format!("| =[x, a] => [x, {}] {fold}", self.int_expr(&["a"]))),
        }
        Fun { src: format!("{name} = #[('list | []), 'int] {{ {} }}", brs.join(" ")), name, kind: "opt", total: false }
    }

    fn assemble(&mut self, name: String, kind: &'static str, param: &str, mut pool: Vec<Br>) -> Fun {
        self.r.shuffle(&mut pool);
        let n = 2 + self.r.usize(3);
        let mut chosen: Vec<Br> = pool.into_iter().take(n).collect();
        let field_positioned = kind == "acc" || kind == "rev";
        if self.steer && field_positioned {
            // (10) the branches that constrain the tail first: nothing has narrowed the field yet
            chosen.sort_by_key(|b| !b.nested);
            // (12) nothing after the field is used up: a catch-all, or the base case and the general
            // `Cons[h, t]` case (a guard after the pattern keeps the field alive)
            let mut kept = vec![];
            let (mut base, mut all) = (false, false);
            for b in chosen {
                let guarded = b.src.contains("__integer_compare__");
                let literal_acc = b.src.contains("t], 0]") || b.src.contains("t], 1]") || b.src.contains("t], 2]") || b.src.contains("t], 3]");
                kept.push(b.clone());
                if b.base && b.all {
                    break;
                }
                if !guarded && !literal_acc {
                    base |= b.base;
                    all |= b.all;
                }
                if base && all {
                    break;
                }
            }
            chosen = kept;
        }
        let total = chosen.iter().any(|c| c.base) && chosen.iter().any(|c| c.all && !c.src.contains("__integer_compare__"));
        let body = chosen.iter().map(|c| format!("| {}", c.src)).collect::<Vec<_>>().join(" ");
        Fun { src: format!("{name} = #{param} {{ {body} }}"), name, kind, total }
    }

    // ---------------------------------------------------------------------------------------------
    // second family: NON-recursive aliases — a union of records dispatched on, directly and as a field,
    // through an alias of the parameter tuple, through a type built with a type SPREAD
    // ---------------------------------------------------------------------------------------------

    fn shape_lit(&mut self) -> String {
        match self.r.below(3) {
            0 => format!("Circle[r: {}]", self.k()),
            1 => format!("Rect[w: {}, h: {}]", self.k(), self.k()),
            _ => "Dot".to_string(),
        }
    }

    /// patterns on a value of type `'s`, with the integer variables each binds
    fn shape_pats(&mut self) -> Vec<(String, Vec<&'static str>)> {
        let k = self.k();
        let k2 = self.k();
        vec![
            ("Circle[r: x]".to_string(), vec!["x"]),
            ("Rect[w: x, h: y]".to_string(), vec!["x", "y"]),
            ("Dot".to_string(), vec![]),
            ("Circle(r)".to_string(), vec!["r"]),
            ("Rect*".to_string(), vec!["w", "h"]),
            ("(r)".to_string(), vec!["r"]),
            ("(w, h)".to_string(), vec!["w", "h"]),
            ("(h: y)".to_string(), vec!["y"]),
            (format!("Circle[r: {k}]"), vec![]),
            (format!("Rect[w: x, h: {k2}]"), vec!["x"]),
            ("Rect[w: x, h: x]".to_string(), vec!["x"]),
            ("Circle[_]".to_string(), vec![]),
            ("Rect(w: x)".to_string(), vec!["x"]),
        ]
    }

    /// `'s` → integer
    fn fun_shape(&mut self) -> Fun {
        let name = self.fresh("s");
        let mut pats = self.shape_pats();
        self.r.shuffle(&mut pats);
        let n = 2 + self.r.usize(3);
        let mut brs = vec![];
        for (p, vars) in pats.into_iter().take(n) {
            let e = self.any_result(&vars);
            brs.push(format!("| ={p} => {e}"));
        }
        if self.r.chance(1, 2) {
            brs.push(format!("| {}", self.k()));
        }
        Fun { src: format!("{name} = #'s {{ {} }}", brs.join(" ")), name, kind: "shape", total: false }
    }

    /// `['s, 'int]` (written out, or through the alias `'ps`) → integer
    fn fun_shape_field(&mut self) -> Fun {
        let name = self.fresh("p");
        let mut pats = self.shape_pats();
        self.r.shuffle(&mut pats);
        let n = 2 + self.r.usize(3);
        let mut brs = vec![];
        // which variants of field 0 the branches so far have used up (a literal anywhere keeps it alive)
        let (mut circle, mut rect, mut dot) = (false, false, false);
        for (p, vars) in pats.into_iter().take(n) {
            let mut vs = vars.clone();
            let second = match self.r.below(4) {
                0 => self.k().to_string(),
                1 => "_".to_string(),
                _ => {
                    vs.push("a");
                    "a".to_string()
                }
            };
            let e = self.int_expr(&vs);
            brs.push(format!("| =[{p}, {second}] => {e}"));
            let open = second.chars().all(|c| !c.is_ascii_digit());
            if open {
                match p.as_str() {
                    "Circle[r: x]" | "Circle(r)" | "(r)" | "Circle[_]" => circle = true,
                    "Rect[w: x, h: y]" | "Rect*" | "(w, h)" | "(h: y)" | "Rect(w: x)" => rect = true,
                    "Dot" => dot = true,
                    _ => {}
                }
            }
            // open finding 12 (a used-up field is an InternalError): nothing after the field is used up
            if self.steer && circle && rect && dot {
                break;
            }
        }
        if self.r.chance(1, 2) && !(self.steer && circle && rect && dot) {
            brs.push("| =[_, a] => a".to_string());
        }
        let param = if self.r.chance(1, 2) { "'ps" } else { "['s, 'int]" };
        Fun { src: format!("{name} = #{param} {{ {} }}", brs.join(" ")), name, kind: "shapefield", total: false }
    }

    /// `'ext = E[...'b, s: 's]` → integer
    fn fun_ext(&mut self) -> Fun {
        let name = self.fresh("e");
        let mut pool: Vec<(String, Vec<&'static str>)> = vec![
            ("E[id: i, s: Circle[r: x]]".to_string(), vec!["i", "x"]),
            ("E[id: i, s: _]".to_string(), vec!["i"]),
            ("E(s: Rect[w: x, h: _])".to_string(), vec!["x"]),
            ("E(id)".to_string(), vec!["id"]),
            ("E(s: Dot)".to_string(), vec![]),
            ("(id: i, s: Circle[r: x])".to_string(), vec!["i", "x"]),
            (format!("E[id: {}, s: _]", self.k()), vec![]),
        ];
        self.r.shuffle(&mut pool);
        let n = 2 + self.r.usize(2);
        let mut brs = vec![];
        for (p, vars) in pool.into_iter().take(n) {
            let e = self.int_expr(&vars);
            brs.push(format!("| ={p} => {e}"));
        }
        Fun { src: format!("{name} = #'ext {{ {} }}", brs.join(" ")), name, kind: "ext", total: false }
    }

    pub fn program_shapes(&mut self) -> String {
        let mut steps: Vec<String> = vec![
            "'s = Circle[r: 'int] | Rect[w: 'int, h: 'int] | Dot".into(),
            "'ps = ['s, 'int]".into(),
            "'b = [id: 'int]".into(),
            "'ext = E[...'b, s: 's]".into(),
        ];
        let nf = 1 + self.r.usize(3);
        let mut funs = vec![];
        for _ in 0..nf {
            let f = match self.r.below(5) {
                0 | 1 => self.fun_shape(),
                2 | 3 => self.fun_shape_field(),
                _ => self.fun_ext(),
            };
            steps.push(f.src.clone());
            funs.push(f);
        }
        let mut obs = vec![];
        let no = 2 + self.r.usize(3);
        for _ in 0..no {
            let f = &funs[self.r.usize(funs.len())];
            let (name, kind) = (f.name.clone(), f.kind);
            let sh = self.shape_lit();
            let k = self.k();
            obs.push(match kind {
                "shape" => format!("{sh} {name}{}", self.post()),
                "shapefield" => format!("[{sh}, {k}] {name}"),
                _ => format!("E[id: {k}, s: {sh}] {name}"),
            });
        }
        steps.push(format!("[{}]", obs.join(", ")));
        steps.join(", ")
    }

    // ---------------------------------------------------------------------------------------------
    // fourth family: PARAMETERISED aliases and generic functions over them (the reference evaluator is
    // untyped: a generic function is just a function)
    // ---------------------------------------------------------------------------------------------

    /// a list literal whose elements are all of one kind: integers, binaries, or `A[int]` records
    fn list_lit_of(&mut self, kind: u64) -> String {
        let n = self.r.usize(4);
        let mut s = "Nil".to_string();
        for _ in 0..n {
            let e = match kind {
                0 => self.k().to_string(),
                1 => format!("0x0{}", self.k()),
                _ => format!("A[{}]", self.k()),
            };
            s = format!("Cons[{e}, {s}]");
        }
        s
    }

    pub fn program_generics(&mut self) -> String {
        let mut steps: Vec<String> = vec!["'list<'t> = Nil | Cons['t, ^]".into(), "'opt<'t> = None | Some['t]".into()];
        // (name, shape of the call: 0 = list, 1 = [list, list], 2 = [list, default], 3 = [opt, default], 4 = [list, 'int])
        let mut funs: Vec<(String, u8)> = vec![];
        let nf = 1 + self.r.usize(3);
        for _ in 0..nf {
            let name = self.fresh("t");
            let k = self.k();
            let (src, shape) = match self.r.below(11) {
                0 => ("#<'t>['list<'t>, 'list<'t>] { | =[Nil, a] => a | =[Cons[h, t], a] => [t, Cons[h, a]] ^ }".to_string(), 1),
                1 => ("#<'t>'list<'t> { | =Cons[h, Nil] => h | =Cons[_, t] => t ^ }".to_string(), 0),
                2 => ("#<'t>['list<'t>, 't] { | =[Nil, d] => d | =[Cons[h, _], _] => h }".to_string(), 2),
                3 => ("#<'t>['opt<'t>, 't] { | =[Some[v], _] => v | =[None, d] => d }".to_string(), 3),
                4 => ("#<'t>['list<'t>, 'int] { | =[Nil, a] => a | =[Cons[_, t], a] => [t, [a, 1] __integer_add__] ^ }".to_string(), 4),
                5 => (format!("#<'t>['list<'t>, 'list<'t>] {{ | =[Cons[h, Cons[g, t]], a] => [t, Cons[g, Cons[h, a]]] ^ | =[Cons[h, Nil], a] => Cons[h, a] | =[Nil, a] => a }}"), 1),
                6 => (format!("#<'t>['list<'t>, 'int] {{ | =[Cons[h, Nil], {k}] => [h] | =[Cons[_, t], a] => [t, [a, 1] __integer_subtract__] ^ | =[Nil, _] => [] }}"), 4),
                7 => ("#<'t>'list<'t> { | =Nil => None | =Cons[h, _] => Some[h] }".to_string(), 0),
                // higher order: map / filter / fold with the function passed on by reference
                8 => ("#<'t, 'u>['list<'t>, #'t -> 'u, 'list<'u>] { | =[Nil, _, a] => a | =[Cons[h, t], f, a] => [t, &f, Cons[h f, a]] ^ }".to_string(), 5),
                9 => ("#<'t>['list<'t>, #'t -> (Ok | []), 'list<'t>] { | =[Nil, _, a] => a | =[Cons[h, t], p, a], h p => [t, &p, Cons[h, a]] ^ | =[Cons[_, t], p, a] => [t, &p, a] ^ }".to_string(), 6),
                _ => ("#<'t, 'a>['list<'t>, 'a, #['a, 't] -> 'a] { | =[Nil, a, _] => a | =[Cons[h, t], a, f] => [t, [a, h] f, &f] ^ }".to_string(), 7),
            };
            steps.push(format!("{name} = {src}"));
            funs.push((name, shape));
        }
        // functions to pass: one over a captured variable, one that wraps, a predicate
        let (k1, k2, k3) = (self.k(), self.k(), self.k());
        let v = [-1, 0, 1][self.r.usize(3)];
        steps.push(format!("kk = {k1}"));
        steps.push(format!("inc = #'int {{ [~, kk] {} }}", self.op()));
        steps.push("wr = #'int { A[~] }".to_string());
        steps.push(format!("pr = #'int {{ [~, {k2}] __integer_compare__ ={v} }}"));
        let mut obs = vec![];
        let no = 2 + self.r.usize(3);
        for _ in 0..no {
            let (name, shape) = funs[self.r.usize(funs.len())].clone();
            let kind = if shape >= 5 { 0 } else { self.r.below(3) };
            let l = self.list_lit_of(kind);
            let elem = match kind {
                0 => self.k().to_string(),
                1 => format!("0x0{}", self.k()),
                _ => format!("A[{}]", self.k()),
            };
            let call = match shape {
                0 => format!("{l} {name}"),
                1 => {
                    let l2 = self.list_lit_of(kind);
                    format!("[{l}, {l2}] {name}")
                }
                2 => format!("[{l}, {elem}] {name}"),
                3 => {
                    let o = if self.r.chance(1, 2) { format!("Some[{elem}]") } else { "None".to_string() };
                    format!("[{o}, {elem}] {name}")
                }
                4 => format!("[{l}, {}] {name}", self.k()),
                5 => format!("[{l}, &{}, Nil] {name}", if self.r.chance(1, 2) { "inc" } else { "wr" }),
                6 => format!("[{l}, &pr, Nil] {name}"),
                _ => format!("[{l}, {k3}, &{}] {name}", ["__integer_add__", "__integer_multiply__", "__integer_subtract__"][self.r.usize(3)]),
            };
            obs.push(format!("{call}{}", self.post()));
        }
        steps.push(format!("[{}]", obs.join(", ")));
        steps.join(", ")
    }

    // ---------------------------------------------------------------------------------------------
    // third family: PARTIAL types as parameter types — "any tuple that has these fields"
    // ---------------------------------------------------------------------------------------------

    /// a tuple literal that has the integer fields `x` (and `y` if asked), under a random name, with extra
    /// fields; with `any_layout` in any order, otherwise the asked fields first and in order
    fn record_lit(&mut self, with_y: bool, name: Option<&str>) -> String {
        let mut fields = vec![format!("x: {}", self.k())];
        if with_y {
            fields.push(format!("y: {}", self.k()));
        }
        let mut extra = vec![];
        if !with_y && self.r.chance(1, 2) {
            extra.push(format!("y: {}", self.k()));
        }
        if self.r.chance(1, 2) {
            extra.push(format!("z: {}", 5 + self.k()));
        }
        if self.r.chance(1, 4) {
            extra.push("w: 0x07".to_string());
        }
        fields.extend(extra);
        if self.any_layout {
            self.r.shuffle(&mut fields);
        }
        let n = match name {
            Some(n) => n.to_string(),
            None => ["", "P", "Q", "R"][self.r.usize(4)].to_string(),
        };
        format!("{n}[{}]", fields.join(", "))
    }

    pub fn program_partials(&mut self) -> String {
        let mut steps: Vec<String> = vec!["'hx = (x: 'int)".into(), "'hxy = (x: 'int, y: 'int)".into(), "'np = P(x: 'int)".into()];
        // (name, needs y, needs the name P)
        let mut funs: Vec<(String, bool, bool)> = vec![];
        let nf = 1 + self.r.usize(3);
        for _ in 0..nf {
            let name = self.fresh("q");
            let k = self.k();
            let (src, with_y, named) = match self.r.below(10) {
                0 => (format!("#'hx {{ $.x }}"), false, false),
                1 => (format!("#'hx {{ =(x) => {} }}", self.any_result(&["x"])), false, false),
                2 => (format!("#'hxy {{ [$.x, $.y] {} }}", self.op()), true, false),
                3 => (format!("#'hxy {{ | =(x: {k}) => $.y | =(x, y) => [x, y] {} }}", self.op()), true, false),
                4 => (format!("#'hxy {{ =* => [x, y] {} }}", self.op()), true, false),
                5 => (format!("#'np {{ .x }}"), false, true),
                6 => (format!("#(x: 'int) {{ =v => [v.x, {k}] {} }}", self.op()), false, false),
                7 => (format!("#(x: 'int, y: 'int) {{ | =(y: {k}) => $.x | [$.y, $.x] {} }}", self.op()), true, false),
                8 => (format!("#[(x: 'int), 'int] {{ =[(x), a] => [x, a] {} }}", self.op()), false, false),
                _ => (format!("#'hx {{ ~.x {{ | ={k} => 9 | ~ }} }}"), false, false),
            };
            steps.push(format!("{name} = {src}"));
            funs.push((name, with_y, named));
        }
        let mut obs = vec![];
        let no = 2 + self.r.usize(3);
        for _ in 0..no {
            let (name, with_y, named) = funs[self.r.usize(funs.len())].clone();
            let lit = self.record_lit(with_y, if named { Some("P") } else { None });
            let wrapped = steps.iter().any(|s| s.starts_with(&format!("{name} = #[(x: 'int), 'int]")));
            obs.push(if wrapped { format!("[{lit}, {}] {name}", self.k()) } else { format!("{lit} {name}") });
        }
        steps.push(format!("[{}]", obs.join(", ")));
        steps.join(", ")
    }

    /// a whole program; `None` for the (rare) draw without any observation
    pub fn program(&mut self) -> String {
        let mut steps: Vec<String> = vec!["'list = Nil | Cons['int, ^]".into(), "'tree = Leaf['int] | Node[^, ^]".into()];
        let nf = 1 + self.r.usize(3);
        let mut funs = vec![];
        for _ in 0..nf {
            let f = match self.r.below(7) {
                0 | 1 | 2 => self.fun_acc(),
                3 | 4 => self.fun_rev(),
                5 => self.fun_one(),
                _ => self.fun_tree(),
            };
            steps.push(f.src.clone());
            funs.push(f);
        }
        let folds: Vec<String> = funs.iter().filter(|g| g.kind == "acc" && g.total).map(|g| g.name.clone()).collect();
        if !folds.is_empty() && self.r.chance(1, 2) {
            let fold = folds[self.r.usize(folds.len())].clone();
            let f = self.fun_opt(&fold);
            steps.push(f.src.clone());
            funs.push(f);
        }
        // observations
        let mut obs = vec![];
        let no = 1 + self.r.usize(3);
        for _ in 0..no {
            let f = &funs[self.r.usize(funs.len())];
            let (name, kind) = (f.name.clone(), f.kind);
            let o = match kind {
                "acc" => {
                    // sometimes the list comes out of a total list-to-list function
                    let revs: Vec<String> = funs.iter().filter(|g| g.kind == "rev" && g.total).map(|g| g.name.clone()).collect();
                    let l = self.list_lit();
                    let k = self.k();
                    if !revs.is_empty() && self.r.chance(1, 2) {
                        let r = revs[self.r.usize(revs.len())].clone();
                        let v = self.fresh("x");
                        steps.push(format!("{v} = [{l}, Nil] {r}"));
                        format!("[{v}, {k}] {name}")
                    } else {
                        format!("[{l}, {k}] {name}")
                    }
                }
                "opt" => {
                    let l = if self.r.chance(1, 3) { "[]".to_string() } else { self.list_lit() };
                    let k = self.k();
                    format!("[{l}, {k}] {name}")
                }
                "rev" => {
                    let (l1, l2) = (self.list_lit(), self.list_lit());
                    format!("[{l1}, {l2}] {name}")
                }
                "one" => {
                    let l = self.list_lit();
                    format!("{l} {name}{}", self.post())
                }
                _ => {
                    let t = self.tree_lit(3);
                    format!("{t} {name}{}", self.post())
                }
            };
            obs.push(o);
        }
        steps.push(format!("[{}]", obs.join(", ")));
        steps.join(", ")
    }
}
