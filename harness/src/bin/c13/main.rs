//! C13 — equality is structural, construction-independent, and refs are unique.
//!
//! (a) `compute_canonical_tuples` (pub) on generated tuple tables vs the model's `canonicalTuples`,
//!     plus the `canon_spec` / minimality oracle evaluated directly on the implementation's table;
//! (b) pairs of values built by different *construction paths* on the real system (sync VM and the
//!     full Environment + Workers + Repl under a seeded deterministic schedule); the verdicts of
//!     real programs — `a =&b`, `b =&a`, `[a, b] =[z, z]`, `a =&a`, `a =<literal>` — are compared
//!     with the model (`matchVerdict`, `valuesEqual`) on the *runtime* values the program returned
//!     (tuple ids, constant/heap binary handles as they are) and with the property oracle:
//!     equality of the erasures computed on the Rust side;
//! (c) refs: many refs minted in one process and in spawned processes on several workers;
//!     pairwise distinctness, equality with self through the language, `(worker, counter)` layout
//!     against the model's `mintRef`.
mod r#gen;
mod sim;

use r#gen::{Pb, gen_spec, mutate};
use qverif::run::{Builtins, RunOutcome, compile_source, run_sync};
use qverif::{Ev, Model, Opts, Rng, hex};
use quiver_core::bytecode::Constant;
use quiver_core::compatibility::compute_canonical_tuples;
use quiver_core::types::TupleTypeInfo;
use quiver_core::value::{Binary, Value};
use serde_json::{Value as J, json};
use std::collections::{BTreeMap, HashMap};

// ---------- rendering for the model, erasure on the Rust side ----------

fn atom(s: &Option<String>) -> String {
    match s {
        Some(s) if !s.is_empty() && !s.contains(|c: char| c.is_whitespace() || c == '(' || c == ')') && s != "_" => {
            s.clone()
        }
        Some(s) => format!("?{}", hex(s.as_bytes())),
        None => "_".into(),
    }
}

fn bytes_sx(b: &[u8]) -> String {
    if b.is_empty() { "(b)".into() } else { format!("(b {})", hex(b)) }
}

fn ctx_line(tuples: &[TupleTypeInfo], consts: &[Constant], heap: &[Vec<u8>]) -> String {
    let mut s = String::from("(ctx (tuples");
    for t in tuples {
        s.push_str(" (");
        s.push_str(&atom(&t.name));
        for (l, _) in &t.fields {
            s.push(' ');
            s.push_str(&atom(l));
        }
        s.push(')');
    }
    s.push_str(") (consts");
    for c in consts {
        s.push(' ');
        match c {
            Constant::Integer(i) => s.push_str(&format!("(i {i})")),
            Constant::Binary(b) => s.push_str(&bytes_sx(b)),
        }
    }
    s.push_str(") (heap");
    for h in heap {
        s.push(' ');
        s.push_str(&bytes_sx(h));
    }
    s.push_str("))");
    s
}

fn render_val(v: &Value) -> String {
    match v {
        Value::Integer(i) => format!("(i {i})"),
        Value::Binary(Binary::Constant(i)) => format!("(bc {i})"),
        Value::Binary(Binary::Heap(i)) => format!("(bh {i})"),
        Value::Reference(r) => format!("(r {r})"),
        Value::Tuple(id, fs) => {
            let mut s = format!("(t {id}");
            for f in fs.iter() {
                s.push(' ');
                s.push_str(&render_val(f));
            }
            s.push(')');
            s
        }
        Value::Function(id, cs) => {
            let mut s = format!("(f {id}");
            for f in cs.iter() {
                s.push(' ');
                s.push_str(&render_val(f));
            }
            s.push(')');
            s
        }
        Value::Builtin(i) => format!("(u {i})"),
        Value::Process(p, f) => format!("(p {p} {f})"),
        Value::Resource(r, t) => format!("(x {r} {t})"),
    }
}

struct Tables<'a> {
    tuples: &'a [TupleTypeInfo],
    consts: &'a [Constant],
    heap: &'a [Vec<u8>],
}

/// The property's notion of "the same value", computed independently of the model: tuple ids →
/// name + labels, binary handles → bytes, process handle → pid. Same syntax as the driver's `erase`.
fn erase_str(v: &Value, t: &Tables) -> String {
    match v {
        Value::Integer(i) => format!("(i {i})"),
        Value::Binary(b) => {
            let bytes = match b {
                Binary::Constant(i) => match t.consts.get(*i) {
                    Some(Constant::Binary(x)) => Some(x.clone()),
                    _ => None,
                },
                Binary::Heap(i) => t.heap.get(*i).cloned(),
            };
            match bytes {
                Some(b) => bytes_sx(&b),
                None => "bad".into(),
            }
        }
        Value::Reference(r) => format!("(r {r})"),
        Value::Tuple(id, fs) => match t.tuples.get(*id) {
            Some(info) => {
                let labels: Vec<String> = info.fields.iter().map(|(l, _)| atom(l)).collect();
                let mut s = format!("(t {} ({})", atom(&info.name), labels.join(" "));
                for f in fs.iter() {
                    s.push(' ');
                    s.push_str(&erase_str(f, t));
                }
                s.push(')');
                s
            }
            None => "bad".into(),
        },
        Value::Function(id, cs) => {
            let mut s = format!("(f {id}");
            for f in cs.iter() {
                s.push(' ');
                s.push_str(&erase_str(f, t));
            }
            s.push(')');
            s
        }
        Value::Builtin(i) => format!("(u {i})"),
        Value::Process(p, _) => format!("(p {p})"),
        Value::Resource(r, _) => format!("(x {r})"),
    }
}

fn collect_procs(v: &Value, out: &mut Vec<(usize, usize)>) {
    match v {
        Value::Process(p, f) => out.push((*p, *f)),
        Value::Tuple(_, fs) | Value::Function(_, fs) => fs.iter().for_each(|f| collect_procs(f, out)),
        _ => {}
    }
}

fn has_resource(v: &Value) -> bool {
    match v {
        Value::Resource(..) => true,
        Value::Tuple(_, fs) | Value::Function(_, fs) => fs.iter().any(has_resource),
        _ => false,
    }
}

fn kinds(v: &Value, out: &mut BTreeMap<&'static str, u64>) {
    *out.entry(v.type_name()).or_insert(0) += 1;
    match v {
        Value::Binary(Binary::Constant(_)) => *out.entry("binary-constant").or_insert(0) += 1,
        Value::Binary(Binary::Heap(_)) => *out.entry("binary-heap").or_insert(0) += 1,
        Value::Tuple(_, fs) | Value::Function(_, fs) => fs.iter().for_each(|f| kinds(f, out)),
        _ => {}
    }
}

/// pairs of tuple ids that differ although the tuples they head are at the same position — i.e.
/// cases where canonicalisation is what makes the comparison succeed
fn differing_ids(a: &Value, b: &Value) -> u64 {
    match (a, b) {
        (Value::Tuple(x, fa), Value::Tuple(y, fb)) => {
            (if x != y { 1 } else { 0 })
                + fa.iter().zip(fb.iter()).map(|(p, q)| differing_ids(p, q)).sum::<u64>()
        }
        (Value::Function(_, fa), Value::Function(_, fb)) => {
            fa.iter().zip(fb.iter()).map(|(p, q)| differing_ids(p, q)).sum::<u64>()
        }
        _ => 0,
    }
}

fn mixed_binaries(a: &Value, b: &Value) -> u64 {
    match (a, b) {
        (Value::Binary(Binary::Constant(_)), Value::Binary(Binary::Heap(_)))
        | (Value::Binary(Binary::Heap(_)), Value::Binary(Binary::Constant(_))) => 1,
        (Value::Tuple(_, fa), Value::Tuple(_, fb)) | (Value::Function(_, fa), Value::Function(_, fb)) => {
            fa.iter().zip(fb.iter()).map(|(p, q)| mixed_binaries(p, q)).sum::<u64>()
        }
        _ => 0,
    }
}

fn verdict_of(v: &Value) -> Option<bool> {
    if v.is_ok() {
        Some(true)
    } else if v.is_nil() {
        Some(false)
    } else {
        None
    }
}

/// Split an erasure `(head a b (c d) …)` into its top-level items (atoms or parenthesised groups).
fn sx_items(s: &str) -> Vec<&str> {
    let inner = s.strip_prefix('(').and_then(|x| x.strip_suffix(')')).unwrap_or(s);
    let mut out = vec![];
    let (mut depth, mut start) = (0i32, None);
    for (i, c) in inner.char_indices() {
        match c {
            '(' => {
                if depth == 0 && start.is_none() {
                    start = Some(i);
                }
                depth += 1;
            }
            ')' => {
                depth -= 1;
                if depth == 0 && let Some(st) = start.take() {
                    out.push(&inner[st..=i]);
                }
            }
            ' ' if depth == 0 => {
                if let Some(st) = start.take() {
                    out.push(&inner[st..i]);
                }
            }
            _ => {
                if start.is_none() {
                    start = Some(i);
                }
            }
        }
    }
    if let Some(st) = start {
        out.push(&inner[st..]);
    }
    out
}

/// Do the erasures `ea`, `eb` differ only underneath positions where `ea` is NIL? (F25: the static
/// type of a nil-valued variable can have lost its nil variant, so *type tests* — which is what a
/// literal tuple / `[]` / `Ok` pattern compiles to — at those positions are decided statically.)
fn differ_only_at_nil(ea: &str, eb: &str) -> bool {
    if ea == "(t _ ())" {
        return true;
    }
    if ea == eb {
        return true;
    }
    let (ia, ib) = (sx_items(ea), sx_items(eb));
    if ia.len() != ib.len() || ia.len() < 3 || ia[0] != "t" || ib[0] != "t" || ia[1] != ib[1] || ia[2] != ib[2] {
        return false;
    }
    ia[3..].iter().zip(ib[3..].iter()).all(|(x, y)| differ_only_at_nil(x, y))
}

// ---------- one compared pair ----------

/// Names of the verdict slots following `a` and `b` in the result tuple.
const SLOTS: [&str; 5] = ["pin-ab", "pin-ba", "repeated-binder", "pin-aa", "literal"];

struct PairInfo<'a> {
    mode: &'a str,
    source: &'a str,
    modules: &'a HashMap<Vec<String>, String>,
    spec_equal: Option<bool>,
    /// `Some(true)`: slot 4 is `a =<literal of b>`; `None`: slot 4 carries no oracle (corpus)
    lit_is_b: Option<bool>,
    extra: J,
}

fn replay_json(info: &PairInfo, a: &Value, b: &Value, slots: &[Option<bool>], detail: J) -> J {
    let modules: BTreeMap<String, String> =
        info.modules.iter().map(|(k, v)| (k.join("/"), v.clone())).collect();
    json!({
        "mode": info.mode,
        "source": info.source,
        "modules": modules,
        "a": render_val(a),
        "b": render_val(b),
        "verdicts": SLOTS.iter().zip(slots.iter()).map(|(n, v)| json!({"form": n, "impl": v})).collect::<Vec<_>>(),
        "detail": detail,
        "literal_of_b": info.lit_is_b,
        "workers": info.extra["workers"],
        "sched_seed": info.extra["sched_seed"],
        "extra": info.extra,
    })
}

/// Check one pair. `result` is the tuple `[a, b, pin-ab, pin-ba, repeated, pin-aa, (literal)]`.
fn check_pair(ev: &mut Ev, model: &mut Model, t: &Tables, result: &Value, info: &PairInfo) -> bool {
    let Value::Tuple(_, fields) = result else {
        ev.hit("result:not-a-tuple");
        return false;
    };
    if fields.len() < 6 {
        ev.hit("result:short-tuple");
        return false;
    }
    let (a, b) = (&fields[0], &fields[1]);
    let mut slots: Vec<Option<bool>> = fields[2..].iter().map(verdict_of).collect();
    slots.resize(SLOTS.len(), None);

    let ea = erase_str(a, t);
    let eb = erase_str(b, t);
    let same = ea == eb;
    let ans = model.ask_all(&[
        ctx_line(t.tuples, t.consts, t.heap),
        format!("(erase {})", render_val(a)),
        format!("(erase {})", render_val(b)),
        format!("(equal {} {})", render_val(a), render_val(b)),
        format!("(equal {} {})", render_val(b), render_val(a)),
        format!("(verdict {} {})", render_val(a), render_val(b)),
        format!("(verdict {} {})", render_val(b), render_val(a)),
        format!("(verdict {} {})", render_val(a), render_val(a)),
        format!("(wf {})", render_val(a)),
        format!("(wf {})", render_val(b)),
    ]);
    let (m_ea, m_eb, m_eq_ab, m_eq_ba, m_v_ab, m_v_ba, m_v_aa, m_wf_a, m_wf_b) =
        (&ans[1], &ans[2], &ans[3], &ans[4], &ans[5], &ans[6], &ans[7], &ans[8], &ans[9]);

    let mut procs = vec![];
    collect_procs(a, &mut procs);
    collect_procs(b, &mut procs);
    let mut pf: HashMap<usize, usize> = HashMap::new();
    let mut proc_incoherent = false;
    for (p, f) in &procs {
        if *pf.entry(*p).or_insert(*f) != *f {
            proc_incoherent = true;
        }
    }
    let resource = has_resource(a) || has_resource(b);
    let wf = m_wf_a == "true" && m_wf_b == "true" && !proc_incoherent;

    // coverage
    let mut ks = BTreeMap::new();
    kinds(a, &mut ks);
    kinds(b, &mut ks);
    for (k, n) in &ks {
        ev.add(&format!("value-kind:{k}"), *n);
    }
    ev.hit(if same { "pair:same-structure" } else { "pair:different-structure" });
    if same {
        let d = differing_ids(a, b);
        if d > 0 {
            ev.hit("pair:same-structure/different-tuple-ids");
        }
        if mixed_binaries(a, b) > 0 {
            ev.hit("pair:same-structure/constant-vs-heap-binary");
        }
        if render_val(a) != render_val(b) {
            ev.hit("pair:same-structure/different-representation");
        }
    }
    if a.is_nil() {
        ev.hit("pair:a-is-nil");
    }
    ev.case(&(info.source, render_val(a), render_val(b)), true);

    let fail = |ev: &mut Ev, sig: &str, what: String, found: bool, detail: J| {
        ev.violation(sig, &what, replay_json(info, a, b, &slots, detail), found);
    };

    // 0. the generator's own expectation (same spec <=> same erasure)
    if let Some(se) = info.spec_equal
        && se != same
    {
        fail(
            ev,
            "construct=structure-differs-from-specification",
            format!(
                "values specified as {} were built as {} structures: {ea} vs {eb}",
                if se { "equal" } else { "different" },
                if same { "equal" } else { "different" }
            ),
            true,
            json!({"erase_a": ea, "erase_b": eb}),
        );
        return true;
    }

    // 1. erase tie
    if m_ea != &ea || m_eb != &eb {
        fail(
            ev,
            "tie=erase",
            format!("model erase differs from the Rust-side erasure: {m_ea} vs {ea} / {m_eb} vs {eb}"),
            false,
            json!({"broken": "correspondence model<->impl on erase", "model": [m_ea, m_eb], "rust": [ea, eb]}),
        );
    }
    // 2. instance of valuesEqual_iff_erase / symmetry on the model side
    if wf && !resource && ((m_eq_ab == "true") != same || m_eq_ab != m_eq_ba) {
        fail(
            ev,
            "theorem-instance=valuesEqual_iff_erase",
            format!("model valuesEqual={m_eq_ab}/{m_eq_ba} but erasures equal={same} on well-formed values"),
            false,
            json!({"broken": "theorem C13.valuesEqual_iff_erase instance (driver/parse bug?)"}),
        );
    }
    if !wf {
        ev.hit(if proc_incoherent { "wf:process-handles-incoherent" } else { "wf:false" });
    }

    // 3./4. every verdict slot: model correspondence and property oracle
    let model_verdict = |s: &str| -> Option<bool> {
        match s {
            "ok true" => Some(true),
            "ok false" => Some(false),
            _ => None,
        }
    };
    // what the property demands of each slot
    let want: [Option<bool>; 5] = [
        Some(same),
        Some(same),
        Some(same),
        Some(true),
        if fields.len() >= 7 { info.lit_is_b.map(|l| if l { same } else { true }) } else { None },
    ];
    // what the model says the code computes (first operand of Equal = matched value)
    let model_says: [Option<bool>; 5] =
        [model_verdict(m_v_ab), model_verdict(m_v_ba), model_verdict(m_v_ba), model_verdict(m_v_aa), None];
    for i in 0..5 {
        let Some(w) = want[i] else { continue };
        let got = slots[i];
        ev.hit(&format!("verdict:{}:{}", SLOTS[i], match got {
            Some(true) => "Ok",
            Some(false) => "[]",
            None => "other",
        }));
        if got.is_none() {
            fail(
                ev,
                &format!("equal=verdict-not-ok-or-nil form={}", SLOTS[i]),
                format!("{} evaluated to neither Ok nor []", SLOTS[i]),
                true,
                json!({"slot": SLOTS[i]}),
            );
            continue;
        }
        if let Some(m) = model_says[i]
            && Some(m) != got
        {
            // model and implementation disagree on what the code computes; does the property fail too?
            let oracle_fails = got != Some(w);
            fail(
                ev,
                &format!("tie=verdict form={}", SLOTS[i]),
                format!(
                    "{}: implementation answers {:?}, model matchVerdict answers {m} (property wants {w})",
                    SLOTS[i], got
                ),
                oracle_fails,
                json!({"broken": "correspondence model<->impl on Equal(2) verdict", "slot": SLOTS[i], "model": m, "impl": got, "want": w}),
            );
            continue;
        }
        if got != Some(w) {
            // the property itself fails on the implementation
            let matched_nil = match i {
                0 | 3 => a.is_nil(),
                1 => b.is_nil(),
                2 => a.is_nil() || b.is_nil(),
                _ => false,
            };
            let sig = if i == 4 && ea.contains("(t _ ())") && (w || differ_only_at_nil(&ea, &eb)) {
                // `=[]` (alone or inside a tuple pattern) is a *type* test compiled to IsType, not
                // to Equal; it rejects a nil value whose static type is a union containing nil
                "literal=nil-pattern-rejects-nil-value".to_string()
            } else if matched_nil && w {
                "equal=nil-values-compare-unequal".to_string()
            } else if proc_incoherent {
                "equal=process-handle-function-index".to_string()
            } else if resource {
                "equal=resource-never-equal-to-itself".to_string()
            } else {
                let mut ks: Vec<&str> = ks.keys().copied().collect();
                ks.sort();
                format!("equal=wrong-verdict form={} kinds={}", SLOTS[i], ks.join("+"))
            };
            fail(
                ev,
                &sig,
                format!(
                    "{} answers {:?} but the values are {} ({ea} vs {eb})",
                    SLOTS[i],
                    got,
                    if same { "structurally the same" } else { "structurally different" }
                ),
                true,
                json!({"slot": SLOTS[i], "impl": got, "want": w, "erase_a": ea, "erase_b": eb}),
            );
        }
    }
    true
}

// ---------- (a) canonical tuple tables ----------

fn part_canon(ev: &mut Ev, model: &mut Model, opts: &Opts) {
    let n = opts.tier.pick(1000u64, 12000u64);
    let names = [None, Some("P"), Some("Q"), Some("Ok"), Some("Pp")];
    let labels = [None, Some("x"), Some("y"), Some("xx")];
    for i in 0..n {
        let mut r = Rng::for_case(opts.seed ^ 0xCA_0001, i);
        let len = 2 + r.usize(if i % 7 == 0 { 40 } else { 12 });
        let mut tuples = vec![
            TupleTypeInfo { name: None, fields: vec![] },
            TupleTypeInfo { name: Some("Ok".into()), fields: vec![] },
        ];
        while tuples.len() < len {
            // often a copy of an earlier entry with other field *types* (must share the canonical id),
            // or with one label / the name changed (must not)
            let t = if !tuples.is_empty() && r.below(3) == 0 {
                let mut t: TupleTypeInfo = tuples[r.usize(tuples.len())].clone();
                match r.below(4) {
                    0 => t.fields.iter_mut().for_each(|f| f.1 = r.usize(9)),
                    1 if !t.fields.is_empty() => {
                        let k = r.usize(t.fields.len());
                        t.fields[k].0 = labels[r.usize(labels.len())].map(String::from);
                    }
                    2 => t.name = names[r.usize(names.len())].map(String::from),
                    _ => {}
                }
                t
            } else {
                let ar = r.usize(4);
                TupleTypeInfo {
                    name: names[r.usize(names.len())].map(String::from),
                    fields: (0..ar).map(|_| (labels[r.usize(labels.len())].map(String::from), r.usize(9))).collect(),
                }
            };
            tuples.push(t);
        }
        let got = compute_canonical_tuples(&tuples);
        let ans = model.ask_all(&[ctx_line(&tuples, &[], &[]), "(canontable)".to_string()]);
        let want: Vec<usize> = ans[1].split_whitespace().filter_map(|x| x.parse().ok()).collect();
        let shape = |t: &TupleTypeInfo| (t.name.clone(), t.fields.iter().map(|f| f.0.clone()).collect::<Vec<_>>());
        let shared = (0..tuples.len()).filter(|&k| got.get(k).is_some_and(|&c| c != k)).count();
        ev.case(&format!("{tuples:?}"), shared > 0);
        ev.add("canon:entries", tuples.len() as u64);
        ev.add("canon:entries-mapped-to-lower-id", shared as u64);
        let replay = json!({"part": "canon", "tuples": tuples.iter().map(|t| json!({"name": t.name, "fields": t.fields})).collect::<Vec<_>>(), "impl": got, "model": want});
        // oracle on the implementation: canon_spec + minimality
        let mut oracle_ok = got.len() == tuples.len();
        if oracle_ok {
            'o: for a in 0..tuples.len() {
                if got[a] > a || shape(&tuples[got[a]]) != shape(&tuples[a]) {
                    oracle_ok = false;
                    break;
                }
                for b in 0..tuples.len() {
                    if (got[a] == got[b]) != (shape(&tuples[a]) == shape(&tuples[b])) {
                        oracle_ok = false;
                        break 'o;
                    }
                }
            }
        }
        if !oracle_ok {
            ev.violation(
                "canon=spec-violated",
                "compute_canonical_tuples: two ids share a canonical id without sharing name+labels (or vice versa / not the lowest id)",
                replay.clone(),
                true,
            );
        }
        if got != want {
            ev.violation(
                "tie=canonical-tuples",
                &format!("compute_canonical_tuples differs from the model: {got:?} vs {want:?}"),
                json!({"broken": "correspondence model<->impl on compute_canonical_tuples", "case": replay}),
                !oracle_ok,
            );
        }
    }
}

// ---------- (b) construction paths ----------

struct Case {
    pb: Pb,
    /// the same program as several REPL inputs (sim only, when it has no typed messages)
    chunks: Option<Vec<String>>,
    src: String,
    spec_equal: bool,
    lit_is_b: bool,
    has_lit: bool,
}

fn gen_case(r: &mut Rng, sim: bool) -> Case {
    let depth = 1 + r.usize(3);
    let sa = gen_spec(r, depth, sim);
    let sb = match r.below(10) {
        0..=4 => sa.clone(),
        5..=8 => mutate(&sa, r, sim),
        _ => gen_spec(r, depth, sim),
    };
    let mut pb = Pb::new(sim);
    pb.prelude(true);
    if sim {
        pb.prelude_sim();
    }
    let va = pb.build(&sa, r);
    let vb = pb.build(&sb, r);
    // `a =<literal>`: only integer / binary literals compile to Equal (tuple, `[]`, `Ok` patterns are
    // positional *type* tests with looser rules than structural equality — spec "Destructuring")
    let lit = if matches!(sb, r#gen::S::Int(_) | r#gen::S::Bin(_)) { sb.literal_pattern() } else { None };
    let mut result = format!("[&{va}, &{vb}, &{va} =&{vb}, &{vb} =&{va}, [&{va}, &{vb}] =[z, z], &{va} =&{va}");
    if let Some(l) = &lit {
        result.push_str(&format!(", &{va} ={l}"));
    }
    result.push(']');
    let src = pb.source(&result);
    let chunks = if sim && !pb.uses_me && r.below(2) == 0 {
        let k = 2 + r.usize(3);
        Some(pb.chunks(&result, k, r))
    } else {
        None
    };
    Case { spec_equal: sa == sb, lit_is_b: true, has_lit: lit.is_some(), src, pb, chunks }
}

fn part_sync(ev: &mut Ev, model: &mut Model, opts: &Opts, b: &Builtins) {
    let n = opts.tier.pick(6000u64, 260000u64);
    for i in 0..n {
        let mut r = Rng::for_case(opts.seed ^ 0x5C_0002, i);
        let c = gen_case(&mut r, false);
        run_sync_case(ev, model, b, &c.src, &c.pb.modules, Some(c.spec_equal), Some(c.lit_is_b), &c.pb.paths, json!({"case": i, "has_literal": c.has_lit}));
    }
}

#[allow(clippy::too_many_arguments)]
fn run_sync_case(
    ev: &mut Ev,
    model: &mut Model,
    b: &Builtins,
    src: &str,
    modules: &HashMap<Vec<String>, String>,
    spec_equal: Option<bool>,
    lit_is_b: Option<bool>,
    paths: &[&'static str],
    extra: J,
) -> Option<Vec<Option<bool>>> {
    let unit = match compile_source(src, modules, b) {
        Ok(u) => u,
        Err(e) => {
            ev.hit("sync:front-end-rejected");
            if std::env::var("C13_DEBUG").is_ok() {
                eprintln!("REJECTED sync: {}\n{src}\n", format!("{e:?}").chars().take(400).collect::<String>());
            }
            ev.sample_sparse(0, 1, || json!({"rejected": format!("{e:?}").chars().take(300).collect::<String>(), "source": src}));
            ev.case(&src, false);
            return None;
        }
    };
    // every fourth program runs as `quiv run` would: tree-shaken bytecode (tuple ids remapped, the
    // canonical table computed over the shaken tuple table)
    let shaken = {
        use std::hash::{Hash, Hasher};
        let mut h = std::collections::hash_map::DefaultHasher::new();
        src.hash(&mut h);
        h.finish() % 4 == 0
    };
    let bc = if shaken {
        match qverif::catch(|| unit.program.to_bytecode_optimized(unit.entry)) {
            Ok(bc) => {
                ev.hit("sync:tree-shaken");
                bc
            }
            Err(p) => {
                ev.violation(
                    "run=panic",
                    &format!("tree_shake panicked: {}", p.lines().next().unwrap_or("")),
                    json!({"mode": "sync", "source": src, "tree_shaken": true}),
                    true,
                );
                return None;
            }
        }
    } else {
        unit.program.to_bytecode(Some(unit.entry))
    };
    if std::env::var("C13_DUMP").is_ok() {
        for (i, f) in bc.functions.iter().enumerate() {
            eprintln!("fn {i}: {:?}", f.instructions);
        }
        eprintln!("types: {:?}", bc.types.iter().enumerate().collect::<Vec<_>>());
    }
    let (tuples, consts) = (bc.tuples.clone(), bc.constants.clone());
    let (out, ex) = run_sync(bc, b, false);
    match (out, ex) {
        (RunOutcome::Value(v), Some(ex)) => {
            let (v2, heap) = qverif::run::heap_of(&ex, &v);
            let t = Tables { tuples: &tuples, consts: &consts, heap: &heap };
            let info = PairInfo { mode: "sync", source: src, modules, spec_equal, lit_is_b, extra };
            if check_pair(ev, model, &t, &v2, &info) {
                for p in paths {
                    ev.hit(&format!("path:{p}"));
                }
                ev.hit("sync:ran");
                if let Value::Tuple(_, fs) = &v2 {
                    return Some(fs[2..].iter().map(verdict_of).collect());
                }
            }
            None
        }
        (RunOutcome::Error(e), _) => {
            ev.hit(&format!("sync:runtime-error:{}", qverif::canon::error_class(&e)));
            ev.sample_sparse(0, 1, || json!({"runtime_error": format!("{e:?}"), "source": src}));
            ev.case(&src, false);
            None
        }
        (RunOutcome::Panic(p), _) => {
            ev.violation(
                "run=panic",
                &format!("VM panicked: {}", p.lines().next().unwrap_or("")),
                json!({"mode": "sync", "source": src}),
                true,
            );
            None
        }
        _ => None,
    }
}

#[allow(clippy::too_many_arguments)]
fn run_sim_case(
    ev: &mut Ev,
    model: &mut Model,
    b: &Builtins,
    src: &str,
    modules: &HashMap<Vec<String>, String>,
    spec_equal: Option<bool>,
    lit_is_b: Option<bool>,
    paths: &[&'static str],
    workers: usize,
    sched_seed: u64,
    extra: J,
) -> Option<Vec<Option<bool>>> {
    let mut sys = sim::Sys::new(workers, b, modules.clone());
    let mut r = Rng::for_case(sched_seed, 0);
    // a line `//--` separates REPL inputs (program growth between them)
    let chunks: Vec<String> = src.split("\n//--\n").map(String::from).collect();
    if chunks.len() > 1 {
        ev.hit("sim:multi-input-program");
    }
    let out = match qverif::catch(|| sys.evaluate_chunks(&chunks, &mut r, 400_000)) {
        Ok(o) => o,
        Err(p) => {
            ev.violation(
                "run=panic",
                &format!("system panicked: {}", p.lines().next().unwrap_or("")),
                json!({"mode": "sim", "workers": workers, "sched_seed": sched_seed, "source": src}),
                true,
            );
            return None;
        }
    };
    match out {
        sim::Eval::Value(v, heap) => {
            let prog = sys.env.get_program();
            let t = Tables { tuples: prog.get_tuples(), consts: prog.get_constants(), heap: &heap };
            let mut extra = extra;
            extra["workers"] = json!(workers);
            extra["sched_seed"] = json!(sched_seed);
            let info = PairInfo { mode: "sim", source: src, modules, spec_equal, lit_is_b, extra };
            if check_pair(ev, model, &t, &v, &info) {
                for p in paths {
                    ev.hit(&format!("path:{p}"));
                }
                ev.hit("sim:ran");
                // where were the refs of the compared values minted?
                let mut refs = vec![];
                collect_refs(&v, &mut refs);
                for x in refs {
                    ev.hit(&format!("ref-minted-on-worker:{}", x >> 48));
                }
                if let Value::Tuple(_, fs) = &v {
                    return Some(fs[2..].iter().map(verdict_of).collect());
                }
            }
            None
        }
        sim::Eval::FrontError(e) => {
            ev.hit("sim:front-end-rejected");
            if std::env::var("C13_DEBUG").is_ok() {
                eprintln!("REJECTED sim: {}\n{src}\n", e.chars().take(400).collect::<String>());
            }
            ev.sample_sparse(0, 1, || json!({"rejected": e.chars().take(300).collect::<String>(), "source": src}));
            ev.case(&src, false);
            None
        }
        sim::Eval::RuntimeError(e) => {
            ev.hit(&format!("sim:runtime-error:{e}"));
            ev.sample_sparse(0, 1, || json!({"runtime_error": e, "source": src}));
            ev.case(&src, false);
            None
        }
        sim::Eval::Timeout => {
            ev.hit("sim:timeout");
            ev.sample_sparse(0, 1, || json!({"timeout": true, "source": src}));
            ev.case(&src, false);
            None
        }
        sim::Eval::NoValue => {
            ev.hit("sim:no-value");
            None
        }
        sim::Eval::EnvError(e) => {
            ev.hit("sim:env-error");
            ev.sample_sparse(0, 1, || json!({"env_error": e, "source": src}));
            None
        }
    }
}

fn collect_refs(v: &Value, out: &mut Vec<u64>) {
    match v {
        Value::Reference(r) => out.push(*r),
        Value::Tuple(_, fs) | Value::Function(_, fs) => fs.iter().for_each(|f| collect_refs(f, out)),
        _ => {}
    }
}

fn part_sim(ev: &mut Ev, model: &mut Model, opts: &Opts, b: &Builtins) {
    let n = opts.tier.pick(900u64, 40000u64);
    for i in 0..n {
        let mut r = Rng::for_case(opts.seed ^ 0x51_0003, i);
        let c = gen_case(&mut r, true);
        let workers = 2 + r.usize(3);
        let sched = r.next();
        let src = match &c.chunks {
            Some(ch) => ch.join("\n//--\n"),
            None => c.src.clone(),
        };
        run_sim_case(ev, model, b, &src, &c.pb.modules, Some(c.spec_equal), Some(c.lit_is_b), &c.pb.paths, workers, sched, json!({"case": i}));
    }
}

// ---------- (c) refs ----------

fn part_refs(ev: &mut Ev, model: &mut Model, opts: &Opts, b: &Builtins) {
    let n = opts.tier.pick(60u64, 1500u64);
    for i in 0..n {
        let mut r = Rng::for_case(opts.seed ^ 0x4E_0004, i);
        let workers = 1 + r.usize(4);
        let children = r.usize(7);
        let per_child = 1 + r.usize(6);
        let in_main = 1 + r.usize(8);
        // every process returns *all* refs it minted, so the collected set is the complete history
        let mut src = String::new();
        let mint_n = |k: usize| -> String { format!("[{}]", vec!["%ref"; k].join(", ")) };
        src.push_str(&format!("mintmany = #{{ {} }}\n", mint_n(per_child)));
        let mut names = vec![];
        for c in 0..children {
            src.push_str(&format!("p{c} = @mintmany\n"));
            names.push(format!("p{c}"));
        }
        src.push_str(&format!("mine = {}\n", mint_n(in_main)));
        for c in 0..children {
            src.push_str(&format!("g{c} = !p{c}\n"));
        }
        // self-equality and cross-inequality through the language as well
        src.push_str("first = mine.0\n");
        let other = if children > 0 { "g0.0".to_string() } else if in_main > 1 { "mine.1".to_string() } else { "%ref".to_string() };
        src.push_str(&format!("other = {other}\n"));
        let mut all = vec!["&mine".to_string()];
        all.extend((0..children).map(|c| format!("&g{c}")));
        src.push_str(&format!(
            "[[{}], &first =&first, &first =&other, [&first, &first] =[z, z], [&first, &other] =[z, z]]",
            all.join(", ")
        ));
        let mut sys = sim::Sys::new(workers, b, HashMap::new());
        let mut sr = Rng::for_case(r.next(), 1);
        let out = sys.evaluate(&src, &mut sr, 400_000);
        let sim::Eval::Value(v, _) = out else {
            ev.hit("refs:not-run");
            ev.sample_sparse(0, 1, || json!({"refs_not_run": format!("{out:?}").chars().take(300).collect::<String>(), "source": src}));
            continue;
        };
        let Value::Tuple(_, fs) = &v else { continue };
        let mut refs = vec![];
        collect_refs(&fs[0], &mut refs);
        let expect_n = in_main + children * per_child;
        ev.case(&(i, &src), refs.len() >= 2);
        ev.add("refs:minted", refs.len() as u64);
        let replay = json!({"part": "refs", "mode": "sim", "workers": workers, "source": src, "refs": refs});
        if refs.len() != expect_n {
            ev.violation("refs=count", &format!("expected {expect_n} refs, program returned {}", refs.len()), replay.clone(), false);
            continue;
        }
        // pairwise distinct
        let mut sorted = refs.clone();
        sorted.sort();
        sorted.dedup();
        if sorted.len() != refs.len() {
            ev.violation("refs=duplicate", "two mintings returned the same ref", replay.clone(), true);
        }
        // language-level verdicts
        let vs: Vec<Option<bool>> = fs[1..].iter().map(verdict_of).collect();
        if vs != vec![Some(true), Some(false), Some(true), Some(false)] {
            ev.violation(
                "refs=language-verdict",
                &format!("ref self/other equality verdicts are {vs:?}, want [Ok, [], Ok, []]"),
                replay.clone(),
                true,
            );
        }
        // layout against the model: per worker the counters are exactly 0..k in order of minting
        let mut per_worker: BTreeMap<u64, Vec<u64>> = BTreeMap::new();
        for x in &refs {
            per_worker.entry(x >> 48).or_default().push(x & 0xFFFF_FFFF_FFFF);
        }
        ev.hit(&format!("refs:workers-that-minted:{}", per_worker.len()));
        let mut reqs = vec![];
        let mut wants = vec![];
        for (w, cs) in &per_worker {
            let mut cs = cs.clone();
            cs.sort();
            if cs != (0..cs.len() as u64).collect::<Vec<_>>() {
                ev.violation(
                    "refs=counter-gap",
                    &format!("worker {w} minted counters {cs:?}, expected 0..{}", cs.len()),
                    replay.clone(),
                    false,
                );
            }
            if *w >= workers as u64 {
                ev.violation("refs=worker-field", &format!("ref carries worker id {w} but only {workers} workers exist"), replay.clone(), true);
            }
            for c in cs {
                reqs.push(format!("(mintref {w} {c})"));
                wants.push((w << 48) | c);
            }
        }
        let ans = model.ask_all(&reqs);
        for (a, w) in ans.iter().zip(&wants) {
            if a.parse::<u64>().ok() != Some(*w) {
                ev.violation(
                    "tie=mintref",
                    &format!("model mintRef gives {a}, implementation minted {w}"),
                    json!({"broken": "correspondence model<->impl on create_ref", "case": replay}),
                    false,
                );
            }
        }
    }
    // boundary values of the model against the formula on u64 (the counter cannot be driven to 2^48
    // on the real system; `create_ref` is pub(crate))
    let mut reqs = vec![];
    let mut wants = vec![];
    for w in [0u64, 1, 2, 255, 65535] {
        for c in [0u64, 1, (1 << 48) - 1, 1 << 48, (1 << 48) + 5, u64::MAX - 1, u64::MAX] {
            reqs.push(format!("(mintref {w} {c})"));
            wants.push((w << 48) | c);
        }
    }
    let ans = model.ask_all(&reqs);
    for ((a, w), q) in ans.iter().zip(&wants).zip(&reqs) {
        ev.hit("refs:boundary-formula");
        if a.parse::<u64>().ok() != Some(*w) {
            ev.violation("tie=mintref", &format!("{q}: model {a}, u64 formula {w}"), json!({"broken": "mintRef vs u64 formula", "request": q}), false);
        }
    }
}

// ---------- (d) direct tie of `values_equal` / `create_ref` through the verif hooks ----------

fn ctxraw_line(tuples: &[TupleTypeInfo], canon: &[usize], consts: &[Constant], heap: &[Vec<u8>]) -> String {
    let full = ctx_line(tuples, consts, heap);
    // (ctx (tuples …) (consts …) (heap …))  ->  (ctxraw (tuples …) (canon …) (consts …) (heap …))
    let rest = full.strip_prefix("(ctx ").unwrap();
    let k = rest.find(" (consts").unwrap();
    let canon_s: Vec<String> = canon.iter().map(|c| c.to_string()).collect();
    format!("(ctxraw {} (canon{}{}){}", &rest[..k], if canon_s.is_empty() { "" } else { " " }, canon_s.join(" "), &rest[k..])
}

struct Direct {
    ntuples: usize,
    nconsts: usize,
    heap_handles: Vec<usize>,
    arities: Vec<usize>,
}

fn gen_raw(r: &mut Rng, d: &Direct, depth: usize) -> Value {
    use num_bigint::BigInt;
    let k = if depth == 0 { r.below(8) } else { r.below(11) };
    match k {
        0 => Value::Integer(BigInt::from(r.range(-2, 3))),
        1 => Value::Integer(BigInt::from(r.next()) * BigInt::from(r.below(3))),
        2 => Value::Binary(Binary::Constant(r.usize(d.nconsts + 2))),
        3 => {
            if d.heap_handles.is_empty() || r.below(8) == 0 {
                Value::Binary(Binary::Heap(90 + r.usize(3)))
            } else {
                Value::Binary(Binary::Heap(d.heap_handles[r.usize(d.heap_handles.len())]))
            }
        }
        4 => Value::Reference(match r.below(3) {
            0 => r.below(3),
            1 => (r.below(3) << 48) | r.below(3),
            _ => r.next(),
        }),
        5 => Value::Builtin(r.usize(3)),
        6 => Value::Process(r.usize(3), r.usize(3)),
        7 => Value::Resource(r.usize(3), r.usize(3)),
        8 | 9 => {
            let id = r.usize(d.ntuples + 2);
            // mostly the declared arity, sometimes another one
            let ar = if id < d.arities.len() && r.below(5) != 0 { d.arities[id] } else { r.usize(4) };
            Value::tuple(id, (0..ar).map(|_| gen_raw(r, d, depth - 1)).collect())
        }
        _ => Value::Function(r.usize(3), std::sync::Arc::new((0..r.usize(3)).map(|_| gen_raw(r, d, depth - 1)).collect())),
    }
}

/// Another representation / a near miss of `v`: other tuple id, other binary handle, one leaf changed.
fn vary_raw(v: &Value, r: &mut Rng, d: &Direct) -> Value {
    match v {
        Value::Tuple(id, fs) => {
            let id2 = if r.below(3) == 0 { r.usize(d.ntuples + 2) } else { *id };
            let mut f2: Vec<Value> = fs.iter().map(|f| if r.below(3) == 0 { vary_raw(f, r, d) } else { f.clone() }).collect();
            if r.below(12) == 0 {
                f2.pop();
            }
            Value::tuple(id2, f2)
        }
        Value::Function(id, cs) => {
            let id2 = if r.below(5) == 0 { r.usize(3) } else { *id };
            Value::Function(id2, std::sync::Arc::new(cs.iter().map(|f| if r.below(3) == 0 { vary_raw(f, r, d) } else { f.clone() }).collect()))
        }
        Value::Binary(_) => match r.below(3) {
            0 => Value::Binary(Binary::Constant(r.usize(d.nconsts + 1))),
            1 if !d.heap_handles.is_empty() => Value::Binary(Binary::Heap(d.heap_handles[r.usize(d.heap_handles.len())])),
            _ => v.clone(),
        },
        Value::Process(p, f) => match r.below(3) {
            0 => Value::Process(*p, r.usize(3)),
            1 => Value::Process(r.usize(3), *f),
            _ => v.clone(),
        },
        Value::Resource(p, t) => match r.below(3) {
            0 => Value::Resource(*p, r.usize(3)),
            1 => Value::Resource(r.usize(3), *t),
            _ => v.clone(),
        },
        _ => {
            if r.below(2) == 0 {
                v.clone()
            } else {
                gen_raw(r, d, 0)
            }
        }
    }
}

fn handles_all(h: &[usize]) -> Vec<usize> {
    let mut v = h.to_vec();
    v.sort();
    v.dedup();
    v
}

/// A rope with flattened content `bytes` in a random shape, built from the raw `BinaryData`
/// variants (the smart constructors normalise shapes away), with its driver syntax. Third component:
/// well-formed (stored lengths are the flattened lengths)? A few are deliberately not (tie only).
fn gen_rope(r: &mut Rng, bytes: &[u8], depth: usize) -> (quiver_core::binary::BinaryData, String, bool) {
    use quiver_core::binary::BinaryData as B;
    use std::rc::Rc;
    let choice = if depth == 0 { 0 } else { r.below(9) };
    match choice {
        1 | 2 => {
            let k = r.usize(bytes.len() + 1);
            let (l, ls, lo) = gen_rope(r, &bytes[..k], depth - 1);
            let (rr, rs, ro) = gen_rope(r, &bytes[k..], depth - 1);
            let bad = r.below(25) == 0;
            let total = if bad { bytes.len() + 1 } else { bytes.len() };
            (B::Concat { left: Rc::new(l), right: Rc::new(rr), total_length: total }, format!("(c {ls} {rs} {total})"), lo && ro && !bad)
        }
        3 | 4 => {
            let (n1, n2) = (r.usize(3), r.usize(3));
            let mut big = r.bytes(n1);
            big.extend_from_slice(bytes);
            let post = r.bytes(n2);
            big.extend_from_slice(&post);
            let (p, ps, po) = gen_rope(r, &big, depth - 1);
            (B::Slice { parent: Rc::new(p), offset: n1, length: bytes.len() }, format!("(s {ps} {n1} {})", bytes.len()), po)
        }
        5 | 6 | 7 => {
            let ps = r#gen::periods(bytes);
            if ps.is_empty() {
                (B::new(bytes.to_vec()), bytes_sx(bytes), true)
            } else {
                let d = ps[r.usize(ps.len())];
                let (u, us, uo) = gen_rope(r, &bytes[..d], depth - 1);
                (B::Tiled { unit: Rc::new(u), count: bytes.len() / d }, format!("(tl {us} {})", bytes.len() / d), uo)
            }
        }
        8 if bytes.iter().all(|x| *x == 0) => (B::Zeroed(bytes.len()), format!("(z {})", bytes.len()), true),
        _ => (B::new(bytes.to_vec()), bytes_sx(bytes), true),
    }
}

fn part_direct(ev: &mut Ev, model: &mut Model, opts: &Opts, b: &Builtins) {
    use quiver_core::executor::ProgramUpdate;
    let n = opts.tier.pick(700u64, 40000u64);
    let names = [None, Some("P"), Some("Q")];
    let labels = [None, Some("x"), Some("y")];
    let pool: [&[u8]; 5] = [&[], &[1], &[1, 2], &[1, 2, 3], &[0]];
    for i in 0..n {
        let mut r = Rng::for_case(opts.seed ^ 0xD1_0005, i);
        let mut tuples = vec![
            TupleTypeInfo { name: None, fields: vec![] },
            TupleTypeInfo { name: Some("Ok".into()), fields: vec![] },
        ];
        for _ in 0..r.usize(7) {
            let t = if r.below(2) == 0 && tuples.len() > 2 {
                let mut t = tuples[2 + r.usize(tuples.len() - 2)].clone();
                t.fields.iter_mut().for_each(|f| f.1 = r.usize(5));
                t
            } else {
                TupleTypeInfo {
                    name: names[r.usize(names.len())].map(String::from),
                    fields: (0..r.usize(3)).map(|_| (labels[r.usize(labels.len())].map(String::from), r.usize(5))).collect(),
                }
            };
            tuples.push(t);
        }
        let mut canon = compute_canonical_tuples(&tuples);
        // sometimes the executor's table is stale (shorter): `canonical_tuple` falls back to the id
        let stale = r.below(6) == 0;
        if stale {
            canon.truncate(r.usize(canon.len() + 1));
        }
        let consts: Vec<Constant> = (0..r.usize(6))
            .map(|_| {
                if r.below(3) == 0 {
                    Constant::Integer(num_bigint::BigInt::from(r.range(0, 3)))
                } else {
                    Constant::Binary(pool[r.usize(pool.len())].to_vec())
                }
            })
            .collect();
        let mut ex = qverif::run::Exec::new(b.clone(), false, 0);
        ex.update_program(ProgramUpdate {
            constants: consts.clone(),
            functions: vec![],
            tuples: tuples[2..].to_vec(),
            types: vec![],
            builtins: vec![],
            resources: vec![],
            type_compatibility: vec![],
            function_param_compatibility: vec![],
            builtin_param_compatibility: vec![],
            canonical_tuples: canon.clone(),
        });
        // heap slots hold ropes of every shape; several slots share their content (drawn from a small
        // pool of periodic / zero contents) so that equal bytes meet in different shapes
        let mut heap: Vec<Vec<u8>> = vec![];
        let mut heap_sx: Vec<String> = vec![];
        let mut handles = vec![];
        let mut ill_formed_rope = false;
        let contents: [&[u8]; 7] = [&[], &[1], &[1, 2], &[1, 2, 3], &[0xab; 8], &[0, 0, 0, 0], &[1, 2, 1, 2, 1, 2]];
        let shared = contents[r.usize(contents.len())];
        for _ in 0..r.usize(7) {
            let bytes: Vec<u8> = if r.below(2) == 0 { shared.to_vec() } else { contents[r.usize(contents.len())].to_vec() };
            let (data, sx, ok) = gen_rope(&mut r, &bytes, 2);
            ill_formed_rope |= !ok;
            if let Ok(Binary::Heap(ix)) = ex.allocate_binary_data(data) {
                if heap.len() <= ix {
                    heap.resize(ix + 1, vec![]);
                    heap_sx.resize(ix + 1, "(b)".to_string());
                }
                heap[ix] = bytes;
                heap_sx[ix] = sx;
                handles.push(ix);
            }
        }
        let d = Direct {
            ntuples: tuples.len(),
            nconsts: consts.len(),
            heap_handles: handles.clone(),
            arities: tuples.iter().map(|t| t.fields.len()).collect(),
        };
        let ctx = {
            let flat = ctxraw_line(&tuples, &canon, &consts, &heap);
            let k = flat.find(" (heap").unwrap();
            format!("{} (heap{}{}))", &flat[..k], if heap_sx.is_empty() { "" } else { " " }, heap_sx.join(" "))
        };
        let mut reqs = vec![ctx];
        let mut pairs = vec![];
        // all pairs of heap binaries (shape against shape), then mixed values
        for x in &handles_all(&handles) {
            for y in &handles_all(&handles) {
                if x < y || (x == y && r.below(4) == 0) {
                    let (a, b2) = (Value::Binary(Binary::Heap(*x)), Value::Binary(Binary::Heap(*y)));
                    reqs.push(format!("(equal {} {})", render_val(&a), render_val(&b2)));
                    reqs.push(format!("(wf {})", render_val(&a)));
                    reqs.push(format!("(wf {})", render_val(&b2)));
                    pairs.push((a, b2));
                }
            }
        }
        for _ in 0..8 {
            let a = gen_raw(&mut r, &d, 2);
            let b2 = if r.below(4) == 0 { gen_raw(&mut r, &d, 2) } else { vary_raw(&a, &mut r, &d) };
            reqs.push(format!("(equal {} {})", render_val(&a), render_val(&b2)));
            reqs.push(format!("(wf {})", render_val(&a)));
            reqs.push(format!("(wf {})", render_val(&b2)));
            pairs.push((a, b2));
        }
        let ans = model.ask_all(&reqs);
        for (k, (a, b2)) in pairs.iter().enumerate() {
            let got = match qverif::catch(|| ex.verif_values_equal(a, b2)) {
                Ok(x) => x.to_string(),
                Err(p) => format!("panic {}", p.lines().next().unwrap_or("")),
            };
            let want = &ans[3 * k + 1];
            let model_wf = ans[3 * k + 2] == "true" && ans[3 * k + 3] == "true";
            ev.case(&(i, k, render_val(a), render_val(b2)), true);
            if ill_formed_rope {
                ev.hit("direct:ill-formed-rope-in-heap");
            }
            if model_wf && !stale && !ill_formed_rope {
                ev.hit("direct:well-formed-pair");
                // instance of valuesEqual_iff_erase on the implementation itself (process handles in
                // raw values are arbitrary, so pairs with two handles of one pid are left to the tie)
                let t = Tables { tuples: &tuples, consts: &consts, heap: &heap };
                let mut procs = vec![];
                collect_procs(a, &mut procs);
                collect_procs(b2, &mut procs);
                let mut pf: HashMap<usize, usize> = HashMap::new();
                let coherent = procs.iter().all(|(p, f)| *pf.entry(*p).or_insert(*f) == *f);
                if coherent && (got == "true") != (erase_str(a, &t) == erase_str(b2, &t)) && !got.starts_with("panic") {
                    ev.violation(
                        &format!("equal=wrong-verdict form=values_equal kinds={}", a.type_name()),
                        &format!("values_equal({}, {}) = {got} but erasures are {} vs {}", render_val(a), render_val(b2), erase_str(a, &t), erase_str(b2, &t)),
                        json!({"ctx": reqs[0], "a": render_val(a), "b": render_val(b2), "impl": got}),
                        true,
                    );
                }
            }
            ev.hit(&format!("direct:{}:{got}", a.type_name()));
            if stale {
                ev.hit("direct:stale-canonical-table");
            }
            if &got != want {
                // does the property fail on well-formed operands? (oracle: erasures)
                let t = Tables { tuples: &tuples, consts: &consts, heap: &heap };
                let (ea, eb) = (erase_str(a, &t), erase_str(b2, &t));
                let oracle_fails = model_wf && !stale && !ill_formed_rope && (got == "true") != (ea == eb);
                ev.violation(
                    &format!("tie=values_equal arm={}", a.type_name()),
                    &format!("values_equal({}, {}) = {got}, model valuesEqual = {want}", render_val(a), render_val(b2)),
                    json!({"broken": "correspondence model<->impl on values_equal (direct, verif hook)", "ctx": reqs[0], "a": render_val(a), "b": render_val(b2), "impl": got, "model": want, "erase_a": ea, "erase_b": eb}),
                    oracle_fails,
                );
            }
        }
    }
    // transitivity on the implementation itself, over heap binaries of every shape
    for i in 0..opts.tier.pick(300u64, 6000u64) {
        let mut r = Rng::for_case(opts.seed ^ 0x7A_0007, i);
        let mut ex = qverif::run::Exec::new(b.clone(), false, 0);
        let contents: [&[u8]; 5] = [&[0xab; 8], &[0, 0, 0, 0, 0, 0], &[1, 2, 1, 2, 1, 2, 1, 2], &[7], &[]];
        let bytes = contents[r.usize(contents.len())].to_vec();
        let mut vals = vec![];
        let mut sxs = vec![];
        for _ in 0..3 {
            // mostly the same content, sometimes one byte off
            let mut bts = bytes.clone();
            if r.below(6) == 0 && !bts.is_empty() {
                let k = r.usize(bts.len());
                bts[k] ^= 1;
            }
            let (data, sx, ok) = gen_rope(&mut r, &bts, 2);
            if !ok {
                continue;
            }
            if let Ok(h) = ex.allocate_binary_data(data) {
                vals.push((Value::Binary(h), bts));
                sxs.push(sx);
            }
        }
        if vals.len() < 3 {
            continue;
        }
        let eq = |x: usize, y: usize| ex.verif_values_equal(&vals[x].0, &vals[y].0);
        let (ab, bc, ac, ba) = (eq(0, 1), eq(1, 2), eq(0, 2), eq(1, 0));
        ev.case(&("triple", i, &sxs), true);
        ev.hit(&format!("direct:triple:{}{}{}", ab as u8, bc as u8, ac as u8));
        let want = |x: usize, y: usize| vals[x].1 == vals[y].1;
        if (ab && bc && !ac) || ab != ba || ab != want(0, 1) || bc != want(1, 2) || ac != want(0, 2) || !eq(0, 0) {
            ev.violation(
                "equal=binary-verdict-depends-on-rope-shape",
                &format!("binaries {} / {} / {}: a=b {ab}, b=a {ba}, b=c {bc}, a=c {ac} (bytes equal: {} {} {})", sxs[0], sxs[1], sxs[2], want(0, 1), want(1, 2), want(0, 2)),
                json!({"part": "triple", "ropes": sxs, "ab": ab, "ba": ba, "bc": bc, "ac": ac}),
                true,
            );
        }
    }
    // oracle on the implementation: refs minted at distinct (worker, counter < 2^48) are distinct
    {
        let mut seen: HashMap<u64, (u16, u64)> = HashMap::new();
        for w in [0u16, 1, 2, 3, 255, 256, 65535] {
            for c in [0u64, 1, 2, 1 << 8, 1 << 16, (1 << 16) + 1, 1 << 24, 1 << 32, (1 << 32) + 1, 1 << 40, 1 << 47, (1 << 48) - 1] {
                let mut ex = qverif::run::Exec::new(b.clone(), false, w);
                ex.verif_set_next_ref(c);
                if let Ok(Value::Reference(x)) = qverif::catch(|| ex.verif_create_ref()) {
                    ev.hit("direct:create_ref-within-guard");
                    if let Some((w0, c0)) = seen.insert(x, (w, c)) {
                        ev.violation(
                            "refs=collision-within-guard",
                            &format!("worker {w0} at counter {c0} and worker {w} at counter {c} mint the same ref {x}"),
                            json!({"part": "create_ref", "first": [w0 as u64, c0], "second": [w as u64, c], "ref": x}),
                            true,
                        );
                    }
                }
            }
        }
    }
    // create_ref at and around the guard, on several worker ids
    for w in [0u16, 1, 7, 65535] {
        for start in [0u64, 5, (1 << 48) - 2, (1 << 48) + 3, u64::MAX - 2] {
            let mut ex = qverif::run::Exec::new(b.clone(), false, w);
            ex.verif_set_next_ref(start);
            let mut c = start;
            for _ in 0..4 {
                let got = match qverif::catch(|| ex.verif_create_ref()) {
                    Ok(Value::Reference(x)) => format!("ok {x} {}", c.wrapping_add(1)),
                    Ok(other) => format!("other {other:?}"),
                    Err(_) => "panic".to_string(),
                };
                let want = model.ask(&format!("(createref {w} {c})"));
                ev.hit("direct:create_ref");
                ev.case(&("create_ref", w, c), true);
                if got != want {
                    ev.violation(
                        "tie=create_ref",
                        &format!("create_ref on worker {w} at counter {c}: implementation {got}, model {want}"),
                        json!({"broken": "correspondence model<->impl on create_ref", "worker": w, "counter": c, "impl": got, "model": want}),
                        false,
                    );
                }
                if got == "panic" {
                    break;
                }
                c = c.wrapping_add(1);
            }
        }
    }
}

// ---------- (e) Equal(n) for every n on hand-assembled bytecode (the compiler only emits Equal(2)) ----------

fn part_equaln(ev: &mut Ev, model: &mut Model, opts: &Opts, b: &Builtins) {
    use quiver_core::bytecode::{Bytecode, Function, Instruction};
    use quiver_core::types::Type;
    let n = opts.tier.pick(800u64, 8000u64);
    let pool: [&[u8]; 3] = [&[], &[1], &[1, 2]];
    for i in 0..n {
        let mut r = Rng::for_case(opts.seed ^ 0xE9_0006, i);
        // constants: a few integers and binaries, with duplicates of content at different indices
        let consts: Vec<Constant> = (0..2 + r.usize(4))
            .map(|_| {
                if r.below(2) == 0 {
                    Constant::Integer(num_bigint::BigInt::from(r.range(0, 2)))
                } else {
                    Constant::Binary(pool[r.usize(pool.len())].to_vec())
                }
            })
            .collect();
        let pushes = r.usize(6);
        // mostly all the same constant content (so that a position-dependent bug shows), one odd one out
        let base = r.usize(consts.len());
        let mut seq: Vec<usize> = (0..pushes)
            .map(|_| {
                // another index with the same content if there is one
                let same: Vec<usize> = (0..consts.len()).filter(|&k| consts[k] == consts[base]).collect();
                same[r.usize(same.len())]
            })
            .collect();
        if pushes > 0 && r.below(2) == 0 {
            let k = r.usize(pushes);
            seq[k] = r.usize(consts.len());
        }
        let count = match r.below(8) {
            0 => 0,
            1 => pushes + 2,
            _ => r.usize(pushes + 2),
        };
        let mut instructions: Vec<Instruction> = seq.iter().map(|&k| Instruction::Constant(k)).collect();
        instructions.push(Instruction::Equal(count));
        let bc = Bytecode {
            constants: consts.clone(),
            functions: vec![Function { instructions, captures: 0, type_id: 0 }],
            builtins: vec![],
            entry: Some(0),
            tuples: vec![
                TupleTypeInfo { name: None, fields: vec![] },
                TupleTypeInfo { name: Some("Ok".into()), fields: vec![] },
            ],
            types: vec![Type::nil()],
            resources: vec![],
        };
        let tuples = bc.tuples.clone();
        let (out, _ex) = run_sync(bc, b, false);
        let got = match &out {
            RunOutcome::Value(v) if v.is_ok() => "ok (t 1)".to_string(),
            RunOutcome::Value(v) if v.is_nil() => "ok (t 0)".to_string(),
            RunOutcome::Value(v) => format!("ok other:{}", v.type_name()),
            RunOutcome::Error(e) => format!("err {}", qverif::canon::error_class(e)),
            RunOutcome::Panic(_) => "panic".to_string(),
        };
        // model stack, top first: the pushed constants in reverse, then the nil argument
        let mut stack: Vec<String> = seq
            .iter()
            .rev()
            .map(|&k| match &consts[k] {
                Constant::Integer(z) => format!("(i {z})"),
                Constant::Binary(_) => format!("(bc {k})"),
            })
            .collect();
        stack.push("(t 0)".to_string());
        let ans = model.ask_all(&[
            ctx_line(&tuples, &consts, &[]),
            format!("(equaln {count} {})", stack.join(" ")),
        ]);
        // the model answers with the whole stack; the process result is its top
        let want = match ans[1].as_str() {
            x if x.starts_with("ok ") => {
                let top = x[3..].split(") ").next().unwrap_or("");
                format!("ok {}{}", top, if top.ends_with(')') { "" } else { ")" })
            }
            x => x.to_string(),
        };
        ev.case(&(i, count, &seq), count >= 2);
        ev.hit(&format!("equaln:n={}:{}", count.min(6), got.split(' ').next().unwrap_or("")));
        if got != want {
            // oracle: for 1 <= count <= available, Ok iff all `count` top values have the same content
            let avail = pushes + 1;
            let oracle = if count == 0 || count > avail {
                None
            } else {
                let vals: Vec<String> = stack[..count].to_vec();
                let content = |s: &String| -> String {
                    if let Some(k) = s.strip_prefix("(bc ").and_then(|x| x.strip_suffix(')')).and_then(|x| x.parse::<usize>().ok()) {
                        format!("{:?}", consts[k])
                    } else {
                        s.clone()
                    }
                };
                Some(vals.iter().all(|v| content(v) == content(&vals[0])))
            };
            let oracle_fails = match oracle {
                Some(o) => got != if o { "ok (t 1)" } else { "ok (t 0)" },
                None => false,
            };
            ev.violation(
                &format!("tie=equal-n n={}", count.min(6)),
                &format!("Equal({count}) on stack (top first) {}: implementation {got}, model {want}", stack.join(" ")),
                json!({"broken": "correspondence model<->impl on handle_equal", "count": count, "stack_top_first": stack, "consts": ctx_line(&tuples, &consts, &[]), "impl": got, "model": want}),
                oracle_fails,
            );
        }
    }
}

// ---------- corpus / replay ----------

fn modules_of(j: &J) -> HashMap<Vec<String>, String> {
    let mut m = HashMap::new();
    if let Some(o) = j.as_object() {
        for (k, v) in o {
            m.insert(k.split('/').map(String::from).collect(), v.as_str().unwrap_or("").to_string());
        }
    }
    m
}

/// A corpus program whose *value* is recorded (canonical string), on the sync path or the full system.
fn run_raw(ev: &mut Ev, b: &Builtins, j: &J, name: &str) {
    let src = j["source"].as_str().unwrap_or("").to_string();
    let modules = modules_of(&j["modules"]);
    let mode = j["mode"].as_str().unwrap_or("sync");
    let want = j["expect_value"].as_str().unwrap_or("");
    let got = if mode == "sim" {
        let workers = j["workers"].as_u64().unwrap_or(2) as usize;
        let mut sys = sim::Sys::new(workers, b, modules.clone());
        let mut r = Rng::for_case(j["sched_seed"].as_u64().unwrap_or(1), 0);
        match qverif::catch(|| sys.evaluate(&src, &mut r, 400_000)) {
            Ok(sim::Eval::Value(v, heap)) => {
                let prog = sys.env.get_program();
                let cx = qverif::canon::TablesCtx {
                    tuples: prog.get_tuples(),
                    constants: prog.get_constants(),
                    heap: &heap,
                    builtins: vec![],
                };
                qverif::canon::canon(&v, &cx)
            }
            Ok(other) => format!("{other:?}").chars().take(200).collect(),
            Err(p) => format!("panic:{}", p.lines().next().unwrap_or("")),
        }
    } else {
        match compile_source(&src, &modules, b) {
            Ok(unit) => {
                let bc = unit.program.to_bytecode(Some(unit.entry));
                let bc2 = bc.clone();
                let (out, ex) = run_sync(bc, b, false);
                qverif::run::canon_outcome(&out, ex.as_ref(), &bc2)
            }
            Err(e) => format!("rejected:{e:?}").chars().take(200).collect(),
        }
    };
    ev.hit("corpus:cases");
    ev.case(&(name, &src), true);
    if got != want {
        let sig = j["signature"].as_str().map(String::from).unwrap_or(format!("corpus={name}"));
        ev.violation(
            &sig,
            &format!("corpus case {name}: `{}` evaluates to {got}, the property demands {want}", src.replace('\n', ", ")),
            json!({"mode": mode, "source": src, "modules": j["modules"], "got": got, "want": want, "raw": true, "expect_value": want}),
            true,
        );
    }
}

fn run_described(ev: &mut Ev, model: &mut Model, b: &Builtins, j: &J, name: &str) {
    if j["raw"].as_bool() == Some(true) {
        run_raw(ev, b, j, name);
        return;
    }
    let src = j["source"].as_str().unwrap_or("").to_string();
    let modules = modules_of(&j["modules"]);
    let mode = j["mode"].as_str().unwrap_or("sync");
    let lit_is_b = j["literal_of_b"].as_bool();
    let got = if mode == "sim" {
        let workers = j["workers"].as_u64().or(j["extra"]["workers"].as_u64()).unwrap_or(2) as usize;
        let sched = j["sched_seed"].as_u64().or(j["extra"]["sched_seed"].as_u64()).unwrap_or(1);
        run_sim_case(ev, model, b, &src, &modules, None, lit_is_b, &[], workers, sched, json!({"corpus": name}))
    } else {
        run_sync_case(ev, model, b, &src, &modules, None, lit_is_b, &[], json!({"corpus": name}))
    };
    ev.hit("corpus:cases");
    match (&got, j["expect"].as_array()) {
        (Some(g), Some(e)) => {
            let e: Vec<Option<bool>> = e.iter().map(|x| x.as_bool()).collect();
            if g[..e.len().min(g.len())] != e[..] {
                ev.violation(
                    &format!("corpus={name}"),
                    &format!("corpus case {name}: verdicts {g:?}, the property demands {e:?}"),
                    json!({"mode": mode, "source": src, "modules": j["modules"], "got": g, "recorded": e, "expect": j["expect"], "workers": j["workers"], "sched_seed": j["sched_seed"]}),
                    true,
                );
            }
        }
        (None, _) => {
            ev.violation(
                &format!("corpus={name}"),
                &format!("corpus case {name} no longer runs"),
                json!({"mode": mode, "source": src, "modules": j["modules"]}),
                false,
            );
        }
        _ => {}
    }
}

fn part_corpus(ev: &mut Ev, model: &mut Model, b: &Builtins) {
    let dir = "/verif/corpus/C13";
    let Ok(rd) = std::fs::read_dir(dir) else { return };
    let mut files: Vec<_> = rd.filter_map(|e| e.ok()).map(|e| e.path()).filter(|p| p.extension().is_some_and(|x| x == "json")).collect();
    files.sort();
    for f in files {
        let Ok(text) = std::fs::read_to_string(&f) else { continue };
        let Ok(j) = serde_json::from_str::<J>(&text) else { continue };
        let name = f.file_stem().unwrap().to_string_lossy().to_string();
        run_described(ev, model, b, &j, &name);
    }
}

fn main() {
    qverif::quiet_panics();
    let opts = Opts::parse();
    let mut ev = Ev::new("C13", &opts);
    ev.rule = "a case is one pair of runtime values (a, b) returned by a real program together with \
               the verdicts of `a =&b`, `b =&a`, `[a, b] =[z, z]`, `a =&a`, `a =<literal of b>`; b has \
               the same specification as a (50%), a one-step mutation (40%: leaf, label, name, arity) or \
               an unrelated one; every node of either value is built by a randomly chosen path \
               (counters `path:*`); non-trivial = the program ran and returned the pair; distinct by \
               (source, runtime representation of a and b). Canonical-table cases: generated tuple \
               tables, non-trivial when at least one id is mapped to a lower id."
        .into();
    let b: Builtins = qverif::run::builtins();
    let mut model = Model::spawn(opts.model.as_ref().expect("--model"));

    if let Some(p) = &opts.replay {
        let j: J = serde_json::from_str(&std::fs::read_to_string(p).unwrap()).unwrap();
        let rp = &j["replay"];
        println!("replaying {} ({}):\n{}", p.display(), rp["mode"], rp["source"].as_str().unwrap_or(""));
        run_described(&mut ev, &mut model, &b, rp, "replay");
        println!("counters: {:?}", ev.counters);
        std::process::exit(ev.finish());
    }

    part_corpus(&mut ev, &mut model, &b);
    part_canon(&mut ev, &mut model, &opts);
    part_sync(&mut ev, &mut model, &opts, &b);
    part_sim(&mut ev, &mut model, &opts, &b);
    part_refs(&mut ev, &mut model, &opts, &b);
    part_direct(&mut ev, &mut model, &opts, &b);
    part_equaln(&mut ev, &mut model, &opts, &b);
    ev.set_extra("model_requests", json!(model.requests));
    std::process::exit(ev.finish());
}
